package pathint

import (
	"astverif/bitdom"
	"fmt"
	"go/token"
	"go/types"
	"sort"
	"strings"

	"astverif/lin"
	"astverif/load"
	"astverif/ssau"

	"golang.org/x/tools/go/ssa"
)

// exec executes one non-control instruction and returns the successor states (one, or several when a
// call forks over the callee's outcomes; none when every outcome is infeasible).
func (st *State) exec(in ssa.Instruction) []*State {
	ip := st.ip
	switch x := in.(type) {
	case *ssa.DebugRef:
	case *ssa.Alloc:
		id := st.nm(x)
		if st.zero[id] && len(st.exact) > 0 {
			// exact unrolling re-executes allocations: every execution creates its own object
			for n := 1; ; n++ {
				if cand := fmt.Sprintf("%s#%d", id, n); !st.zero[cand] {
					id = cand
					break
				}
			}
		}
		o := &Obj{ID: id, Type: x.Type().(*types.Pointer).Elem()}
		st.zero[id] = true
		if bt, isB := o.Type.Underlying().(*types.Basic); isB && bt.Info()&types.IsInteger != 0 {
			// an integer local that lives in memory (captured by a closure, address taken): a loop may accumulate into it
			if ip.intCells == nil {
				ip.intCells = map[string]types.Type{}
			}
			ip.intCells[id] = o.Type
		}
		// a re-executed alloc (never within one path, loops are cut) starts clean
		for k := range st.mem {
			if strings.HasPrefix(k, id+".") || k == id {
				delete(st.mem, k)
			}
		}
		st.vals[x] = Val{K: KPtr, O: o}
	case *ssa.Store:
		a := st.asAddr(st.eval(x.Addr), x.Addr.Type())
		if ip.Hooks != nil {
			ip.Hooks.Deref(st, x, st.eval(x.Addr))
		}
		sv := st.eval(x.Val)
		if ip.Hooks != nil && a.ok && sv.K == KPtr && sv.O != nil && a.path != "" {
			ip.Hooks.Publish(st, x, a.obj, a.path, sv.O)
		}
		st.store(a, sv)
	case *ssa.UnOp:
		v := st.unop(x)
		if ip.TrackBits {
			v = st.bitsUnop(x, v)
		}
		st.vals[x] = v
	case *ssa.BinOp:
		v := st.binop(x)
		if ip.TrackBits {
			v = st.bitsBinop(x, v)
		}
		st.vals[x] = v
	case *ssa.FieldAddr:
		base := st.eval(x.X)
		if ip.Hooks != nil {
			ip.Hooks.Deref(st, x, base)
		}
		// dereferencing a pointer the function did not create: it is non-nil from here on (a nil pointer
		// would have panicked — the definite-nil case is reported through the Deref hook)
		if base.K == KPtr && base.O != nil && base.Sym == "" && strings.HasPrefix(base.O.ID, "$") {
			k := "nil:" + base.O.ID
			if isNil, known := st.Preds[k]; known && isNil {
				return nil // infeasible continuation: the dereference panics
			} else if !known {
				st.Preds[k] = false
			}
		}
		n, _ := ssau.FieldName(x)
		if base.K == KPtr && base.O != nil {
			st.vals[x] = Val{K: KPtr, O: base.O, Sym: joinPath(base.Sym, n)}
		} else {
			st.vals[x] = Val{K: KPtr, O: &Obj{ID: ip.fresh("?obj"), Type: x.Type().(*types.Pointer).Elem()}}
		}
	case *ssa.Field:
		base := st.eval(x.X)
		n, _ := ssau.FieldName(x)
		st.vals[x] = st.fieldOf(base, n, x.Type())
	case *ssa.IndexAddr:
		if forks := st.forkOverTable(x); forks != nil {
			return forks
		}
		st.vals[x] = st.indexAddr(x)
	case *ssa.Index:
		base := st.eval(x.X)
		idx := st.intOf(st.eval(x.Index), x.Index.Type(), "idx")
		if at, ok := x.X.Type().Underlying().(*types.Array); ok && ip.Hooks != nil {
			ip.Hooks.Index(st, x, lin.Const(at.Len()), idx, true)
		}
		_ = base
		st.vals[x] = ip.symbolic(x.Type(), st.nm(x), st)
		// element k of an array value that is the load of a local composite literal all of whose element stores precede the load
		// in its block (`for _, f := range [...]bool{a, b, c}`): the value stored there
		if ld, ok := x.X.(*ssa.UnOp); ok && ld.Op == token.MUL && idx.IsConst() {
			if al, ok := ld.X.(*ssa.Alloc); ok && arrayLiteralStable(al, ld) {
				if av := st.eval(al); av.K == KPtr && av.O != nil {
					pv := Val{K: KPtr, O: av.O, Sym: "[" + idx.String() + "]"}
					st.vals[x] = st.load(st.asAddr(pv, types.NewPointer(x.Type())))
				}
			}
		}
	case *ssa.Slice:
		st.vals[x] = st.slice(x)
	case *ssa.MakeSlice:
		n := st.intOf(st.eval(x.Len), x.Len.Type(), "n")
		c := st.intOf(st.eval(x.Cap), x.Cap.Type(), "c")
		if ip.Hooks != nil {
			ip.Hooks.MakeSlice(st, x, n)
			if x.Cap != x.Len {
				// make([]T, len, cap) panics when cap < len or cap < 0: require cap - len >= 0 (len >= 0 is required above)
				ip.Hooks.MakeSlice(st, x, c.Sub(n))
			}
		}
		id := st.nm(x)
		// element contents are not tracked as zero: callees and library calls fill buffers
		st.vals[x] = Val{K: KSlice, S: &SliceV{ID: id, Len: n, Cap: c, IsNil: No}}
	case *ssa.Convert:
		v := st.convert(x)
		if ip.TrackBits {
			v = st.bitsConvert(x, v)
		}
		st.vals[x] = v
	case *ssa.ChangeType:
		st.vals[x] = st.eval(x.X)
	case *ssa.MakeInterface:
		st.vals[x] = st.eval(x.X)
	case *ssa.ChangeInterface:
		st.vals[x] = st.eval(x.X)
	case *ssa.SliceToArrayPointer:
		st.vals[x] = ip.symbolic(x.Type(), st.nm(x), st)
	case *ssa.Extract:
		t := st.eval(x.Tuple)
		if t.K == KTuple && x.Index < len(t.Tup) {
			st.vals[x] = t.Tup[x.Index]
		} else {
			st.vals[x] = ip.symbolic(x.Type(), st.nm(x), st)
		}
	case *ssa.Call:
		return st.call(x)
	case *ssa.Defer:
		if ip.Hooks != nil {
			var args []Val
			for _, a := range x.Call.Args {
				args = append(args, st.eval(a))
			}
			ip.Hooks.Call(st, x, ssau.CalleeName(&x.Call), args)
		}
	case *ssa.Go, *ssa.RunDefers, *ssa.Send:
	case *ssa.MapUpdate:
	case *ssa.TypeAssert:
		if x.CommaOk {
			// the outcome of a type test is a property of the tested value: two tests of the same value agree
			okKey := ip.fresh("assertok")
			if ov := st.eval(x.X); ov.Sym != "" {
				okKey = "isa:" + ov.Sym + ":" + types.TypeString(x.AssertedType, nil)
			}
			st.vals[x] = Val{K: KTuple, Tup: []Val{ip.symbolic(x.AssertedType, st.nm(x), st),
				{K: KBool, B: &Cond{Op: CPred, Key: okKey}}}}
		} else {
			st.vals[x] = ip.symbolic(x.AssertedType, st.nm(x), st)
		}
	case *ssa.Lookup:
		if x.CommaOk {
			el := x.X.Type().Underlying().(*types.Map).Elem()
			st.vals[x] = Val{K: KTuple, Tup: []Val{ip.symbolic(el, st.nm(x), st),
				{K: KBool, B: &Cond{Op: CPred, Key: ip.fresh("mapok")}}}}
		} else {
			st.vals[x] = ip.symbolic(x.Type(), st.nm(x), st)
		}
	case *ssa.Next:
		tt := x.Type().(*types.Tuple)
		tup := []Val{{K: KBool, B: &Cond{Op: CPred, Key: ip.fresh("rangeok")}}}
		for i := 1; i < tt.Len(); i++ {
			tup = append(tup, ip.symbolic(tt.At(i).Type(), st.nm(x), st))
		}
		st.vals[x] = Val{K: KTuple, Tup: tup}
	case ssa.Value:
		// MakeClosure, MakeMap, MakeChan, Range, Select …
		st.vals[x] = ip.symbolic(x.Type(), st.nm(x), st)
		if _, ok := x.(*ssa.MakeMap); ok {
			st.vals[x] = Val{K: KUnknown, Sym: ip.fresh("map")}
		}
	}
	return []*State{st}
}

func (st *State) fieldOf(base Val, name string, t types.Type) Val {
	if base.K == KStruct {
		if v, ok := base.Fields[name]; ok {
			return v
		}
		// nested struct: collect by prefix
		sub := map[string]Val{}
		for k, v := range base.Fields {
			if strings.HasPrefix(k, name+".") {
				sub[k[len(name)+1:]] = v
			}
		}
		if len(sub) > 0 {
			return Val{K: KStruct, Fields: sub}
		}
	}
	return st.ip.symbolic(t, st.ip.fresh("fld."+name), st)
}

func (st *State) unop(x *ssa.UnOp) Val {
	ip := st.ip
	switch x.Op {
	case token.MUL:
		pv := st.eval(x.X)
		if ip.Hooks != nil {
			ip.Hooks.Deref(st, x, pv)
		}
		a := st.asAddr(pv, x.X.Type())
		if !a.ok {
			return ip.symbolic(x.Type(), st.nm(x), st)
		}
		return st.load(a)
	case token.NOT:
		v := st.eval(x.X)
		if v.K == KBool {
			return Val{K: KBool, B: Not(v.B)}
		}
	case token.SUB:
		v := st.eval(x.X)
		if v.K == KInt {
			return IntVal(v.F.Scale(-1))
		}
	}
	return ip.symbolic(x.Type(), st.nm(x), st)
}

func (st *State) opaqueInt(x ssa.Value, lo, hi int64) Val {
	name := st.nm(x)
	tlo, thi, _ := intBounds(x.Type(), st.ip.sizes())
	if lo < tlo {
		lo = tlo
	}
	if hi > thi {
		hi = thi
	}
	st.ip.SetBounds(name, lo, hi)
	return IntVal(lin.Sym(name))
}

func (st *State) binop(x *ssa.BinOp) Val {
	ip := st.ip
	a, b := st.eval(x.X), st.eval(x.Y)
	_, _, isInt := intBounds(x.X.Type(), ip.sizes())
	if isInt {
		fa, fb := st.intOf(a, x.X.Type(), "a"), st.intOf(b, x.Y.Type(), "b")
		switch x.Op {
		case token.ADD:
			return st.wrapCheck(x, fa.Add(fb))
		case token.SUB:
			return st.wrapCheck(x, fa.Sub(fb))
		case token.MUL:
			if fa.IsConst() {
				return st.wrapCheck(x, fb.Scale(fa.C))
			}
			if fb.IsConst() {
				return st.wrapCheck(x, fa.Scale(fb.C))
			}
			lo := int64(lin.NegInf)
			if lin.LowerBound(fa, ip) >= 0 && lin.LowerBound(fb, ip) >= 0 {
				lo = 0
			}
			return st.opaqueInt(x, lo, lin.PosInf)
		case token.AND:
			hi := int64(lin.PosInf)
			if fb.IsConst() && fb.C >= 0 {
				hi = fb.C
			}
			if fa.IsConst() && fa.C >= 0 && fa.C < hi {
				hi = fa.C
			}
			if ua := lin.UpperBound(fa, ip); ua < hi && lin.LowerBound(fa, ip) >= 0 {
				hi = ua
			}
			return st.opaqueInt(x, 0, hi)
		case token.REM:
			if fb.IsConst() && fb.C > 0 && lin.LowerBound(fa, ip) >= 0 {
				return st.opaqueInt(x, 0, fb.C-1)
			}
			return st.opaqueInt(x, lin.NegInf, lin.PosInf)
		case token.QUO:
			if fb.IsConst() && fb.C > 0 && lin.LowerBound(fa, ip) >= 0 {
				hi := lin.UpperBound(fa, ip)
				if hi < lin.PosInf {
					hi = hi / fb.C
				}
				return st.opaqueInt(x, 0, hi)
			}
			return st.opaqueInt(x, lin.NegInf, lin.PosInf)
		case token.SHR:
			if fb.IsConst() && fb.C >= 0 && fb.C < 63 && lin.LowerBound(fa, ip) >= 0 {
				hi := lin.UpperBound(fa, ip)
				if hi < lin.PosInf {
					hi = hi >> uint(fb.C)
				}
				return st.opaqueInt(x, 0, hi)
			}
			return st.opaqueInt(x, lin.NegInf, lin.PosInf)
		case token.SHL:
			if fb.IsConst() && fb.C >= 0 && fb.C < 40 && lin.LowerBound(fa, ip) >= 0 {
				hi := lin.UpperBound(fa, ip)
				if hi < lin.PosInf/(1<<40) {
					hi = hi << uint(fb.C)
				} else {
					hi = lin.PosInf
				}
				return st.opaqueInt(x, 0, hi)
			}
			return st.opaqueInt(x, lin.NegInf, lin.PosInf)
		case token.OR, token.XOR, token.AND_NOT:
			// x | c (or x ^ c) with every possible bit of x below the lowest set bit of the constant c: the bits are disjoint, it is x + c
			if x.Op != token.AND_NOT {
				for _, pr := range [][2]lin.Form{{fa, fb}, {fb, fa}} {
					v, c := pr[0], pr[1]
					if !c.IsConst() || c.C < 0 || lin.LowerBound(v, ip) < 0 {
						continue
					}
					if c.C == 0 {
						return st.wrapCheck(x, v)
					}
					low := c.C & -c.C
					if h := lin.UpperBound(v, ip); h < low {
						return st.wrapCheck(x, v.Add(c))
					}
				}
			}
			if lin.LowerBound(fa, ip) >= 0 && lin.LowerBound(fb, ip) >= 0 {
				ha, hb := lin.UpperBound(fa, ip), lin.UpperBound(fb, ip)
				hi := int64(lin.PosInf)
				if ha < lin.PosInf && hb < lin.PosInf {
					m := ha
					if hb > m {
						m = hb
					}
					// next power of two minus one
					hi = 1
					for hi <= m {
						hi <<= 1
					}
					hi--
				}
				if x.Op == token.AND_NOT {
					hi = ha
				}
				return st.opaqueInt(x, 0, hi)
			}
			return st.opaqueInt(x, lin.NegInf, lin.PosInf)
		case token.LSS: // a < b  <=> b - a - 1 >= 0
			return Val{K: KBool, B: &Cond{Op: CGE, F: fb.Sub(fa).AddC(-1)}}
		case token.LEQ:
			return Val{K: KBool, B: &Cond{Op: CGE, F: fb.Sub(fa)}}
		case token.GTR:
			return Val{K: KBool, B: &Cond{Op: CGE, F: fa.Sub(fb).AddC(-1)}}
		case token.GEQ:
			return Val{K: KBool, B: &Cond{Op: CGE, F: fa.Sub(fb)}}
		case token.EQL:
			return Val{K: KBool, B: &Cond{Op: CEQ, F: fa.Sub(fb)}}
		case token.NEQ:
			return Val{K: KBool, B: Not(&Cond{Op: CEQ, F: fa.Sub(fb)})}
		}
	}
	if x.Op == token.EQL || x.Op == token.NEQ {
		c := st.eqCond(a, b, x)
		if x.Op == token.NEQ {
			c = Not(c)
		}
		return Val{K: KBool, B: c}
	}
	if isBool(x.Type()) && a.K == KBool && b.K == KBool {
		switch x.Op {
		case token.LAND, token.AND:
			return Val{K: KBool, B: &Cond{Op: CAnd, X: a.B, Y: b.B}}
		case token.LOR, token.OR:
			return Val{K: KBool, B: &Cond{Op: COr, X: a.B, Y: b.B}}
		}
	}
	return ip.symbolic(x.Type(), st.nm(x), st)
}

// arrayLiteralStable: every use of the local array al is an element store through a constant index that precedes ld in ld's block, or
// the load ld itself: the array value ld reads is exactly what those stores put there.
func arrayLiteralStable(al *ssa.Alloc, ld *ssa.UnOp) bool {
	if _, isArr := al.Type().Underlying().(*types.Pointer).Elem().Underlying().(*types.Array); !isArr || al.Referrers() == nil {
		return false
	}
	for _, r := range *al.Referrers() {
		switch y := r.(type) {
		case *ssa.DebugRef:
		case *ssa.UnOp:
			if y != ld {
				return false
			}
		case *ssa.IndexAddr:
			if _, isC := y.Index.(*ssa.Const); !isC || y.Referrers() == nil {
				return false
			}
			for _, rr := range *y.Referrers() {
				s, isS := rr.(*ssa.Store)
				if !isS || s.Addr != ssa.Value(y) || s.Block() != ld.Block() || ssau.IndexOf(s) > ssau.IndexOf(ld) {
					return false
				}
			}
		default:
			return false
		}
	}
	return true
}

// wrapCheck: unsigned arithmetic that may wrap is not linear; keep the form only when the result
// provably stays inside the type's range, else fall back to an opaque symbol.
func (st *State) wrapCheck(x *ssa.BinOp, f lin.Form) Val {
	lo, hi, _ := intBounds(x.Type(), st.ip.sizes())
	b, _ := x.Type().Underlying().(*types.Basic)
	if b != nil && b.Info()&types.IsUnsigned != 0 {
		if lin.LowerBound(f, st.ip) >= lo && lin.UpperBound(f, st.ip) <= hi {
			return IntVal(f)
		}
		if st.Prove(f) && (hi >= lin.PosInf || st.Prove(lin.Const(hi).Sub(f))) {
			return IntVal(f)
		}
		if st.ip.AssumeNoTruncation && !st.ip.StrictWrap {
			return IntVal(f)
		}
		return st.opaqueInt(x, lo, hi)
	}
	return IntVal(f)
}

func (st *State) eqCond(a, b Val, x *ssa.BinOp) *Cond {
	nilSide := func(v Val, s ssa.Value) bool {
		if c, ok := s.(*ssa.Const); ok && c.Value == nil {
			return true
		}
		return false
	}
	var other Val
	switch {
	case nilSide(b, x.Y):
		other = a
	case nilSide(a, x.X):
		other = b
	default:
		// comparison of two non-nil things: errors against sentinels, bools, strings …
		if a.K == KBool && b.K == KBool {
			if b.B.Op == CConst {
				if b.B.V {
					return a.B
				}
				return Not(a.B)
			}
		}
		ka, kb := a.Sym, b.Sym
		if g := ssau.GlobalOf(x.Y); g != nil {
			kb = "@" + g.Name()
		}
		if g := ssau.GlobalOf(x.X); g != nil {
			ka = "@" + g.Name()
		}
		if ka == "" {
			ka = a.String()
		}
		if kb == "" {
			kb = b.String()
		}
		if ka > kb {
			ka, kb = kb, ka
		}
		// identity of error values: a sentinel equals itself and nothing else that is known to be a
		// different sentinel or a freshly constructed error
		known := func(k string) bool {
			return strings.HasPrefix(k, "@") || strings.HasPrefix(k, "new:") || strings.HasPrefix(k, "wrap(")
		}
		if a.K == KErr && b.K == KErr && known(ka) && known(kb) {
			return &Cond{Op: CConst, V: ka == kb && strings.HasPrefix(ka, "@")}
		}
		// a nil error equals no sentinel
		if a.K == KErr && b.K == KErr {
			isNil := func(v Val) bool {
				if v.ErrNil == Yes {
					return true
				}
				if v.Sym != "" {
					if n, ok := st.Preds["nil:"+v.Sym]; ok && n {
						return true
					}
				}
				return false
			}
			// (ka, kb are sorted and no longer follow a, b)
			if (isNil(a) || isNil(b)) && (strings.HasPrefix(ka, "@") || strings.HasPrefix(kb, "@")) && ka != kb {
				return &Cond{Op: CConst, V: false}
			}
		}
		return &Cond{Op: CPred, Key: "eq:" + ka + "=" + kb}
	}
	switch other.K {
	case KNilPtr:
		return &Cond{Op: CConst, V: true}
	case KPtr:
		if other.O != nil && st.zero[other.O.ID] {
			return &Cond{Op: CConst, V: false} // freshly allocated object
		}
		id := "?"
		if other.O != nil {
			id = joinPath(other.O.ID, other.Sym)
		}
		return &Cond{Op: CPred, Key: "nil:" + id}
	case KErr:
		switch other.ErrNil {
		case Yes:
			return &Cond{Op: CConst, V: true}
		case No:
			return &Cond{Op: CConst, V: false}
		}
		return &Cond{Op: CPred, Key: "nil:" + other.Sym}
	case KSlice:
		switch other.S.IsNil {
		case Yes:
			return &Cond{Op: CConst, V: true}
		case No:
			return &Cond{Op: CConst, V: false}
		}
		return &Cond{Op: CPred, Key: "nil:" + other.S.ID}
	}
	k := other.Sym
	if k == "" {
		k = st.ip.fresh("v")
	}
	return &Cond{Op: CPred, Key: "nil:" + k}
}

func (st *State) convert(x *ssa.Convert) Val {
	ip := st.ip
	v := st.eval(x.X)
	slo, shi, sInt := intBounds(x.X.Type(), ip.sizes())
	dlo, dhi, dInt := intBounds(x.Type(), ip.sizes())
	if sInt && dInt {
		f := st.intOf(v, x.X.Type(), "cv")
		if h, ok := ip.Hooks.(NarrowArithHook); ok && slo >= 0 && shi < dhi {
			if b, isBin := x.X.(*ssa.BinOp); isBin && (b.Op == token.ADD || b.Op == token.MUL || b.Op == token.SHL) {
				h.NarrowArith(st, x, f, shi)
			}
		}
		// exact when the source range fits the destination range, or the value provably does
		if slo >= dlo && shi <= dhi {
			return IntVal(f)
		}
		lo, hi := lin.LowerBound(f, ip), lin.UpperBound(f, ip)
		if lo >= dlo && hi <= dhi {
			return IntVal(f)
		}
		if st.Prove(f.AddC(-dlo)) && (dhi >= lin.PosInf || st.Prove(lin.Const(dhi).Sub(f))) {
			return IntVal(f)
		}
		if ip.AssumeNoTruncation {
			return IntVal(f)
		}
		return st.opaqueInt(x, dlo, dhi)
	}
	if dInt {
		return st.opaqueInt(x, dlo, dhi)
	}
	// []byte(string), string([]byte) … keep slice shape
	if v.K == KSlice {
		return v
	}
	return ip.symbolic(x.Type(), st.nm(x), st)
}

func (st *State) sliceLenCap(v Val, t types.Type) (ln, cp lin.Form, id string, ok bool) {
	switch v.K {
	case KSlice:
		return v.S.Len, v.S.Cap, v.S.ID, true
	case KPtr:
		if pt, isP := t.Underlying().(*types.Pointer); isP {
			if at, isA := pt.Elem().Underlying().(*types.Array); isA {
				return lin.Const(at.Len()), lin.Const(at.Len()), joinPath(v.O.ID, v.Sym), true
			}
		}
	}
	return lin.Form{}, lin.Form{}, "", false
}

func (st *State) indexAddr(x *ssa.IndexAddr) Val {
	ip := st.ip
	base := st.eval(x.X)
	et := x.Type().(*types.Pointer).Elem()
	if st.loopIndex[x.Index] {
		// element of the slice a summarised loop ranges over: one canonical element object
		if _, _, id, ok := st.sliceLenCap(base, x.X.Type()); ok {
			return Val{K: KPtr, O: &Obj{ID: strings.ReplaceAll(id, ".", "/") + "[*]", Type: et}}
		}
	}
	idx := st.intOf(st.eval(x.Index), x.Index.Type(), "idx")
	ln, _, id, ok := st.sliceLenCap(base, x.X.Type())
	if ip.Hooks != nil {
		ip.Hooks.Index(st, x, ln, idx, ok)
	}
	if !ok {
		return Val{K: KPtr, O: &Obj{ID: ip.fresh("?elem"), Type: et}}
	}
	off := lin.Const(0)
	if base.K == KSlice {
		off = base.S.Off
	}
	pos := off.Add(idx)
	o := &Obj{ID: id, Type: et}
	if base.K == KSlice && base.S.Event != "" {
		o = &Obj{ID: base.S.Event, Type: et}
	}
	return Val{K: KPtr, O: o, Sym: "[" + pos.String() + "]"}
}

func (st *State) slice(x *ssa.Slice) Val {
	ip := st.ip
	base := st.eval(x.X)
	ln, cp, id, ok := st.sliceLenCap(base, x.X.Type())
	if !ok {
		ln = lin.Sym(ip.fresh("len"))
		cp = ln
		id = ip.fresh("?slice")
	}
	lo := lin.Const(0)
	if x.Low != nil {
		lo = st.intOf(st.eval(x.Low), x.Low.Type(), "lo")
	}
	hi := ln
	if x.High != nil {
		hi = st.intOf(st.eval(x.High), x.High.Type(), "hi")
	}
	isStr := false
	if b, isB := x.X.Type().Underlying().(*types.Basic); isB && b.Kind() == types.String {
		isStr = true
		cp = ln
	}
	_ = isStr
	if ip.Hooks != nil && ok {
		ip.Hooks.Slice(st, x, cp, lo, hi)
	}
	off := lin.Const(0)
	ev := ""
	if base.K == KSlice {
		off = base.S.Off
		ev = base.S.Event
	}
	return Val{K: KSlice, S: &SliceV{ID: id, Len: hi.Sub(lo), Cap: cp.Sub(lo), Off: off.Add(lo), Event: ev, IsNil: sliceNil(base)}}
}

func sliceNil(v Val) Tri {
	if v.K == KSlice {
		return v.S.IsNil
	}
	return No
}

// ---- calls

func (st *State) call(x *ssa.Call) []*State {
	ip := st.ip
	cc := &x.Call
	var args []Val
	for _, a := range cc.Args {
		args = append(args, st.eval(a))
	}
	name := ssau.CalleeName(cc)
	if ip.Hooks != nil {
		ip.Hooks.Call(st, x, name, args)
	}
	// a slice handed to any callee may be written through: its elements are no longer known
	if _, isBuiltin := cc.Value.(*ssa.Builtin); !isBuiltin || name == "builtin:copy" {
		for i, a := range args {
			if a.K == KSlice && !(name == "builtin:copy" && i == 1) {
				id := a.S.ID
				if a.S.Event != "" {
					continue
				}
				delete(st.zero, id)
				for k := range st.mem {
					if strings.HasPrefix(k, id+".[") {
						delete(st.mem, k)
					}
				}
			}
		}
	}
	resName := st.nm(x)
	// builtins
	if b, ok := cc.Value.(*ssa.Builtin); ok {
		st.vals[x] = st.builtin(x, b.Name(), args)
		return []*State{st}
	}
	// iterator methods
	if f := cc.StaticCallee(); f != nil && f.Signature.Recv() != nil && isIterPtr(f.Signature.Recv().Type()) && len(args) > 0 && args[0].K == KPtr {
		st.vals[x] = st.iterCall(x, f.Name(), args)
		return []*State{st}
	}
	if v, ok := st.writerCall(x, name, args, resName); ok {
		st.vals[x] = v
		return []*State{st}
	}
	if name == load.AstikitPath+".NewBytesIterator" && len(args) == 1 {
		id := resName
		o := &Obj{ID: id}
		l := lin.Sym(ip.fresh("len"))
		if args[0].K == KSlice {
			l = args[0].S.Len
		}
		st.mem[id+".#cur"] = IntVal(lin.Const(0))
		st.mem[id+".#len"] = IntVal(l)
		st.zero[id] = true
		st.vals[x] = Val{K: KPtr, O: o}
		return []*State{st}
	}
	if f := cc.StaticCallee(); f != nil {
		if spec, ok := ip.Abstract[f]; ok && spec.ArgIdx < len(args) {
			st.vals[x] = st.applyAbstract(x, f, spec, args, resName)
			return []*State{st}
		}
	}
	// a local closure called where it was made (`write := func(x T) error { … }; … write(a)`): its body runs in the caller's
	// state with the free variables bound to what the MakeClosure captured (addresses of the caller's locals)
	if mc, ok := cc.Value.(*ssa.MakeClosure); ok {
		if f, isFn := mc.Fn.(*ssa.Function); isFn && f.Blocks != nil && st.depth < 12 && !ip.inProgress[f] && len(mc.Bindings) == len(f.FreeVars) {
			for i, fv := range f.FreeVars {
				st.vals[fv] = st.eval(mc.Bindings[i])
			}
			return st.inlineCall(x, f, args)
		}
	}
	// package functions with bodies
	if f := cc.StaticCallee(); f != nil && f.Blocks != nil && f.Pkg == st.Fn.Pkg {
		if !ip.InlineCalls && ip.isPurePredicate(f) {
			// a shallow predicate (`a == K || p(a)`) is evaluated in place: its atoms — comparisons and the deeper predicates it
			// calls — are then the same whether the caller spells the condition out or calls the predicate
			// (only predicates that are built from other predicates: one that is a plain comparison chain keeps its name, which is
			// what lets two functions that both call it agree on its outcome without reasoning about the values)
			if len(f.Blocks) <= 4 && st.depth < 12 && !ip.inProgress[f] && callsPredicate(f) {
				return st.inlineCall(x, f, args)
			}
			var parts []string
			for i, a := range args {
				parts = append(parts, "⟦"+ip.regForm(st.intOf(a, cc.Args[i].Type(), "p"))+"⟧")
			}
			st.vals[x] = Val{K: KBool, B: &Cond{Op: CPred, Key: "pure:" + f.Name() + "(" + strings.Join(parts, ",") + ")"}}
			return []*State{st}
		}
		if ip.InlineCalls && st.depth < 12 && !ip.inProgress[f] {
			return st.inlineCall(x, f, args)
		}
		sum := ip.Summarize(f)
		if !sum.Opaque && len(sum.Outcomes) > 0 {
			return st.applySummary(x, f, sum, args)
		}
	}
	// encoding/binary: BigEndian.Uint16/32/64(bs) is the big-endian concatenation of the first 2/4/8 bytes
	if n := bigEndianWidth(name); n > 0 && len(args) == 2 && args[1].K == KSlice {
		if v, ok := st.bigEndian(x, args[1].S, n); ok {
			st.vals[x] = v
			return []*State{st}
		}
	}
	// everything else: opaque result of the right type
	st.vals[x] = st.opaqueResult(x, name, resName)
	return []*State{st}
}

// bigEndianWidth: number of bytes read by (encoding/binary.bigEndian).UintN, 0 for any other callee.
func bigEndianWidth(name string) int {
	switch name {
	case "(encoding/binary.bigEndian).Uint16":
		return 2
	case "(encoding/binary.bigEndian).Uint32":
		return 4
	case "(encoding/binary.bigEndian).Uint64":
		return 8
	}
	return 0
}

// BigEndianWidth is bigEndianWidth for hooks.
func BigEndianWidth(name string) int { return bigEndianWidth(name) }

// bigEndian evaluates binary.BigEndian.UintN on a tracked slice whose length is known to suffice.
func (st *State) bigEndian(x *ssa.Call, s *SliceV, n int) (Val, bool) {
	ip := st.ip
	if !st.ProveSimplified(ip.SimplifyForm(s.Len.AddC(-int64(n)), st)) {
		return Val{}, false
	}
	hi := int64(lin.PosInf)
	if n < 8 {
		hi = int64(1)<<uint(8*n) - 1
	}
	res := st.opaqueInt(x, 0, hi)
	et := types.Typ[types.Uint8]
	var elems []Val
	for k := 0; k < n; k++ {
		o := &Obj{ID: s.ID, Type: et}
		if s.Event != "" {
			o = &Obj{ID: s.Event, Type: et}
		}
		pv := Val{K: KPtr, O: o, Sym: "[" + s.Off.AddC(int64(k)).String() + "]"}
		a := st.asAddr(pv, types.NewPointer(et))
		if !a.ok {
			return res, true
		}
		elems = append(elems, st.load(a))
	}
	// linear value when every byte has one: Σ byte_k · 256^(n-1-k) (cannot wrap: bytes are < 256, n <= 7 fits int64). With bit
	// tracking the result stays one symbol defined by its bits, exactly as the shift-and-or spelling evaluates: the translation to
	// the writer's side works on whole symbols, and a sum of byte symbols has none.
	if n < 8 && !ip.TrackBits {
		f := lin.Const(0)
		okf := true
		for k, e := range elems {
			if e.K != KInt {
				okf = false
				break
			}
			f = f.Add(e.F.Scale(int64(1) << uint(8*(n-1-k))))
		}
		if okf {
			res = IntVal(f)
		}
	}
	if ip.TrackBits {
		vec := make(bitdom.Vec, 8*n)
		for k, e := range elems {
			bv, _ := st.VecOf(e, et)
			for b := 0; b < 8; b++ {
				vec[8*(n-1-k)+b] = bv[b]
			}
		}
		return st.withBits(res, vec), true
	}
	return res, true
}

// callsPredicate: the body of f calls at least one function of its package.
func callsPredicate(f *ssa.Function) bool {
	for _, b := range f.Blocks {
		for _, in := range b.Instrs {
			if c, ok := in.(*ssa.Call); ok {
				if cal := c.Call.StaticCallee(); cal != nil && cal.Pkg == f.Pkg {
					return true
				}
			}
		}
	}
	return false
}

// isPurePredicate: a package function whose parameters are all integers/booleans, whose single result
// is a bool and whose body neither stores, nor calls anything but other pure predicates.
func (ip *Interp) isPurePredicate(f *ssa.Function) bool {
	pureCache := ip.pureCache
	if v, ok := pureCache[f]; ok {
		return v == 1
	}
	pureCache[f] = 2 // in progress: assume not pure on recursion
	ok := func() bool {
		sig := f.Signature
		if sig.Results().Len() != 1 || !isBool(sig.Results().At(0).Type()) {
			return false
		}
		for _, p := range f.Params {
			b, isB := p.Type().Underlying().(*types.Basic)
			if !isB || b.Info()&(types.IsInteger|types.IsBoolean) == 0 {
				return false
			}
		}
		if len(f.Params) == 0 || len(f.FreeVars) > 0 {
			return false
		}
		for _, b := range f.Blocks {
			for _, in := range b.Instrs {
				switch x := in.(type) {
				case *ssa.Store, *ssa.MapUpdate, *ssa.Send, *ssa.Go, *ssa.Defer, *ssa.Panic, *ssa.Alloc:
					return false
				case *ssa.UnOp:
					if x.Op == token.MUL {
						return false
					}
				case *ssa.Call:
					callee := x.Call.StaticCallee()
					if callee == nil || callee.Pkg != f.Pkg || !ip.isPurePredicate(callee) {
						return false
					}
				}
			}
		}
		return true
	}()
	if ok {
		pureCache[f] = 1
	} else {
		pureCache[f] = 0
	}
	return ok
}

// ioPrimitive: calls whose error is a failure of the underlying reader/writer itself.
var ioPrimitive = map[string]bool{"io.ReadFull": true, "io.ReadAtLeast": true, "iface:(io.Reader).Read": true, "(*bufio.Reader).Peek": true,
	"(*bufio.Reader).Discard": true, "(*bufio.Reader).Read": true, "iface:(io.Seeker).Seek": true, "iface:(io.ReadSeeker).Seek": true,
	"iface:(io.Writer).Write": true}

func (st *State) opaqueResult(x *ssa.Call, name, resName string) Val {
	ip := st.ip
	sig := x.Call.Signature()
	mk := func(t types.Type, i int) Val {
		n := fmt.Sprintf("%s#%d", resName, i)
		v := ip.symbolic(t, n, st)
		if v.K == KErr && (name == "fmt.Errorf" || name == "errors.New") {
			v.ErrNil = No
			// remember whether the new error wraps another one (and which)
			v.Sym = "new:" + n
			if name == "fmt.Errorf" && len(x.Call.Args) == 2 {
				if vals, ok := ssau.VarargValues(x.Call.Args[1]); ok {
					for _, a := range vals {
						if av, has := st.vals[ssau.StripIface(a)]; has && av.K == KErr {
							v.Sym = "wrap(" + av.Sym + ")"
						} else if av, has := st.vals[a]; has && av.K == KErr {
							v.Sym = "wrap(" + av.Sym + ")"
						}
					}
				}
			}
		}
		if v.K == KErr && ioPrimitive[name] {
			v.Sym = "ioerr:" + v.Sym
		}
		return v
	}
	switch sig.Results().Len() {
	case 0:
		return Val{K: KTuple}
	case 1:
		return mk(sig.Results().At(0).Type(), 0)
	}
	var tup []Val
	for i := 0; i < sig.Results().Len(); i++ {
		tup = append(tup, mk(sig.Results().At(i).Type(), i))
	}
	return Val{K: KTuple, Tup: tup}
}

func (st *State) builtin(x *ssa.Call, name string, args []Val) Val {
	ip := st.ip
	switch name {
	case "len":
		if len(args) == 1 {
			if ln, _, _, ok := st.sliceLenCap(args[0], x.Call.Args[0].Type()); ok {
				return IntVal(ln)
			}
			if _, isSl := x.Call.Args[0].Type().Underlying().(*types.Slice); isSl && args[0].K == KUnknown {
				// give the untracked slice an identity so that later uses agree on its length
				name := args[0].Sym
				if name == "" {
					name = ip.fresh("slice")
				}
				nv := ip.symbolic(x.Call.Args[0].Type(), name, st)
				st.vals[x.Call.Args[0]] = nv
				return IntVal(nv.S.Len)
			}
		}
		return st.opaqueInt(x, 0, lin.PosInf)
	case "cap":
		if len(args) == 1 {
			if _, cp, _, ok := st.sliceLenCap(args[0], x.Call.Args[0].Type()); ok {
				return IntVal(cp)
			}
		}
		return st.opaqueInt(x, 0, lin.PosInf)
	case "copy":
		// 0 <= n <= min(len(dst), len(src))
		v := st.opaqueInt(x, 0, lin.PosInf)
		if len(args) == 2 {
			for _, a := range args {
				if a.K == KSlice {
					st.Facts = append(st.Facts, lin.Fact{F: a.S.Len.Sub(v.F)})
				}
			}
		}
		return v
	case "delete":
		st.Mark("delete")
		return Val{K: KTuple}
	case "append":
		if len(args) == 2 && args[0].K == KSlice && args[1].K == KSlice {
			ln := args[0].S.Len.Add(args[1].S.Len)
			cs := ip.fresh("cap")
			ip.SetBounds(cs, 0, lin.PosInf)
			st.Facts = append(st.Facts, lin.Fact{F: lin.Sym(cs).Sub(ln)})
			res := &SliceV{ID: ip.fresh("append"), Len: ln, Cap: lin.Sym(cs), IsNil: Maybe}
			if ip.TrackBits {
				// element tracking for short appended slices (layouts of loop bodies)
				l0 := st.ip.SimplifyForm(args[0].S.Len, st)
				if n := args[1].S.Len; n.IsConst() && n.C >= 0 && n.C <= 4 && (args[0].S.Elems != nil || (l0.IsConst() && l0.C == 0)) && args[1].S.Off.IsConst() {
					elems := append([]Val{}, args[0].S.Elems...)
					ok := true
					for k := int64(0); k < n.C; k++ {
						ev, has := st.mem[fmt.Sprintf("%s.[%d]", args[1].S.ID, args[1].S.Off.C+k)]
						if !has {
							ok = false
							break
						}
						elems = append(elems, ev)
					}
					if ok {
						if elems == nil {
							elems = []Val{}
						}
						res.Elems = elems
					}
				}
			}
			return Val{K: KSlice, S: res}
		}
		if len(args) == 2 && args[0].K == KSlice {
			// append(s, x...) where x is an untracked slice
			ls := ip.fresh("len")
			ip.SetBounds(ls, 0, lin.PosInf)
			st.Facts = append(st.Facts, lin.Fact{F: lin.Sym(ls).Sub(args[0].S.Len)})
			return Val{K: KSlice, S: &SliceV{ID: ip.fresh("append"), Len: lin.Sym(ls), Cap: lin.Sym(ls)}}
		}
	}
	return ip.symbolic(x.Type(), st.nm(x), st)
}

func (st *State) iterCall(x *ssa.Call, method string, args []Val) Val {
	ip := st.ip
	it := args[0].O
	cur := st.Cursor(it)
	var argp *Val
	if len(args) > 1 {
		argp = &args[1]
	}
	if ip.Hooks != nil {
		ip.Hooks.IterCall(st, x, method, it, cur, argp)
	}
	resName := st.nm(x)
	switch method {
	case "NextByte":
		errSym := resName + ".err"
		st.pending[errSym] = pendingAdv{it: it.ID, adv: lin.Const(1)}
		b := resName + ".b"
		ip.SetBounds(b, 0, 255)
		if ip.Oracle != nil {
			if v, ok := ip.Oracle.Byte(st, it, cur, b); ok {
				st.Events = append(st.Events, Event{Kind: "fetch", Obj: it.ID, Off: cur, Width: lin.Const(1), Val: v, Pos: x.Pos(), ID: b})
				return Val{K: KTuple, Tup: []Val{v, st.fetchErr(it, cur, lin.Const(1), errSym)}}
			}
		}
		if ip.TrackBits {
			st.Events = append(st.Events, Event{Kind: "fetch", Obj: it.ID, Off: cur, Width: lin.Const(1), Val: IntVal(lin.Sym(b)), Pos: x.Pos(), ID: b})
		}
		return Val{K: KTuple, Tup: []Val{IntVal(lin.Sym(b)), {K: KErr, Sym: errSym}}}
	case "NextBytes", "NextBytesNoCopy":
		n := st.intOf(args[1], types.Typ[types.Int], "n")
		errSym := resName + ".err"
		st.pending[errSym] = pendingAdv{it: it.ID, adv: n}
		ev := resName + ".ev"
		if ip.Oracle != nil {
			blob, known := ip.Oracle.Bytes(st, it, cur, n)
			if known {
				sv := &SliceV{ID: ev, Len: n, Cap: n, Event: ev, IsNil: No}
				if blob != "" {
					sv.Blob = blob
				}
				// a fetch that certainly fails (cursor + n beyond the length) delivers no bytes: do not ask for them
				certainFail := st.ProveSimplified(ip.SimplifyForm(cur.Add(n).Sub(st.IterLen(it)).AddC(-1), st))
				if n.IsConst() && n.C >= 0 && n.C <= 64 && blob == "" && !certainFail {
					for k := int64(0); k < n.C; k++ {
						if bv, ok := ip.Oracle.Byte(st, it, cur.AddC(k), fmt.Sprintf("%s.[%d]", ev, k)); ok {
							st.mem[fmt.Sprintf("%s.[%d]", ev, k)] = bv
						}
					}
				}
				st.Events = append(st.Events, Event{Kind: "fetch", Obj: it.ID, Off: cur, Width: n, Val: Val{K: KSlice, S: sv}, Pos: x.Pos(), ID: ev})
				return Val{K: KTuple, Tup: []Val{{K: KSlice, S: sv}, st.fetchErr(it, cur, n, errSym)}}
			}
		}
		if ip.TrackBits {
			st.Events = append(st.Events, Event{Kind: "fetch", Obj: it.ID, Off: cur, Width: n, Val: Val{K: KSlice, S: &SliceV{ID: ev, Len: n, Cap: n, Event: ev, IsNil: No}}, Pos: x.Pos(), ID: ev})
		}
		return Val{K: KTuple, Tup: []Val{{K: KSlice, S: &SliceV{ID: ev, Len: n, Cap: n, Event: ev, IsNil: No}}, {K: KErr, Sym: errSym}}}
	case "Skip":
		n := st.intOf(args[1], types.Typ[types.Int], "n")
		st.setCursor(it, cur.Add(n))
		return Val{K: KTuple}
	case "Seek":
		n := st.intOf(args[1], types.Typ[types.Int], "n")
		st.setCursor(it, n)
		return Val{K: KTuple}
	case "Offset":
		return IntVal(cur)
	case "Len":
		return IntVal(st.IterLen(it))
	case "HasBytesLeft":
		return Val{K: KBool, B: &Cond{Op: CGE, F: st.IterLen(it).Sub(cur).AddC(-1)}}
	case "Dump":
		if ip.Oracle != nil {
			n := st.IterLen(it).Sub(cur)
			if blob, known := ip.Oracle.Bytes(st, it, cur, n); known && blob != "" {
				st.setCursor(it, st.IterLen(it))
				ev := resName + ".ev"
				sv := &SliceV{ID: ev, Len: n, Cap: n, Event: ev, IsNil: Maybe, Blob: blob}
				st.Events = append(st.Events, Event{Kind: "fetch", Obj: it.ID, Off: cur, Width: n, Val: Val{K: KSlice, S: sv}, Pos: x.Pos(), ID: ev})
				return Val{K: KSlice, S: sv}
			}
		}
		ln := st.IterLen(it)
		// rest = max(0, len-cur); cursor = max(cur, len)
		rest := ip.fresh("rest")
		ip.SetBounds(rest, 0, lin.PosInf)
		nc := ip.fresh(it.ID + "#cur@dump")
		ip.SetBounds(nc, 0, lin.PosInf)
		st.Facts = append(st.Facts, lin.Fact{F: lin.Sym(nc).Sub(cur)}, lin.Fact{F: lin.Sym(nc).Sub(ln)})
		st.setCursor(it, lin.Sym(nc))
		return Val{K: KSlice, S: &SliceV{ID: resName, Len: lin.Sym(rest), Cap: lin.Sym(rest), IsNil: Maybe}}
	}
	return ip.symbolic(x.Type(), resName, st)
}

// applySummary forks the path over the callee's outcomes.
func (st *State) applySummary(x *ssa.Call, f *ssa.Function, sum *Summary, args []Val) []*State {
	ip := st.ip
	inst := st.pfx + "<" + st.Fn.Name() + ":" + x.Name() + ">"
	// substitution for parameter-rooted names
	paramVal := map[string]Val{}
	for i, p := range f.Params {
		if i < len(args) {
			paramVal["$"+p.Name()] = args[i]
		}
	}
	// requirements of the callee must hold here
	for _, rq := range sum.Reqs {
		g := st.instForm(rq.F, paramVal, inst)
		site := rq.Site
		if ok, lifted := st.Require(rq.Rule, site, rq.Pos, g, rq.Desc); !ok && !lifted {
			ip.failReq(st, rq, x)
		}
	}
	var out []*State
	for oi := range sum.Outcomes {
		o := &sum.Outcomes[oi]
		ns := st
		if oi < len(sum.Outcomes)-1 {
			ns = st.clone()
		}
		ok, res := ns.bindOutcome(f, o, paramVal, inst)
		if !ok {
			continue // infeasible
		}
		switch len(res) {
		case 0:
			ns.vals[x] = Val{K: KTuple}
		case 1:
			ns.vals[x] = res[0]
		default:
			ns.vals[x] = Val{K: KTuple, Tup: res}
		}
		out = append(out, ns)
	}
	return out
}

// instForm instantiates a callee form in the caller: parameter symbols are replaced by the
// argument forms, callee-local symbols get an instance prefix.
func (st *State) instForm(f lin.Form, paramVal map[string]Val, inst string) lin.Form {
	sub := map[string]lin.Form{}
	for _, s := range f.Syms() {
		sub[s] = st.instSym(s, paramVal, inst)
	}
	return f.Subst(sub)
}

// splitParamName splits "$p/a/b.c.d#cur" into root "$p", the pointer hops ["a","b"], the field path
// "c.d" inside the final object and the suffix "#cur".
func splitParamName(core string) (root string, hops []string, path, suffix string) {
	if i := strings.IndexByte(core, '#'); i >= 0 {
		core, suffix = core[:i], core[i:]
	}
	objPart := core
	if i := strings.IndexByte(core, '.'); i >= 0 {
		objPart, path = core[:i], core[i+1:]
	}
	parts := strings.Split(objPart, "/")
	return parts[0], parts[1:], path, suffix
}

// resolveObj maps a callee-side parameter-rooted object name to the caller's object.
func (st *State) resolveObj(root string, hops []string, paramVal map[string]Val) (*Obj, string, bool) {
	av, ok := paramVal[root]
	if !ok || av.K != KPtr || av.O == nil {
		return nil, "", false
	}
	cur, pre := av.O, av.Sym
	for _, h := range hops {
		// hop names were produced from field paths with '.' replaced by '/': try progressively
		key := joinPath(cur.ID, joinPath(pre, h))
		if mv, ok := st.mem[key]; ok && mv.K == KPtr && mv.O != nil {
			cur, pre = mv.O, mv.Sym
			continue
		}
		// not materialised in the caller: the caller would name it the same way on first load
		cur, pre = &Obj{ID: strings.ReplaceAll(key, ".", "/")}, ""
	}
	return cur, pre, true
}

func (st *State) instSym(s string, paramVal map[string]Val, inst string) lin.Form {
	ip := st.ip
	if fs := splitProduct(s); len(fs) > 1 {
		// product symbol: instantiate the factors and multiply
		res := lin.Const(1)
		for _, fa := range fs {
			res = ip.mulForms(res, st.instSym(fa, paramVal, inst))
		}
		return res
	}
	if c, ok := ip.indConds[s]; ok {
		c2 := st.instCond(c, paramVal, inst)
		switch st.Decide(c2) {
		case Yes:
			return lin.Const(1)
		case No:
			return lin.Const(0)
		}
		return ip.indicator(c2)
	}
	wrap := ""
	core := s
	if (strings.HasPrefix(s, "len(") || strings.HasPrefix(s, "cap(")) && strings.HasSuffix(s, ")") {
		wrap, core = s[:3], s[4:len(s)-1]
	}
	if strings.HasPrefix(core, "$") {
		root, hops, path, suffix := splitParamName(core)
		if av, ok := paramVal[root]; ok {
			if len(hops) == 0 && path == "" && suffix == "" {
				switch {
				case wrap == "" && av.K == KInt:
					return av.F
				case wrap == "len" && av.K == KSlice:
					return av.S.Len
				case wrap == "cap" && av.K == KSlice:
					return av.S.Cap.Sub(av.S.Len) // cap($x) denotes the slack
				}
			}
			if av.K == KStruct && len(hops) == 0 && path != "" {
				if fv, ok := av.Fields[path]; ok {
					if fv.K == KInt && wrap == "" {
						return fv.F
					}
					if fv.K == KSlice && wrap == "len" {
						return fv.S.Len
					}
				}
			}
			if o, pre, ok := st.resolveObj(root, hops, paramVal); ok {
				switch {
				case suffix == "#cur" && path == "":
					return st.Cursor(o)
				case suffix == "#len" && path == "":
					return st.IterLen(o)
				case suffix == "#bits" && path == "":
					return st.Bits(o)
				case path != "":
					key := joinPath(o.ID, joinPath(pre, path))
					if mv, ok := st.mem[key]; ok {
						if wrap == "" && mv.K == KInt {
							return mv.F
						}
						if wrap == "len" && mv.K == KSlice {
							return mv.S.Len
						}
						if wrap == "cap" && mv.K == KSlice {
							return mv.S.Cap.Sub(mv.S.Len)
						}
					}
					ns := key
					if wrap != "" {
						ns = wrap + "(" + key + ")"
					}
					if _, ok := ip.lo[ns]; !ok {
						ip.SetBounds(ns, ip.Lo(s), ip.Hi(s))
					}
					return lin.Sym(ns)
				}
			}
		}
		ns := st.instText(s, paramVal, inst)
		if _, ok := ip.lo[ns]; !ok {
			ip.SetBounds(ns, ip.Lo(s), ip.Hi(s))
		}
		return lin.Sym(ns)
	}
	ns := st.instText(s, paramVal, inst)
	if _, ok := ip.lo[ns]; !ok {
		ip.SetBounds(ns, ip.Lo(s), ip.Hi(s))
	}
	return lin.Sym(ns)
}

// instText renames a composite symbol name (Σ{…}, indicator, product, len(…) of a nested cell …) for use in
// the caller: every parameter token "$name" is replaced by the caller's name for the argument (object id,
// slice id); names that mention no parameter get the instance prefix.
func (st *State) instText(s string, paramVal map[string]Val, inst string) string {
	if !strings.Contains(s, "$") {
		return inst + s
	}
	var sb strings.Builder
	unresolved := false
	for i := 0; i < len(s); {
		if s[i] != '$' {
			sb.WriteByte(s[i])
			i++
			continue
		}
		j := i + 1
		for j < len(s) && (s[j] == '_' || s[j] >= '0' && s[j] <= '9' || s[j] >= 'a' && s[j] <= 'z' || s[j] >= 'A' && s[j] <= 'Z') {
			j++
		}
		tok := s[i:j]
		elem := strings.HasPrefix(s[j:], "[*]")
		av, ok := paramVal[tok]
		switch {
		case ok && av.K == KPtr && av.O != nil:
			name := av.O.ID
			if av.Sym != "" {
				name = joinPath(name, av.Sym)
			}
			sb.WriteString(name)
		case ok && av.K == KSlice:
			if elem {
				sb.WriteString(strings.ReplaceAll(av.S.ID, ".", "/"))
			} else {
				sb.WriteString(av.S.ID)
			}
		case ok && av.K == KInt:
			sb.WriteString("(" + av.F.String() + ")")
		default:
			unresolved = true
			sb.WriteString(tok)
		}
		i = j
	}
	if unresolved {
		return inst + sb.String()
	}
	return sb.String()
}

func (st *State) instVal(v Val, paramVal map[string]Val, inst string, objMap map[string]*Obj) Val {
	r := st.instVal0(v, paramVal, inst, objMap)
	if bv, ok := v.Bits.(bitdom.Vec); ok && (r.K == KInt || r.K == KBool) {
		nv := st.instVec(bv, paramVal, inst)
		if r.K == KInt && !r.F.IsConst() || r.K == KBool && r.B != nil && r.B.Op != CConst {
			r = st.withBits(r, nv)
		} else {
			r.Bits = nv
		}
	}
	return r
}

func (st *State) instVal0(v Val, paramVal map[string]Val, inst string, objMap map[string]*Obj) Val {
	switch v.K {
	case KInt:
		return IntVal(st.instForm(v.F, paramVal, inst))
	case KBool:
		return Val{K: KBool, B: st.instCond(v.B, paramVal, inst)}
	case KPtr:
		if v.O == nil {
			return v
		}
		return Val{K: KPtr, O: st.instObj(v.O, paramVal, inst, objMap), Sym: v.Sym}
	case KSlice:
		s := *v.S
		s.Len = st.instForm(s.Len, paramVal, inst)
		s.Cap = st.instForm(s.Cap, paramVal, inst)
		s.Off = st.instForm(s.Off, paramVal, inst)
		if !strings.HasPrefix(s.ID, "$") {
			s.ID = inst + s.ID
		}
		if s.Event != "" {
			s.Event = inst + s.Event
		}
		return Val{K: KSlice, S: &s}
	case KStruct:
		fs := map[string]Val{}
		for k, fv := range v.Fields {
			fs[k] = st.instVal(fv, paramVal, inst, objMap)
		}
		return Val{K: KStruct, Fields: fs}
	case KTuple:
		var t []Val
		for _, tv := range v.Tup {
			t = append(t, st.instVal(tv, paramVal, inst, objMap))
		}
		return Val{K: KTuple, Tup: t}
	case KErr:
		if v.ErrNil == Maybe && v.Sym != "" {
			return Val{K: KErr, Sym: inst + v.Sym}
		}
		return v
	case KUnknown:
		if v.Sym != "" {
			return Val{K: KUnknown, Sym: inst + v.Sym}
		}
	}
	return v
}

func (st *State) instObj(o *Obj, paramVal map[string]Val, inst string, objMap map[string]*Obj) *Obj {
	if n, ok := objMap[o.ID]; ok {
		if n.Type == nil {
			n.Type = o.Type
		}
		return n
	}
	var n *Obj
	if strings.HasPrefix(o.ID, "$") {
		root, hops, _, _ := splitParamName(o.ID)
		if ro, pre, ok := st.resolveObj(root, hops, paramVal); ok && pre == "" {
			n = ro
			if n.Type == nil {
				n.Type = o.Type
			}
		}
	}
	if n == nil {
		if strings.HasPrefix(o.ID, "@") {
			n = o
		} else {
			n = &Obj{ID: inst + o.ID, Type: o.Type}
		}
	}
	objMap[o.ID] = n
	return n
}

func (st *State) instCond(c *Cond, paramVal map[string]Val, inst string) *Cond {
	if c == nil {
		return nil
	}
	switch c.Op {
	case CConst:
		return c
	case CGE, CEQ:
		return &Cond{Op: c.Op, F: st.instForm(c.F, paramVal, inst)}
	case CPred:
		if strings.HasPrefix(c.Key, "$") || strings.HasPrefix(c.Key, "nil:$") {
			if pc := st.paramCond(c.Key, paramVal); pc != nil {
				return pc
			}
			return &Cond{Op: CPred, Key: st.instText(c.Key, paramVal, inst)}
		}
		return &Cond{Op: CPred, Key: st.instKey(c.Key, paramVal, inst)}
	case CNot:
		return &Cond{Op: CNot, X: st.instCond(c.X, paramVal, inst)}
	case CAnd, COr:
		return &Cond{Op: c.Op, X: st.instCond(c.X, paramVal, inst), Y: st.instCond(c.Y, paramVal, inst)}
	}
	return c
}

// instKey renames a predicate key. Pure-call keys embed forms rendered as text between ⟦ ⟧.
func (st *State) instKey(k string, paramVal map[string]Val, inst string) string {
	if strings.HasPrefix(k, "pure:") {
		return k // pure keys are rebuilt by bindOutcome from structured data
	}
	return inst + k
}

// bindOutcome applies one callee outcome to the caller state; false if infeasible.
func (st *State) bindOutcome(f *ssa.Function, o *Outcome, paramVal map[string]Val, inst string) (bool, []Val) {
	objMap := map[string]*Obj{}
	if st.ip.TrackBits && len(o.Defs) > 0 {
		keys := make([]string, 0, len(o.Defs))
		for k := range o.Defs {
			keys = append(keys, k)
		}
		sort.Strings(keys)
		for _, k := range keys {
			if strings.Contains(k, "$") {
				continue
			}
			st.setDef(IntVal(lin.Sym(inst+k)), st.instVec(o.Defs[k], paramVal, inst))
		}
	}
	// facts
	for _, ft := range o.Facts {
		g := st.instForm(ft.F, paramVal, inst)
		if st.Prove(g.Scale(-1).AddC(-1)) {
			return false, nil // contradicts what the caller knows
		}
		st.Facts = append(st.Facts, lin.Fact{F: g})
	}
	for _, ne := range o.NE {
		g := st.instForm(ne, paramVal, inst)
		if st.Decide(&Cond{Op: CEQ, F: g}) == Yes {
			return false, nil
		}
		st.NE = append(st.NE, g)
	}
	// disequalities already known must survive the new facts
	if len(o.Facts) > 0 {
		for _, ne := range st.NE {
			if !ne.IsConst() && st.Prove(ne) && st.Prove(ne.Scale(-1)) {
				return false, nil
			}
		}
	}
	for k, v := range o.Preds {
		ck := st.instPure(k, paramVal, inst)
		if old, ok := st.Preds[ck]; ok && old != v {
			return false, nil
		}
		st.Preds[ck] = v
	}
	for k := range o.Marks {
		if strings.HasPrefix(k, "clear:") {
			delete(st.marks, k[6:]) // the callee undid this progress (e.g. sought back to the start)
		}
	}
	for k := range o.Marks {
		st.Mark(k)
	}
	for k, tv := range o.ParamConds {
		if c := st.paramCond(k, paramVal); c != nil {
			switch st.Decide(c) {
			case Yes:
				if !tv {
					return false, nil
				}
			case No:
				if tv {
					return false, nil
				}
			default:
				st.Assume(c, tv)
			}
		}
	}
	// events are positioned relative to the ghost counters at the call: instantiate them before the effects
	var newEvents []Event
	for _, e := range o.Events {
		newEvents = append(newEvents, st.instEvent(e, paramVal, inst, objMap))
	}
	// memory effects: parameter-rooted cells and result objects
	keys := make([]string, 0, len(o.Mem))
	for k := range o.Mem {
		keys = append(keys, k)
	}
	sort.Strings(keys)
	for _, k := range keys {
		objID, rest := k, ""
		if i := strings.IndexByte(k, '.'); i >= 0 {
			objID, rest = k[:i], k[i+1:]
		}
		var nk string
		if strings.HasPrefix(objID, "$") {
			root, hops, _, _ := splitParamName(objID)
			av, ok := paramVal[root]
			if !ok || av.K != KPtr {
				continue // by-value parameter: callee-side view only
			}
			ro, pre, ok := st.resolveObj(root, hops, paramVal)
			if !ok {
				continue
			}
			nk = joinPath(ro.ID, joinPath(pre, rest))
		} else {
			no := st.instObj(&Obj{ID: objID}, paramVal, inst, objMap)
			nk = joinPath(no.ID, rest)
			if !strings.HasPrefix(objID, "@") {
				st.zero[no.ID] = true // callee-allocated objects: untouched fields are zero
			}
		}
		st.mem[nk] = st.instVal(o.Mem[k], paramVal, inst, objMap)
	}
	// results
	var res []Val
	for _, r := range o.Results {
		res = append(res, st.instVal(r, paramVal, inst, objMap))
	}
	st.Events = append(st.Events, newEvents...)
	return true, res
}

// instPure renames the forms embedded in a pure-predicate key "pure:fn(⟦form⟧,…)".
func (st *State) instPure(k string, paramVal map[string]Val, inst string) string {
	if !strings.HasPrefix(k, "pure:") {
		return inst + k
	}
	var sb strings.Builder
	rest := k
	for {
		i := strings.Index(rest, "⟦")
		if i < 0 {
			sb.WriteString(rest)
			break
		}
		j := strings.Index(rest, "⟧")
		sb.WriteString(rest[:i])
		inner := rest[i+len("⟦") : j]
		if f, ok := st.ip.pureForms[inner]; ok {
			g := st.instForm(f, paramVal, inst)
			sb.WriteString("⟦" + st.ip.regForm(g) + "⟧")
		} else {
			sb.WriteString("⟦" + inner + "⟧")
		}
		rest = rest[j+len("⟧"):]
	}
	return sb.String()
}

// regForm remembers the structured form behind each rendered form used in pure-predicate keys.
func (ip *Interp) regForm(f lin.Form) string {
	s := f.String()
	ip.pureForms[s] = f
	return s
}

func (ip *Interp) failReq(st *State, rq Requirement, x *ssa.Call) {
	if ip.OnReqFail != nil {
		ip.OnReqFail(st, rq, x)
	}
}

// pureKeyForms returns the forms embedded in a pure-predicate key.
func (ip *Interp) pureKeyForms(k string) []lin.Form {
	pureForms := ip.pureForms
	var out []lin.Form
	rest := k
	for {
		i := strings.Index(rest, "⟦")
		if i < 0 {
			break
		}
		j := strings.Index(rest, "⟧")
		if f, ok := pureForms[rest[i+len("⟦"):j]]; ok {
			out = append(out, f)
		}
		rest = rest[j+len("⟧"):]
	}
	return out
}

// paramCond resolves a parameter-rooted boolean cell name ("$h.HasAdaptationField", "$af/X.flag") to the
// caller's condition, or nil when the caller has no boolean value for it.
func (st *State) paramCond(key string, paramVal map[string]Val) *Cond {
	if strings.HasPrefix(key, "isa:$") {
		// isa:$name:Type — re-key on the caller's value
		rest := key[4:]
		i := strings.IndexByte(rest, ':')
		if i < 0 {
			return nil
		}
		if av, ok := paramVal[rest[:i]]; ok && av.Sym != "" {
			return &Cond{Op: CPred, Key: "isa:" + av.Sym + rest[i:]}
		}
		return nil
	}
	if strings.HasPrefix(key, "nil:") {
		root, hops, path, _ := splitParamName(key[4:])
		av, ok := paramVal[root]
		if !ok {
			return nil
		}
		if len(hops) == 0 && path == "" {
			switch av.K {
			case KNilPtr:
				return &Cond{Op: CConst, V: true}
			case KPtr:
				if av.O != nil && st.zero[av.O.ID] {
					return &Cond{Op: CConst, V: false}
				}
				if av.O != nil {
					return &Cond{Op: CPred, Key: "nil:" + joinPath(av.O.ID, av.Sym)}
				}
			case KSlice:
				switch av.S.IsNil {
				case Yes:
					return &Cond{Op: CConst, V: true}
				case No:
					return &Cond{Op: CConst, V: false}
				}
				return &Cond{Op: CPred, Key: "nil:" + av.S.ID}
			}
			return nil
		}
		if o, pre, ok := st.resolveObj(root, hops, paramVal); ok {
			k := joinPath(o.ID, joinPath(pre, path))
			if mv, ok := st.mem[k]; ok {
				switch mv.K {
				case KNilPtr:
					return &Cond{Op: CConst, V: true}
				case KPtr:
					if mv.O != nil && st.zero[mv.O.ID] {
						return &Cond{Op: CConst, V: false}
					}
					if mv.O != nil {
						return &Cond{Op: CPred, Key: "nil:" + joinPath(mv.O.ID, mv.Sym)}
					}
				}
				return nil
			}
			if st.zero[o.ID] {
				return &Cond{Op: CConst, V: true}
			}
			return &Cond{Op: CPred, Key: "nil:" + strings.ReplaceAll(k, ".", "/")}
		}
		return nil
	}
	root, hops, path, _ := splitParamName(key)
	av, ok := paramVal[root]
	if !ok {
		return nil
	}
	if av.K == KStruct && len(hops) == 0 {
		if fv, ok := av.Fields[path]; ok && fv.K == KBool {
			return fv.B
		}
		return nil
	}
	if av.K == KBool && len(hops) == 0 && path == "" {
		return av.B
	}
	if o, pre, ok := st.resolveObj(root, hops, paramVal); ok && path != "" {
		k := joinPath(o.ID, joinPath(pre, path))
		if mv, ok := st.mem[k]; ok {
			if mv.K == KBool {
				return mv.B
			}
			return nil
		}
		if st.zero[o.ID] {
			return &Cond{Op: CConst, V: false}
		}
		return &Cond{Op: CPred, Key: k}
	}
	return nil
}

// ---- bits writer modelling (astikit.BitsWriter / BitsWriterBatch summaries)

func isWriterPtr(t types.Type) bool {
	p, ok := t.(*types.Pointer)
	return ok && ssau.IsNamed(p.Elem(), load.AstikitPath, "BitsWriter")
}

func isBatchPtr(t types.Type) bool {
	p, ok := t.(*types.Pointer)
	return ok && ssau.IsNamed(p.Elem(), load.AstikitPath, "BitsWriterBatch")
}

// batchParamWriter: id names a *BitsWriterBatch parameter of the function being summarised and that function has exactly one
// *BitsWriter parameter: the object of that parameter.
func (st *State) batchParamWriter(id string) *Obj {
	fn := st.Fn
	if fn == nil {
		return nil
	}
	var wp *ssa.Parameter
	isParam := false
	for _, p := range fn.Params {
		if "$"+p.Name() == id && isBatchPtr(p.Type()) {
			isParam = true
		}
		if isWriterPtr(p.Type()) {
			if wp != nil {
				return nil
			}
			wp = p
		}
	}
	if !isParam || wp == nil {
		return nil
	}
	if v, ok := st.vals[wp]; ok && v.K == KPtr && v.O != nil {
		return v.O
	}
	return nil
}

// Bits returns the number of bits emitted so far to the writer object on this path.
func (st *State) Bits(w *Obj) lin.Form {
	k := w.ID + ".#bits"
	v, ok := st.mem[k]
	if !ok || v.K != KInt {
		s := w.ID + "#bits"
		st.ip.SetBounds(s, 0, lin.PosInf)
		v = IntVal(lin.Sym(s))
		st.mem[k] = v
	}
	return v.F
}

// NarrowArithHook is told about sums/products computed in a narrow unsigned type and then widened: the
// arithmetic wraps in the narrow type although the wider destination could hold the true value.
type NarrowArithHook interface {
	NarrowArith(st *State, conv *ssa.Convert, value lin.Form, max int64)
}

// EmitHook is implemented by hooks interested in emissions.
type EmitHook interface {
	Emit(st *State, call ssa.CallInstruction, w *Obj, width lin.Form, widthKnown bool, val Val, operandType types.Type, method string)
}

func (st *State) writerCall(x *ssa.Call, name string, args []Val, resName string) (Val, bool) {
	ip := st.ip
	cc := &x.Call
	switch name {
	case load.AstikitPath + ".NewBitsWriterBatch":
		if len(args) == 1 {
			return Val{K: KStruct, Fields: map[string]Val{"w": args[0], "err": {K: KErr, ErrNil: Yes}}}, true
		}
	case load.AstikitPath + ".NewBitsWriter":
		o := &Obj{ID: resName}
		st.zero[resName] = true
		st.mem[resName+".#bits"] = IntVal(lin.Const(0))
		return Val{K: KPtr, O: o}, true
	}
	f := cc.StaticCallee()
	if f == nil || f.Signature.Recv() == nil || len(args) == 0 {
		return Val{}, false
	}
	rt := f.Signature.Recv().Type()
	var w *Obj
	isBatch := false
	switch {
	case isWriterPtr(rt):
		if args[0].K == KPtr {
			w = args[0].O
		}
	case isBatchPtr(rt):
		isBatch = true
		if args[0].K == KPtr && args[0].O != nil {
			if wv, ok := st.mem[joinPath(args[0].O.ID, joinPath(args[0].Sym, "w"))]; ok && wv.K == KPtr {
				w = wv.O
			} else if strings.HasPrefix(args[0].O.ID, "$") && args[0].Sym == "" {
				// a batch handed in by the caller: it wraps the function's own *BitsWriter parameter. That every caller passes a
				// batch created over the very writer it passes is a structural obligation of its own (layout: batch-param).
				if pw := st.batchParamWriter(args[0].O.ID); pw != nil {
					w = pw
				} else if bt, isP := rt.(*types.Pointer); isP {
					// no writer parameter to identify it with: the writer is whatever the batch's own field designates — a pointee
					// of the parameter like any other, bound to the caller's writer when the summary is applied
					if sty, isS := bt.Elem().Underlying().(*types.Struct); isS {
						for i := 0; i < sty.NumFields(); i++ {
							if fld := sty.Field(i); fld.Name() == "w" && isWriterPtr(fld.Type()) {
								pv := Val{K: KPtr, O: args[0].O, Sym: "w"}
								if lv := st.load(st.asAddr(pv, types.NewPointer(fld.Type()))); lv.K == KPtr && lv.O != nil {
									w = lv.O
								}
							}
						}
					}
				}
			}
		}
	default:
		return Val{}, false
	}
	method := f.Name()
	errRes := func() Val {
		if isBatch {
			return Val{K: KTuple}
		}
		return Val{K: KErr, Sym: resName + ".err"}
	}
	switch method {
	case "Err":
		return Val{K: KErr, Sym: resName + ".batcherr"}, true
	case "SetWriteCallback":
		return Val{K: KTuple}, true
	case "Write", "WriteN", "WriteBytesN":
	default:
		return Val{}, false
	}
	if w == nil {
		w = &Obj{ID: ip.fresh("?writer")}
	}
	var width lin.Form
	known := true
	var opType types.Type
	operand := args[1]
	if mi, ok := cc.Args[1].(*ssa.MakeInterface); ok {
		opType = mi.X.Type()
	} else {
		opType = cc.Args[1].Type()
	}
	switch method {
	case "Write":
		switch u := opType.Underlying().(type) {
		case *types.Basic:
			switch {
			case u.Info()&types.IsBoolean != 0:
				width = lin.Const(1)
			case u.Kind() == types.Uint8:
				width = lin.Const(8)
			case u.Kind() == types.Uint16:
				width = lin.Const(16)
			case u.Kind() == types.Uint32:
				width = lin.Const(32)
			case u.Kind() == types.Uint64:
				width = lin.Const(64)
			case u.Kind() == types.String && operand.K == KSlice:
				width = operand.S.Len
			default:
				known = false
			}
		case *types.Slice:
			if b, ok := u.Elem().Underlying().(*types.Basic); ok && b.Kind() == types.Uint8 && operand.K == KSlice {
				width = operand.S.Len.Scale(8)
			} else {
				known = false
			}
		default:
			known = false
		}
	case "WriteN":
		n := st.intOf(args[2], types.Typ[types.Int], "n")
		width = n
		b, ok := opType.Underlying().(*types.Basic)
		if !ok || b.Info()&types.IsUnsigned == 0 || !n.IsConst() {
			known = false
		}
	case "WriteBytesN":
		n := st.intOf(args[2], types.Typ[types.Int], "n")
		width = n.Scale(8)
	}
	if h, ok := ip.Hooks.(EmitHook); ok {
		h.Emit(st, x, w, width, known, operand, opType, method)
	}
	off0 := st.Bits(w)
	if known {
		st.mem[w.ID+".#bits"] = IntVal(st.Bits(w).Add(width))
	} else {
		st.mem[w.ID+".#bits"] = IntVal(lin.Sym(ip.fresh(w.ID + "#bits?")))
	}
	st.Events = append(st.Events, Event{Kind: "emit", Obj: w.ID, Off: off0, Width: width, Val: st.emitVal(operand, opType), Type: types.TypeString(opType, nil), Pos: x.Pos(), ID: resName})
	return errRes(), true
}

func (st *State) instEvent(e Event, paramVal map[string]Val, inst string, objMap map[string]*Obj) Event {
	n := e
	n.Width = st.instForm(e.Width, paramVal, inst)
	n.Off = st.instForm(e.Off, paramVal, inst)
	n.Val = st.instVal(e.Val, paramVal, inst, objMap)
	if e.Obj != "" {
		n.Obj = st.instObj(&Obj{ID: e.Obj}, paramVal, inst, objMap).ID
	}
	n.ID = inst + e.ID
	n.Body = nil
	for _, b := range e.Body {
		var nb []Event
		for _, be := range b {
			nb = append(nb, st.instEvent(be, paramVal, inst, objMap))
		}
		n.Body = append(n.Body, nb)
	}
	return n
}

// Harness: a synthetic state in which summaries of functions can be combined outside any function
// body (used to relate a length calculator to the writer that emits what it counts).
func (ip *Interp) Harness(fn *ssa.Function) *State {
	var reqs []Requirement
	return &State{ip: ip, Fn: fn, mem: map[string]Val{}, zero: map[string]bool{}, vals: map[ssa.Value]Val{}, Preds: map[string]bool{},
		pending: map[string]pendingAdv{}, loops: map[*ssa.BasicBlock]map[string]lin.Form{}, marks: map[string]int{}, loopMk: map[*ssa.BasicBlock]map[string]int{},
		phaseB: map[*ssa.BasicBlock]bool{}, inA: map[*ssa.BasicBlock]bool{}, acc: map[*ssa.BasicBlock]*loopAcc{}, reqs: &reqs}
}

// Symbolic creates a symbolic value of the given type in this state.
func (st *State) Symbolic(t types.Type, name string) Val { return st.ip.symbolic(t, name, st) }

// Applied is one feasible way of applying a function summary in a harness state.
type Applied struct {
	St      *State
	Results []Val
	Outcome *Outcome
}

// Apply applies the summary of f to the arguments; one result per feasible outcome.
func (st *State) Apply(f *ssa.Function, args []Val, inst string) []Applied {
	sum := st.ip.Summarize(f)
	paramVal := map[string]Val{}
	for i, p := range f.Params {
		if i < len(args) {
			paramVal["$"+p.Name()] = args[i]
		}
	}
	var out []Applied
	for oi := range sum.Outcomes {
		ns := st.clone()
		ok, res := ns.bindOutcome(f, &sum.Outcomes[oi], paramVal, inst)
		if !ok {
			continue
		}
		out = append(out, Applied{St: ns, Results: res, Outcome: &sum.Outcomes[oi]})
	}
	return out
}

// applyAbstract applies the contract of an abstracted calculator / writer.
func (st *State) applyAbstract(x *ssa.Call, f *ssa.Function, spec AbstractSpec, args []Val, resName string) Val {
	ip := st.ip
	a := args[spec.ArgIdx]
	key := "?"
	switch a.K {
	case KPtr:
		if a.O != nil {
			key = joinPath(a.O.ID, a.Sym)
		}
	case KSlice:
		key = a.S.ID
	case KNilPtr:
		key = "nil"
	}
	name := "ƒ" + spec.Name + "(" + key + ")"
	ip.SetBounds(name, 0, lin.PosInf)
	q := lin.Sym(name)
	if !spec.Writer {
		return IntVal(q)
	}
	// writer: find the *BitsWriter argument
	for i, p := range f.Params {
		if isWriterPtr(p.Type()) && i < len(args) && args[i].K == KPtr && args[i].O != nil {
			w := args[i].O
			st.mem[w.ID+".#bits"] = IntVal(st.Bits(w).Add(q.Scale(8)).AddC(spec.ExtraBits))
			st.Events = append(st.Events, Event{Kind: "call", Obj: w.ID, Width: q.Scale(8).AddC(spec.ExtraBits), Type: f.Name(), Pos: x.Pos(), ID: resName})
		}
	}
	sig := f.Signature
	errv := Val{K: KErr, Sym: resName + ".err"}
	switch sig.Results().Len() {
	case 1:
		return errv
	case 2:
		return Val{K: KTuple, Tup: []Val{IntVal(q.AddC(spec.ExtraBits / 8)), errv}}
	}
	return st.opaqueResult(x, f.Name(), resName)
}

// emitVal attaches the operand's bits to the emitted value (TrackBits).
func (st *State) emitVal(v Val, t types.Type) Val {
	if !st.ip.TrackBits || v.Bits != nil {
		return v
	}
	if vec, ok := st.VecOf(v, t); ok {
		v.Bits = vec
	}
	return v
}

// nm is the name of an SSA value on this path: unique per call frame when calls are inlined.
func (st *State) nm(x ssa.Value) string {
	return st.pfx + "%" + st.Fn.Name() + ":" + x.Name() + st.iterTag
}

// inlineCall interprets the callee's body in the caller's state (InlineCalls): the exits of the callee become the
// continuations of the call.
func (st *State) inlineCall(x *ssa.Call, f *ssa.Function, args []Val) []*State {
	ip := st.ip
	savedFn, savedPfx := st.Fn, st.pfx
	st.pfx = st.pfx + "<" + st.Fn.Name() + ":" + x.Name() + ">"
	st.Fn = f
	st.depth++
	for i, p := range f.Params {
		if i < len(args) {
			st.vals[p] = args[i]
		}
	}
	var exits []*State
	sum := &Summary{Fn: f}
	ip.explore(f, st, sum, func(es *State, ret *ssa.Return, res []Val) {
		es.Fn, es.pfx = savedFn, savedPfx
		es.depth--
		switch len(res) {
		case 0:
			es.vals[x] = Val{K: KTuple}
		case 1:
			es.vals[x] = res[0]
		default:
			es.vals[x] = Val{K: KTuple, Tup: append([]Val{}, res...)}
		}
		exits = append(exits, es)
	})
	return exits
}

// fetchErr decides the error of a fetch of n bytes at cur when the stream is known to be long enough (or too short);
// otherwise the error stays pending on the branch that tests it.
func (st *State) fetchErr(it *Obj, cur, n lin.Form, errSym string) Val {
	room := st.IterLen(it).Sub(cur).Sub(n)
	if st.ProveSimplified(room) && st.ProveSimplified(n) {
		delete(st.pending, errSym)
		st.setCursor(it, cur.Add(n))
		return Val{K: KErr, ErrNil: Yes}
	}
	if st.ProveSimplified(room.Scale(-1).AddC(-1)) {
		delete(st.pending, errSym)
		return Val{K: KErr, ErrNil: No, Sym: "new:fetch-failed"}
	}
	return Val{K: KErr, Sym: errSym}
}
