package pathint

import (
	"fmt"
	"go/token"
	"sort"
	"strings"

	"astverif/lin"
	"astverif/ssau"

	"golang.org/x/tools/go/ssa"
)

// Event is something observable that happened on a path: a fetch from an iterator, an emission to a
// bits writer, a call of a sibling structure function, or a summarised loop.
type Event struct {
	Kind  string   // "emit", "fetch", "call", "loop", "skip"
	Obj   string   // writer / iterator object id
	Width lin.Form // bits (emit) or bytes (fetch)
	Off   lin.Form // fetch: cursor before the fetch
	Val   Val      // emitted value / fetched slice
	Type  string   // static type of the emitted operand, callee name for "call"
	Pos   token.Pos
	ID    string    // event identity (SSA value name)
	Body  [][]Event // loop: events of each distinct body path
	Guard []string  // loop: guard of each body path
	Key   string    // loop key
}

// countedLoop describes `for idx := start; idx < bound; idx++` / `for _, x := range slice`.
type countedLoop struct {
	phi      *ssa.Phi  // index phi at the header
	cmpVal   ssa.Value // the value compared against bound (phi or phi+1)
	bound    ssa.Value
	start    int64 // constant part of cmpVal on the first test
	dynStart bool  // the phi's entry value is not a single constant: use the value on the entry edge
	bodyS    int   // index of the in-loop successor of the header
}

func findCountedLoop(h *ssa.BasicBlock, body map[*ssa.BasicBlock]bool) *countedLoop {
	if len(h.Instrs) == 0 {
		return nil
	}
	iff, ok := h.Instrs[len(h.Instrs)-1].(*ssa.If)
	if !ok {
		return nil
	}
	b, ok := iff.Cond.(*ssa.BinOp)
	if !ok || b.Op != token.LSS {
		return nil
	}
	cl := &countedLoop{bound: b.Y, cmpVal: b.X}
	add := int64(0)
	switch x := b.X.(type) {
	case *ssa.Phi:
		cl.phi = x
	case *ssa.BinOp:
		p, ok := x.X.(*ssa.Phi)
		n, okn := ssau.ConstInt(x.Y)
		if !ok || !okn || x.Op != token.ADD || n != 1 || x.Block() != h {
			return nil
		}
		cl.phi = p
		add = 1
	default:
		return nil
	}
	if cl.phi.Block() != h {
		return nil
	}
	// entry edge constant, back edges phi+1 (or the header's own phi+1 value)
	haveStart := false
	for i, e := range cl.phi.Edges {
		if h.Dominates(h.Preds[i]) {
			be, ok := e.(*ssa.BinOp)
			if !ok || be.Op != token.ADD || be.X != ssa.Value(cl.phi) {
				return nil
			}
			if n, ok := ssau.ConstInt(be.Y); !ok || n != 1 {
				return nil
			}
			continue
		}
		n, ok := ssau.ConstInt(e)
		if !ok || (haveStart && (cl.dynStart || cl.start != n+add)) {
			// non-constant (or differing) entry values: the start is the phi's value on the edge taken
			cl.dynStart = true
			cl.start = add
			haveStart = true
			continue
		}
		if !cl.dynStart {
			cl.start = n + add
		}
		haveStart = true
	}
	if !haveStart {
		return nil
	}
	// bound must be loop invariant: constant, parameter, defined outside the loop, or a pure load/len
	// recomputed in the header from values the loop does not store to (checked when evaluating)
	switch y := b.Y.(type) {
	case *ssa.Const, *ssa.Parameter:
	case ssa.Instruction:
		if body[y.Block()] && y.Block() != h {
			return nil
		}
	}
	if body[h.Succs[0]] && !body[h.Succs[1]] {
		cl.bodyS = 0
	} else if body[h.Succs[1]] && !body[h.Succs[0]] {
		cl.bodyS = 1
	} else {
		return nil
	}
	return cl
}

// sumCollector gathers the back-edge states of one summarised loop.
type sumCollector struct {
	header *ssa.BasicBlock
	cl     *countedLoop
	paths  []sumPath
	base   map[string]string // accumulator key -> base symbol
	nForm  *lin.Form         // value of the bound seen at the header
	bad    string
}

type sumPath struct {
	deltas map[string]lin.Form // accumulator key -> value - base
	guard  string
	events []Event
}

// accumulator keys: "phi:<name>" for header phis, "mem:<key>" for ghost integer cells.

type phiEntry struct {
	phi   *ssa.Phi
	entry Val
}

type sumMark struct {
	facts, ne, events int
	preds             map[string]bool
}

func isGhostKey(k string) bool {
	i := strings.LastIndexByte(k, '.')
	return i >= 0 && k[i+1:] == "#bits"
}

func predKeys(m map[string]bool) map[string]bool {
	n := make(map[string]bool, len(m))
	for k := range m {
		n[k] = true
	}
	return n
}

func cloneSumMap(m map[*ssa.BasicBlock]*sumCollector) map[*ssa.BasicBlock]*sumCollector {
	n := make(map[*ssa.BasicBlock]*sumCollector, len(m)+1)
	for k, v := range m {
		n[k] = v
	}
	return n
}

func cloneValSet(m map[ssa.Value]bool) map[ssa.Value]bool {
	n := make(map[ssa.Value]bool, len(m)+2)
	for k, v := range m {
		n[k] = v
	}
	return n
}

// sumLoop summarises a counted loop by one symbolic iteration. It returns false when the loop does not
// have the required shape (the caller then falls back to the generic two-phase treatment).
func (st *State) sumLoop(h, from *ssa.BasicBlock, li *loopInfo, cl *countedLoop,
	run func(*State, *ssa.BasicBlock, *ssa.BasicBlock), runFrom func(*State, *ssa.BasicBlock, int)) bool {
	ip := st.ip
	f := h.Parent()
	idxEdge := -1
	for i, p := range h.Preds {
		if p == from {
			idxEdge = i
		}
	}
	if idxEdge < 0 {
		return false
	}
	var phis []phiEntry
	for _, in := range h.Instrs {
		phi, ok := in.(*ssa.Phi)
		if !ok {
			break
		}
		phis = append(phis, phiEntry{phi, st.eval(phi.Edges[idxEdge])})
	}
	body := st.clone()
	col := &sumCollector{header: h, cl: cl, base: map[string]string{}}
	body.sum = cloneSumMap(st.sum)
	body.sum[h] = col
	body.loopIndex = cloneValSet(st.loopIndex)
	idxName := st.pfx + "%" + f.Name() + ":" + cl.phi.Name() + "@idx"
	ip.SetBounds(idxName, cl.start-1, lin.PosInf)
	for _, pe := range phis {
		switch {
		case pe.phi == cl.phi:
			body.vals[pe.phi] = IntVal(lin.Sym(idxName))
			body.loopIndex[pe.phi] = true
			if cl.cmpVal != ssa.Value(cl.phi) {
				body.loopIndex[cl.cmpVal] = true
			}
		case pe.entry.K == KInt:
			base := st.pfx + "%" + f.Name() + ":" + pe.phi.Name() + "@sum"
			lo, hi, _ := intBounds(pe.phi.Type(), ip.sizes())
			ip.SetBounds(base, lo, hi)
			col.base["phi:"+pe.phi.Name()] = base
			body.vals[pe.phi] = IntVal(lin.Sym(base))
		default:
			v := ip.symbolic(pe.phi.Type(), st.pfx+"%"+f.Name()+":"+pe.phi.Name()+"@"+h.String(), body)
			if pe.entry.K == KErr && pe.entry.ErrNil == Yes && nilOnBackEdges(pe.phi, h) {
				v = Val{K: KErr, ErrNil: Yes}
			}
			body.vals[pe.phi] = v
		}
	}
	var ghostKeys []string
	for k, v := range st.mem {
		if (isGhostKey(k) || ip.intCells[k] != nil) && v.K == KInt {
			ghostKeys = append(ghostKeys, k)
		}
	}
	sort.Strings(ghostKeys)
	for _, k := range ghostKeys {
		base := k + "@sum" + h.String()
		if t := ip.intCells[k]; t != nil {
			lo, hi, _ := intBounds(t, ip.sizes())
			ip.SetBounds(base, lo, hi)
		} else {
			ip.SetBounds(base, 0, lin.PosInf)
		}
		col.base["mem:"+k] = base
		body.mem[k] = IntVal(lin.Sym(base))
	}
	body.sumStart = map[*ssa.BasicBlock]sumMark{}
	for k, v := range st.sumStart {
		body.sumStart[k] = v
	}
	body.sumStart[h] = sumMark{facts: len(body.Facts), ne: len(body.NE), events: len(body.Events), preds: predKeys(body.Preds)}
	runFrom(body, h, len(phis))
	if col.bad != "" {
		ip.Diag = append(ip.Diag, fmt.Sprintf("%s: loop %s not summarised: %s", f.Name(), h, col.bad))
		return false
	}
	return st.finishSum(h, li, cl, col, phis, ghostKeys, run)
}

// sumBackEdge records the state of a body path that reached the header again.
func (st *State) sumBackEdge(h, from *ssa.BasicBlock) {
	col := st.sum[h]
	idx := -1
	for i, p := range h.Preds {
		if p == from {
			idx = i
		}
	}
	sp := sumPath{deltas: map[string]lin.Form{}}
	for _, in := range h.Instrs {
		phi, ok := in.(*ssa.Phi)
		if !ok {
			break
		}
		base, ok := col.base["phi:"+phi.Name()]
		if !ok {
			continue
		}
		v := st.eval(phi.Edges[idx])
		if v.K != KInt {
			col.bad = "loop-carried integer " + phi.Name() + " is not tracked on a back edge"
			return
		}
		d := v.F.Sub(lin.Sym(base))
		if d.Coef(base) != 0 {
			col.bad = "accumulator " + phi.Name() + " is not updated additively"
			return
		}
		sp.deltas["phi:"+phi.Name()] = st.PinConstants(d)
	}
	for key, base := range col.base {
		if !strings.HasPrefix(key, "mem:") {
			continue
		}
		v, ok := st.mem[key[4:]]
		if !ok || v.K != KInt {
			col.bad = "ghost counter " + key + " lost"
			return
		}
		d := v.F.Sub(lin.Sym(base))
		if d.Coef(base) != 0 {
			col.bad = "ghost counter " + key + " not additive: " + v.F.String() + " vs base " + base
			return
		}
		sp.deltas[key] = st.PinConstants(d)
	}
	var all []lin.Form
	for _, d := range sp.deltas {
		all = append(all, d)
	}
	if st.ReadsThroughNil(all...) {
		return // the body read through a pointer this path assumes nil: it panics, it does not iterate
	}
	mk := st.sumStart[h]
	sp.guard = st.ip.canonGuard(st, mk)
	sp.events = append([]Event{}, st.Events[mk.events:]...)
	col.paths = append(col.paths, sp)
}

// canonGuard renders the guard of a body path (everything learnt since the body started). Constraints on
// a single bounded symbol are normalised to the set of admissible values so that differently ordered
// tests compare equal.
func (ip *Interp) canonGuard(st *State, mk sumMark) string {
	rest := ip.canonConstraints(st.Facts[mk.facts:], st.NE[mk.ne:])
	for k, v := range st.Preds {
		if !mk.preds[k] && !strings.HasPrefix(k, "nil:") {
			rest = append(rest, fmt.Sprintf("%s=%v", k, v))
		}
	}
	sort.Strings(rest)
	return strings.Join(rest, " & ")
}

// canonConstraints normalises a list of facts and disequalities: constraints on a single bounded symbol
// become the set of admissible values.
func (ip *Interp) canonConstraints(facts []lin.Fact, nes []lin.Form) []string {
	type item struct {
		f  lin.Form
		ne bool
	}
	var items []item
	for _, ft := range facts {
		items = append(items, item{ft.F, false})
	}
	for _, ne := range nes {
		items = append(items, item{ne, true})
	}
	var rest []string
	bySym := map[string][]item{}
	for _, it := range items {
		syms := it.f.Syms()
		ghost := false
		for _, sy := range syms {
			if strings.Contains(sy, "#bits") || strings.Contains(sy, "#cur") {
				ghost = true
			}
		}
		if ghost {
			continue
		}
		if len(syms) == 1 && (it.f.Coef(syms[0]) == 1 || it.f.Coef(syms[0]) == -1) && ip.Lo(syms[0]) > lin.NegInf && ip.Hi(syms[0]) < lin.PosInf && ip.Hi(syms[0])-ip.Lo(syms[0]) <= 70000 {
			bySym[syms[0]] = append(bySym[syms[0]], it)
			continue
		}
		if len(syms) == 0 {
			continue
		}
		if it.ne {
			rest = append(rest, it.f.String()+" != 0")
		} else {
			rest = append(rest, it.f.String()+" >= 0")
		}
	}
	for s, its := range bySym {
		lo, hi := ip.Lo(s), ip.Hi(s)
		var vals []int64
		for v := lo; v <= hi; v++ {
			ok := true
			for _, it := range its {
				x := it.f.Coef(s)*v + it.f.C
				if (it.ne && x == 0) || (!it.ne && x < 0) {
					ok = false
					break
				}
			}
			if ok {
				vals = append(vals, v)
			}
		}
		rest = append(rest, s+"∈"+ranges(vals))
	}
	sort.Strings(rest)
	return dedup(rest)
}

func ranges(vals []int64) string {
	if len(vals) == 0 {
		return "{}"
	}
	var parts []string
	start, prev := vals[0], vals[0]
	flush := func() {
		if start == prev {
			parts = append(parts, fmt.Sprintf("%d", start))
		} else {
			parts = append(parts, fmt.Sprintf("%d..%d", start, prev))
		}
	}
	for _, v := range vals[1:] {
		if v == prev+1 {
			prev = v
			continue
		}
		flush()
		start, prev = v, v
	}
	flush()
	return "{" + strings.Join(parts, ",") + "}"
}

// finishSum builds the state after the loop and continues at the loop exit.
func (st *State) finishSum(h *ssa.BasicBlock, li *loopInfo, cl *countedLoop, col *sumCollector, phis []phiEntry, ghostKeys []string,
	run func(*State, *ssa.BasicBlock, *ssa.BasicBlock)) bool {
	ip := st.ip
	f := h.Parent()
	// trip count
	var nForm lin.Form
	startF := lin.Const(cl.start)
	if cl.dynStart {
		found := false
		for _, pe := range phis {
			if pe.phi == cl.phi && pe.entry.K == KInt {
				startF = pe.entry.F.AddC(cl.start)
				found = true
			}
		}
		if !found {
			return false
		}
	}
	if col.nForm != nil {
		nForm = col.nForm.Sub(startF)
	} else if cl.dynStart {
		bv := st.eval(cl.bound)
		if bv.K != KInt {
			return false
		}
		nForm = bv.F.Sub(startF)
	} else {
		// no body path came back: evaluate the bound in the entry state when it is available
		bv := st.eval(cl.bound)
		if bv.K != KInt {
			return false
		}
		nForm = bv.F.AddC(-cl.start)
	}
	for _, s := range nForm.Syms() {
		if strings.HasSuffix(s, "@sum") || strings.HasSuffix(s, "@idx") || strings.Contains(s, "@sum") {
			ip.Diag = append(ip.Diag, fmt.Sprintf("%s: loop %s not summarised: trip count %s is not loop invariant", f.Name(), h, nForm))
			return false // bound is not loop invariant
		}
	}
	// the closed form below assumes the loop runs nForm >= 0 times; when that is not provable the case
	// "bound already passed: the loop does not run at all" is explored separately
	if !st.ProveSimplified(nForm) && !st.noZeroTripFork {
		skip := st.clone()
		skip.Facts = append(skip.Facts, lin.Fact{F: nForm.Scale(-1).AddC(-1)})
		skip.Trace = append(skip.Trace, "loop "+h.String()+" not entered")
		for _, pe := range phis {
			skip.vals[pe.phi] = pe.entry
		}
		if cl.cmpVal != ssa.Value(cl.phi) {
			for _, pe := range phis {
				if pe.phi == cl.phi && pe.entry.K == KInt {
					skip.vals[cl.cmpVal] = IntVal(pe.entry.F.AddC(1))
				}
			}
		}
		run(skip, h.Succs[1-cl.bodyS], h)
		st.Facts = append(st.Facts, lin.Fact{F: nForm})
	}
	loopKey := nForm.String()
	// delta of an accumulator: identical on all paths -> c·N + Σ{rest}; else a guarded sum
	exitVal := func(key string, entry lin.Form) lin.Form {
		if len(col.paths) == 0 {
			return entry
		}
		same := true
		for _, p := range col.paths[1:] {
			if !p.deltas[key].Equal(col.paths[0].deltas[key]) {
				same = false
			}
		}
		if same {
			d := col.paths[0].deltas[key]
			res := entry.Add(nForm.Scale(d.C))
			rest := d.AddC(-d.C)
			if !rest.IsConst() {
				g := formGCD(rest)
				if g == 0 {
					g = 1
				}
				unit := scaleDown(rest, g)
				name := "Σ{" + loopKey + ": " + unit.String() + "}"
				if lin.LowerBound(unit, ip) >= 0 {
					ip.SetBounds(name, 0, lin.PosInf)
				}
				res = res.Add(lin.Sym(name).Scale(g))
			}
			return res
		}
		g := int64(0)
		for _, p := range col.paths {
			d := p.deltas[key]
			g = gcd64(g, formGCD(d))
			g = gcd64(g, abs64(d.C))
		}
		if g == 0 {
			g = 1
		}
		var parts []string
		allNonNeg := true
		for _, p := range col.paths {
			d := scaleDown(p.deltas[key], g)
			parts = append(parts, "["+p.guard+"] "+d.String())
			if lin.LowerBound(d, ip) < 0 {
				allNonNeg = false
			}
		}
		sort.Strings(parts)
		parts = dedup(parts)
		name := "Σ{" + loopKey + ": " + strings.Join(parts, " | ") + "}"
		if allNonNeg {
			ip.SetBounds(name, 0, lin.PosInf)
		}
		return entry.Add(lin.Sym(name).Scale(g))
	}
	out := st // the entry state becomes the exit state
	entryGhost := map[string]lin.Form{}
	for _, k := range ghostKeys {
		if v, ok := st.mem[k]; ok && v.K == KInt {
			entryGhost[k] = v.F
		}
	}
	// everything else the loop may have changed is unknown afterwards
	out.havocLoop(h, li.body[h])
	for _, pe := range phis {
		switch {
		case pe.phi == cl.phi:
			out.vals[pe.phi] = IntVal(nForm.Add(startF))
			if cl.cmpVal != ssa.Value(cl.phi) {
				out.vals[pe.phi] = IntVal(nForm.Add(startF).AddC(-1))
				out.vals[cl.cmpVal] = IntVal(nForm.Add(startF))
			}
		case pe.entry.K == KInt:
			out.vals[pe.phi] = IntVal(exitVal("phi:"+pe.phi.Name(), pe.entry.F))
		default:
			v := ip.symbolic(pe.phi.Type(), st.pfx+"%"+f.Name()+":"+pe.phi.Name()+"@"+h.String(), out)
			if pe.entry.K == KErr && pe.entry.ErrNil == Yes && nilOnBackEdges(pe.phi, h) {
				v = Val{K: KErr, ErrNil: Yes}
			}
			out.vals[pe.phi] = v
		}
	}
	for _, k := range ghostKeys {
		if ev, ok := entryGhost[k]; ok {
			out.mem[k] = IntVal(exitVal("mem:"+k, ev))
		}
	}
	// loop event
	if len(col.paths) > 0 {
		le := Event{Kind: "loop", Key: loopKey, Width: nForm, Pos: loopPosOf(h)}
		seen := map[string]bool{}
		for _, p := range col.paths {
			sig := p.guard + "|" + eventsSig(p.events)
			if seen[sig] {
				continue
			}
			seen[sig] = true
			le.Body = append(le.Body, p.events)
			le.Guard = append(le.Guard, p.guard)
		}
		out.Events = append(out.Events, le)
	}
	run(out, h.Succs[1-cl.bodyS], h)
	return true
}

func dedup(s []string) []string {
	var out []string
	for i, x := range s {
		if i == 0 || x != s[i-1] {
			out = append(out, x)
		}
	}
	return out
}

func loopPosOf(h *ssa.BasicBlock) token.Pos {
	for _, in := range h.Instrs {
		if in.Pos().IsValid() {
			return in.Pos()
		}
	}
	return token.NoPos
}

func eventsSig(evs []Event) string {
	var sb strings.Builder
	for _, e := range evs {
		fmt.Fprintf(&sb, "%s:%s:%s;", e.Kind, e.Width.String(), e.Type)
	}
	return sb.String()
}

func abs64(x int64) int64 {
	if x < 0 {
		return -x
	}
	return x
}

func gcd64(a, b int64) int64 {
	a, b = abs64(a), abs64(b)
	for b != 0 {
		a, b = b, a%b
	}
	return a
}

// formGCD is the gcd of the symbol coefficients of f (1 if none).
func formGCD(f lin.Form) int64 {
	g := int64(0)
	for _, s := range f.Syms() {
		g = gcd64(g, f.Coef(s))
	}
	return g // 0 when f has no symbols
}

func scaleDown(f lin.Form, g int64) lin.Form {
	if g == 1 || g == 0 {
		return f
	}
	r := lin.Const(f.C / g)
	for _, s := range f.Syms() {
		r = r.Add(lin.Sym(s).Scale(f.Coef(s) / g))
	}
	return r
}
