package pathint

import (
	"sort"
	"strings"

	"astverif/lin"

	"golang.org/x/tools/go/ssa"
)

// If-conversion (option MergeIfs): when both arms of an undecided branch reach the branch's join block
// with a single state each, the two states are merged into one. Integer cells that differ become
// base + [cond]·difference, with [cond] an indicator symbol in {0,1}; products of an indicator with another
// symbol are named canonically so that two functions computing the same quantity produce equal forms.
// This keeps flag-driven codecs (2^n flag valuations) linear in the number of flags.

// arrival is a state that reached the current merge point.
type arrival struct {
	st   *State
	phis map[*ssa.Phi]Val
}

type stopFrame struct {
	at   *ssa.BasicBlock
	into *[]arrival
}

// postDominators computes immediate post-dominators (by block index) with a simple iterative algorithm.
func postDominators(f *ssa.Function) map[*ssa.BasicBlock]*ssa.BasicBlock {
	n := len(f.Blocks)
	// virtual exit = n
	succ := make([][]int, n+1)
	pred := make([][]int, n+1)
	for _, b := range f.Blocks {
		if len(b.Succs) == 0 {
			succ[b.Index] = append(succ[b.Index], n)
			pred[n] = append(pred[n], b.Index)
		}
		for _, s := range b.Succs {
			succ[b.Index] = append(succ[b.Index], s.Index)
			pred[s.Index] = append(pred[s.Index], b.Index)
		}
	}
	// reverse post-order on the reverse graph from exit
	order := []int{}
	seen := make([]bool, n+1)
	var dfs func(int)
	dfs = func(u int) {
		seen[u] = true
		for _, v := range pred[u] {
			if !seen[v] {
				dfs(v)
			}
		}
		order = append(order, u)
	}
	dfs(n)
	rpo := make([]int, n+1)
	for i := range rpo {
		rpo[i] = -1
	}
	for i := range order {
		rpo[order[len(order)-1-i]] = i
	}
	idom := make([]int, n+1)
	for i := range idom {
		idom[i] = -1
	}
	idom[n] = n
	intersect := func(a, b int) int {
		for a != b {
			for rpo[a] > rpo[b] {
				a = idom[a]
			}
			for rpo[b] > rpo[a] {
				b = idom[b]
			}
		}
		return a
	}
	changed := true
	for changed {
		changed = false
		for i := len(order) - 1; i >= 0; i-- {
			u := order[i]
			if u == n {
				continue
			}
			nd := -1
			for _, v := range succ[u] {
				if idom[v] == -1 {
					continue
				}
				if nd == -1 {
					nd = v
				} else {
					nd = intersect(nd, v)
				}
			}
			if nd != -1 && idom[u] != nd {
				idom[u] = nd
				changed = true
			}
		}
	}
	out := map[*ssa.BasicBlock]*ssa.BasicBlock{}
	for _, b := range f.Blocks {
		if d := idom[b.Index]; d >= 0 && d < n {
			out[b] = f.Blocks[d]
		}
	}
	return out
}

// joinBlock returns the first block reachable from both successors of a two-way branch (loop back
// edges are not followed): every other commonly reachable block is reachable from it. Arms that return
// early simply never arrive. nil when there is no such block.
func joinBlock(b *ssa.BasicBlock, li *loopInfo) *ssa.BasicBlock {
	if len(b.Succs) != 2 || b.Succs[0] == b.Succs[1] {
		return nil
	}
	reach := func(from *ssa.BasicBlock) map[*ssa.BasicBlock]bool {
		seen := map[*ssa.BasicBlock]bool{}
		st := []*ssa.BasicBlock{from}
		for len(st) > 0 {
			x := st[len(st)-1]
			st = st[:len(st)-1]
			if seen[x] {
				continue
			}
			seen[x] = true
			for _, s := range x.Succs {
				if li.backEdges[[2]*ssa.BasicBlock{x, s}] {
					continue
				}
				st = append(st, s)
			}
		}
		return seen
	}
	r0, r1 := reach(b.Succs[0]), reach(b.Succs[1])
	var cands []*ssa.BasicBlock
	for x := range r0 {
		if r1[x] {
			cands = append(cands, x)
		}
	}
	if len(cands) == 0 {
		return nil
	}
	sort.Slice(cands, func(i, j int) bool { return cands[i].Index < cands[j].Index })
	for _, c := range cands {
		rc := reach(c)
		all := true
		for _, o := range cands {
			if !rc[o] {
				all = false
				break
			}
		}
		if all {
			return c
		}
	}
	return nil
}

// indicator returns the {0,1} form of a condition: a symbol, 1 - symbol, or a constant.
func (ip *Interp) indicator(c *Cond) lin.Form {
	switch c.Op {
	case CConst:
		if c.V {
			return lin.Const(1)
		}
		return lin.Const(0)
	case CNot:
		return lin.Const(1).Sub(ip.indicator(c.X))
	case CGE:
		// canonical orientation: the form whose rendering is smaller; the other one is its negation
		neg := c.F.Scale(-1).AddC(-1)
		if neg.String() < c.F.String() {
			return lin.Const(1).Sub(ip.indSym(&Cond{Op: CGE, F: neg}))
		}
	case CEQ:
		// canonical sign
		if c.F.Scale(-1).String() < c.F.String() {
			return ip.indSym(&Cond{Op: CEQ, F: c.F.Scale(-1)})
		}
	}
	return ip.indSym(c)
}

func (ip *Interp) indSym(c *Cond) lin.Form {
	name := "[" + c.String() + "]"
	if _, ok := ip.indConds[name]; !ok {
		ip.indConds[name] = c
		ip.SetBounds(name, 0, 1)
	}
	return lin.Sym(name)
}

// mulInd multiplies an indicator form (sym, 1-sym or constant) with a form; thenSt is a state in
// which the indicator's condition is known to hold (used to simplify products of indicators).
func (ip *Interp) mulInd(ind lin.Form, d lin.Form, thenSt *State) lin.Form {
	if ind.IsConst() {
		return d.Scale(ind.C)
	}
	syms := ind.Syms()
	if len(syms) != 1 {
		return lin.Sym(ip.fresh("prod"))
	}
	s := syms[0]
	coef := ind.Coef(s) // +1 with C=0, or -1 with C=1
	// s·d
	sd := lin.Sym(s).Scale(d.C)
	for _, t := range d.Syms() {
		sd = sd.Add(ip.prodSym(s, t, thenSt, coef > 0).Scale(d.Coef(t)))
	}
	if coef > 0 {
		return sd
	}
	return d.Sub(sd) // (1-s)·d
}

// prodSym returns s·t for an indicator symbol s and any symbol t.
func (ip *Interp) prodSym(s, t string, thenSt *State, sTrueInThen bool) lin.Form {
	if s == t {
		return lin.Sym(s)
	}
	// t an indicator whose condition is decided once s holds: s·t is s or 0
	if c, ok := ip.indConds[t]; ok && thenSt != nil && sTrueInThen {
		switch thenSt.Decide(c) {
		case Yes:
			return lin.Sym(s)
		case No:
			return lin.Const(0)
		}
	}
	fs := append(splitProduct(s), splitProduct(t)...)
	sort.Strings(fs)
	var ded []string
	for i, x := range fs {
		if i > 0 && x == fs[i-1] && strings.HasPrefix(x, "[") {
			continue
		}
		ded = append(ded, x)
	}
	name := strings.Join(ded, "·")
	lo, hi := int64(0), int64(lin.PosInf)
	if ip.Lo(t) < 0 {
		lo = lin.NegInf
	}
	if h := ip.Hi(t); h < lin.PosInf {
		hi = h
	}
	if _, ok := ip.lo[name]; !ok {
		ip.SetBounds(name, lo, hi)
	}
	ip.noteProduct(name, ded)
	return lin.Sym(name)
}

// noteProduct records the axioms of a product symbol whose factors are indicators and exactly one other
// non-negative symbol t:  0 <= product <= t.
func (ip *Interp) noteProduct(name string, factors []string) {
	if _, ok := ip.prodAxioms[name]; ok {
		return
	}
	var rest []string
	for _, f := range factors {
		if !strings.HasPrefix(f, "[") {
			rest = append(rest, f)
		}
	}
	if len(rest) == 1 && ip.Lo(rest[0]) >= 0 {
		ax := []lin.Fact{{F: lin.Sym(rest[0]).Sub(lin.Sym(name))}, {F: lin.Sym(name)}}
		ip.prodAxioms[name] = ax
		ip.prodAxioms[rest[0]] = append(ip.prodAxioms[rest[0]], ax...)
	} else {
		ip.prodAxioms[name] = nil
	}
}

// pureGuard: the two arriving states differ only in what they know (facts), not in any value: merging
// would only forget the branch condition, so the paths are kept apart.
func pureGuard(t, e arrival, nEv int) bool {
	if len(t.st.Events) != nEv || len(e.st.Events) != nEv {
		return false
	}
	for phi, vt := range t.phis {
		if !sameVal(vt, e.phis[phi]) {
			return false
		}
	}
	if len(t.st.mem) != len(e.st.mem) {
		// lazily created default cells do not count as differences
		for k, v := range t.st.mem {
			if w, ok := e.st.mem[k]; ok && !sameVal(v, w) {
				return false
			}
		}
		for k, v := range e.st.mem {
			if w, ok := t.st.mem[k]; ok && !sameVal(v, w) {
				return false
			}
		}
		return true
	}
	for k, v := range t.st.mem {
		if w, ok := e.st.mem[k]; ok && !sameVal(v, w) {
			return false
		}
	}
	return true
}

// splitProduct splits a symbol name at its top-level "·" (not inside Σ{…}, […], (…) or ⟦…⟧).
func splitProduct(s string) []string {
	var out []string
	depth := 0
	start := 0
	rs := []rune(s)
	for i, r := range rs {
		switch r {
		case '{', '[', '(', '⟦':
			depth++
		case '}', ']', ')', '⟧':
			depth--
		case '·':
			if depth == 0 {
				out = append(out, string(rs[start:i]))
				start = i + 1
			}
		}
	}
	out = append(out, string(rs[start:]))
	return out
}

// PinConstants replaces symbols that the state pins to their lower bound (e.g. len(x) when the path
// knows len(x) <= 0) by that constant.
func (st *State) PinConstants(f lin.Form) lin.Form {
	out := f
	for _, s := range f.Syms() {
		lo := st.ip.Lo(s)
		if lo <= lin.NegInf {
			continue
		}
		if st.Prove(lin.Const(lo).Sub(lin.Sym(s))) {
			out = out.Subst(map[string]lin.Form{s: lin.Const(lo)})
		}
	}
	return out
}

// SimplifyForm replaces indicator symbols (and indicator factors of product symbols) whose condition is
// decided in state st by 0 or 1.
func (ip *Interp) SimplifyForm(f lin.Form, st *State) lin.Form {
	out := lin.Const(f.C)
	for _, s := range f.Syms() {
		coef := f.Coef(s)
		factors := splitProduct(s)
		var keep []string
		zero := false
		for _, fa := range factors {
			if c, ok := ip.indConds[fa]; ok {
				switch st.Decide(c) {
				case Yes:
					continue
				case No:
					zero = true
				}
			}
			keep = append(keep, fa)
		}
		if zero {
			continue
		}
		if len(keep) == 0 {
			out = out.AddC(coef)
			continue
		}
		sort.Strings(keep)
		name := strings.Join(keep, "·")
		if _, ok := ip.lo[name]; !ok {
			ip.SetBounds(name, ip.Lo(s), ip.Hi(s))
		}
		out = out.Add(lin.Sym(name).Scale(coef))
	}
	return st.PinConstants(out)
}

// mulForms multiplies two forms; products of symbols become canonical product symbols.
func (ip *Interp) mulForms(a, b lin.Form) lin.Form {
	out := lin.Const(a.C * b.C)
	for _, s := range a.Syms() {
		out = out.Add(lin.Sym(s).Scale(a.Coef(s) * b.C))
	}
	for _, t := range b.Syms() {
		out = out.Add(lin.Sym(t).Scale(b.Coef(t) * a.C))
	}
	for _, s := range a.Syms() {
		for _, t := range b.Syms() {
			fs := append(splitProduct(s), splitProduct(t)...)
			sort.Strings(fs)
			// an indicator squared is itself
			var ded []string
			for i, x := range fs {
				if i > 0 && x == fs[i-1] && strings.HasPrefix(x, "[") {
					continue
				}
				ded = append(ded, x)
			}
			name := strings.Join(ded, "·")
			if _, ok := ip.lo[name]; !ok {
				lo := int64(0)
				if ip.Lo(s) < 0 || ip.Lo(t) < 0 {
					lo = lin.NegInf
				}
				ip.SetBounds(name, lo, lin.PosInf)
			}
			ip.noteProduct(name, ded)
			out = out.Add(lin.Sym(name).Scale(a.Coef(s) * b.Coef(t)))
		}
	}
	return out
}

// mergeVals merges the values a value/cell has in the then- and else-state.
func (ip *Interp) mergeVals(c *Cond, ind lin.Form, vt, ve Val, thenSt *State) Val {
	if sameVal(vt, ve) {
		return vt
	}
	switch {
	case vt.K == KInt && ve.K == KInt:
		d := vt.F.Sub(ve.F)
		return IntVal(ve.F.Add(ip.mulInd(ind, d, thenSt)))
	case vt.K == KBool && ve.K == KBool:
		return Val{K: KBool, B: &Cond{Op: COr, X: &Cond{Op: CAnd, X: c, Y: vt.B}, Y: &Cond{Op: CAnd, X: Not(c), Y: ve.B}}}
	case vt.K == KErr && ve.K == KErr:
		e := Val{K: KErr, Sym: ip.fresh("mergeerr")}
		if vt.ErrNil == ve.ErrNil {
			e.ErrNil = vt.ErrNil
		}
		return e
	case vt.K == KSlice && ve.K == KSlice:
		ln := ve.S.Len.Add(ip.mulInd(ind, vt.S.Len.Sub(ve.S.Len), thenSt))
		cp := ve.S.Cap.Add(ip.mulInd(ind, vt.S.Cap.Sub(ve.S.Cap), thenSt))
		id := vt.S.ID
		if vt.S.ID != ve.S.ID {
			id = ip.fresh("mergeslice")
		}
		nl := Maybe
		if vt.S.IsNil == ve.S.IsNil {
			nl = vt.S.IsNil
		}
		return Val{K: KSlice, S: &SliceV{ID: id, Len: ln, Cap: cp, IsNil: nl}}
	}
	return Val{K: KUnknown, Sym: ip.fresh("merge")}
}

// mergeStates merges the then-state t and else-state e of condition c into t's clone.
func (ip *Interp) mergeStates(c *Cond, t, e *State, nEventsBefore int) *State {
	ind := ip.indicator(c)
	m := t.clone()
	// memory
	keys := map[string]bool{}
	for k := range t.mem {
		keys[k] = true
	}
	for k := range e.mem {
		keys[k] = true
	}
	for k := range keys {
		vt, okT := t.mem[k]
		ve, okE := e.mem[k]
		switch {
		case okT && okE:
			m.mem[k] = ip.mergeVals(c, ind, vt, ve, t)
		case okT:
			if z, isZero := e.absentAsZero(k, vt); isZero {
				m.mem[k] = ip.mergeVals(c, ind, vt, z, t)
			} else {
				m.mem[k] = vt // lazily created default on one side only
			}
		case okE:
			if z, isZero := t.absentAsZero(k, ve); isZero {
				m.mem[k] = ip.mergeVals(c, ind, z, ve, t)
			} else {
				m.mem[k] = ve
			}
		}
	}
	for k, v := range e.zero {
		if v {
			m.zero[k] = true
		}
	}
	// knowledge: only what both arms agree on
	m.Facts = intersectFacts(t.Facts, e.Facts)
	m.NE = intersectForms(t.NE, e.NE)
	m.Preds = map[string]bool{}
	for k, v := range t.Preds {
		if w, ok := e.Preds[k]; ok && w == v {
			m.Preds[k] = v
		}
	}
	m.pending = map[string]pendingAdv{}
	for k, v := range t.pending {
		if w, ok := e.pending[k]; ok && w.it == v.it && w.adv.Equal(v.adv) {
			m.pending[k] = v
		}
	}
	m.marks = map[string]int{}
	for k, v := range t.marks {
		if w := e.marks[k]; w < v {
			m.marks[k] = w
		} else {
			m.marks[k] = v
		}
	}
	if e.marks["#seq"] > m.marks["#seq"] {
		m.marks["#seq"] = e.marks["#seq"]
	}
	// events: common prefix + if node
	m.Events = append([]Event{}, t.Events[:nEventsBefore]...)
	te, ee := t.Events[nEventsBefore:], e.Events[nEventsBefore:]
	if len(te) > 0 || len(ee) > 0 {
		m.Events = append(m.Events, Event{Kind: "if", Type: c.String(), Body: [][]Event{append([]Event{}, te...), append([]Event{}, ee...)}})
	}
	m.Trace = append([]string{}, t.Trace[:min(len(t.Trace), len(e.Trace))]...)
	if len(m.Trace) > 0 {
		m.Trace = m.Trace[:len(m.Trace)-1]
	}
	return m
}

func min(a, b int) int {
	if a < b {
		return a
	}
	return b
}

// absentAsZero: a cell missing in this state that belongs to a freshly allocated object reads as zero.
func (st *State) absentAsZero(k string, like Val) (Val, bool) {
	obj := k
	if i := strings.IndexByte(k, '.'); i >= 0 {
		obj = k[:i]
	}
	if !st.zero[obj] {
		return Val{}, false
	}
	switch like.K {
	case KInt:
		return IntVal(lin.Const(0)), true
	case KBool:
		return BoolConst(false), true
	case KPtr, KNilPtr:
		return Val{K: KNilPtr}, true
	case KSlice:
		return Val{K: KSlice, S: &SliceV{ID: "nil", Len: lin.Const(0), Cap: lin.Const(0), IsNil: Yes}}, true
	case KErr:
		return Val{K: KErr, ErrNil: Yes}, true
	}
	return Val{}, false
}

func intersectFacts(a, b []lin.Fact) []lin.Fact {
	seen := map[string]bool{}
	for _, f := range b {
		seen[f.F.String()] = true
	}
	var out []lin.Fact
	for _, f := range a {
		if seen[f.F.String()] {
			out = append(out, f)
		}
	}
	return out
}

func intersectForms(a, b []lin.Form) []lin.Form {
	seen := map[string]bool{}
	for _, f := range b {
		seen[f.String()] = true
	}
	var out []lin.Form
	for _, f := range a {
		if seen[f.String()] {
			out = append(out, f)
		}
	}
	return out
}

// sortedKeys is a small helper.
func sortedKeys(m map[string]bool) []string {
	var ks []string
	for k := range m {
		ks = append(ks, k)
	}
	sort.Strings(ks)
	return ks
}

// ProveSimplified proves f >= 0 after replacing, in f and in every fact, the indicator symbols that the
// state decides.
func (st *State) ProveSimplified(f lin.Form) bool {
	if st.Prove(f) {
		return true
	}
	ip := st.ip
	g := ip.SimplifyForm(f, st)
	facts := make([]lin.Fact, 0, len(st.Facts))
	for _, ft := range st.Facts {
		facts = append(facts, lin.Fact{F: ip.SimplifyForm(ft.F, st)})
	}
	return lin.Prove(g, ip, facts, 3)
}

// ProveZeroSplit proves d == 0 by case analysis on the undecided indicator conditions that occur in d (at most
// depth nested splits): under each truth value the indicator is a constant and the condition is a fact.
func (ip *Interp) ProveZeroSplit(st *State, d lin.Form, depth int) bool {
	d = ip.SimplifyForm(d, st)
	if d.IsConst() {
		return d.C == 0
	}
	if st.ProveSimplified(d) && st.ProveSimplified(d.Scale(-1)) {
		return true
	}
	if depth <= 0 {
		return false
	}
	for _, s := range d.Syms() {
		for _, fa := range splitProduct(s) {
			c, ok := ip.indConds[fa]
			if !ok || st.Decide(c) != Maybe {
				continue
			}
			t, e := st.clone(), st.clone()
			t.Assume(c, true)
			e.Assume(c, false)
			return ip.ProveZeroSplit(t, d, depth-1) && ip.ProveZeroSplit(e, d, depth-1)
		}
	}
	return false
}

// SolveEqualities rewrites f using the equalities among the path facts (pairs G >= 0 and -G >= 0) by Gaussian
// elimination: each equality is solved for a symbol with coefficient ±1 (auxiliary symbols first) and substituted
// into f and into the remaining equalities. Used where a position must become a constant.
func (st *State) SolveEqualities(f lin.Form) lin.Form {
	if f.IsConst() {
		return f
	}
	var eqs []lin.Form
	for i := 0; i < len(st.Facts); i++ {
		if st.Facts[i].F.IsConst() {
			continue
		}
		for j := i + 1; j < len(st.Facts); j++ {
			if s := st.Facts[i].F.Add(st.Facts[j].F); s.IsConst() && s.C == 0 {
				eqs = append(eqs, st.Facts[i].F)
				break
			}
		}
	}
	aux := func(s string) int {
		switch {
		case strings.HasPrefix(s, "σ"), strings.HasPrefix(s, "val("):
			return 0
		case strings.HasPrefix(s, "$"):
			return 2
		}
		return 1
	}
	for k := 0; k < len(eqs) && !f.IsConst(); k++ {
		g := eqs[k]
		if g.IsConst() {
			continue
		}
		pivot := ""
		for _, sy := range g.Syms() {
			if c := g.Coef(sy); c == 1 || c == -1 {
				if pivot == "" || aux(sy) < aux(pivot) {
					pivot = sy
				}
			}
		}
		if pivot == "" {
			continue
		}
		c := g.Coef(pivot)
		val := g.Sub(lin.Sym(pivot).Scale(c)).Scale(-c)
		sub := map[string]lin.Form{pivot: val}
		f = f.Subst(sub)
		for m := k + 1; m < len(eqs); m++ {
			eqs[m] = eqs[m].Subst(sub)
		}
	}
	return f
}
