package pathint

import (
	"fmt"
	"go/token"
	"go/types"
	"strings"

	"astverif/bitdom"
	"astverif/lin"

	"golang.org/x/tools/go/ssa"
)

// Bit-level tracking (engine A, layouts). When Interp.TrackBits is set every integer and boolean value
// additionally carries, in Val.Bits, a bitdom.Vec: its exact bits as GF(2)-affine forms over atoms. An atom
// is bit i of a symbol of the linear domain (Src = symbol name: a fetched byte, a field of a parameter) or a
// predicate (Src = "p:"+key, bit 0). Shifts, masks, disjoint ors, conversions and single-bit tests are
// exact; arithmetic is over-approximated by Top forms that remember their support.

// PredAtom is the atom of a boolean cell / predicate.
func PredAtom(key string) bitdom.Atom { return bitdom.Atom{Src: "p:" + key, Bit: 0} }

// BitWidth returns the width in bits of an integer or boolean type.
func (ip *Interp) BitWidth(t types.Type) (w int, signed, ok bool) {
	b, isB := t.Underlying().(*types.Basic)
	if !isB {
		return 0, false, false
	}
	if b.Info()&types.IsBoolean != 0 {
		return 1, false, true
	}
	if b.Info()&types.IsInteger == 0 {
		return 0, false, false
	}
	return int(ip.sizes().Sizeof(t)) * 8, b.Info()&types.IsUnsigned == 0, true
}

func bitLen(x int64) int {
	n := 0
	for x > 0 {
		n++
		x >>= 1
	}
	return n
}

// SymVec is the bit vector of a symbol of the linear domain: atoms for the bits its bounds allow to be set.
func (ip *Interp) SymVec(sym string, width int) bitdom.Vec {
	v := make(bitdom.Vec, width)
	k := width
	if lo, hi := ip.Lo(sym), ip.Hi(sym); lo >= 0 && hi < lin.PosInf {
		if n := bitLen(hi); n < k {
			k = n
		}
	}
	for i := 0; i < k; i++ {
		v[i] = bitdom.AtomForm(bitdom.Atom{Src: sym, Bit: i})
	}
	return v
}

// FormVec is the bit vector of a linear form (exact for constants, symbols and power-of-two multiples).
func (ip *Interp) FormVec(f lin.Form, width int) bitdom.Vec {
	if f.IsConst() {
		return bitdom.Const(width, uint64(f.C))
	}
	syms := f.Syms()
	if len(syms) == 1 && f.C == 0 {
		c := f.Coef(syms[0])
		if c > 0 && c&(c-1) == 0 {
			return ip.SymVec(syms[0], width).Shl(bitLen(c) - 1)
		}
	}
	var sup []bitdom.Atom
	for _, s := range syms {
		sup = append(sup, bitdom.Atom{Src: s, Bit: -1})
	}
	return bitdom.TopVec(width, sup...)
}

// CondBit is the bit form of a condition (Top unless it is a predicate, a constant or a negation of those).
func CondBit(c *Cond) bitdom.Form {
	if c == nil {
		return bitdom.TopForm()
	}
	switch c.Op {
	case CConst:
		return bitdom.Bit(c.V)
	case CPred:
		return bitdom.AtomForm(PredAtom(c.Key))
	case CNot:
		return CondBit(c.X).Not()
	}
	return bitdom.TopForm()
}

// VecOf returns the bits of v seen as a value of type t.
func (st *State) VecOf(v Val, t types.Type) (bitdom.Vec, bool) {
	w, _, ok := st.ip.BitWidth(t)
	if !ok {
		return nil, false
	}
	if bv, has := v.Bits.(bitdom.Vec); has && len(bv) == w {
		return bv, true
	}
	switch v.K {
	case KInt:
		return st.ip.FormVec(v.F, w), true
	case KBool:
		return bitdom.Vec{CondBit(v.B)}, true
	}
	return bitdom.TopVec(w), true
}

func (st *State) setDef(v Val, vec bitdom.Vec) {
	if v.K != KInt {
		return
	}
	syms := v.F.Syms()
	if len(syms) != 1 || v.F.C != 0 || v.F.Coef(syms[0]) != 1 {
		return
	}
	for _, f := range vec {
		for _, a := range f.Atoms {
			if a.Src == syms[0] {
				return // the symbol's own bits: nothing to define
			}
		}
	}
	if st.Defs == nil {
		st.Defs = map[string]bitdom.Vec{}
	} else if !st.defsOwned {
		n := make(map[string]bitdom.Vec, len(st.Defs)+1)
		for k, x := range st.Defs {
			n[k] = x
		}
		st.Defs = n
	}
	st.defsOwned = true
	st.Defs[syms[0]] = vec
}

func singleBit(v bitdom.Vec) (bitdom.Form, int, bool) {
	idx := -1
	for i, f := range v {
		if f.IsZero() {
			continue
		}
		if idx >= 0 {
			return bitdom.Form{}, 0, false
		}
		idx = i
	}
	if idx < 0 {
		return bitdom.Zero(), 0, true
	}
	return v[idx], idx, true
}

// bitsBinop computes the bit-level value of a binary operation whose domain-level result is res.
func (st *State) bitsBinop(x *ssa.BinOp, res Val) Val {
	ip := st.ip
	a, b := st.eval(x.X), st.eval(x.Y)
	w, signed, ok := ip.BitWidth(x.X.Type())
	if !ok {
		return res
	}
	va, _ := st.VecOf(a, x.X.Type())
	constOf := func(v Val) (int64, bool) {
		if v.K == KInt && v.F.IsConst() {
			return v.F.C, true
		}
		return 0, false
	}
	switch x.Op {
	case token.SHL, token.SHR:
		k, isC := constOf(b)
		if !isC || k < 0 {
			break
		}
		var out bitdom.Vec
		switch {
		case k >= int64(w) && (x.Op == token.SHL || !signed):
			out = bitdom.Const(w, 0)
		case x.Op == token.SHL:
			out = va.Shl(int(k))
		case !signed:
			out = va.Shr(int(k))
		default:
			// arithmetic shift: the sign bit is replicated
			sh := int(k)
			if sh >= w {
				sh = w - 1
			}
			out = va.SignExt(w + sh).Shr(sh).Trunc(w)
		}
		st.noteDead(x, va, out)
		return st.withBits(res, out)
	}
	if isBoolResult(x.Op) {
		if wb, _, okb := ip.BitWidth(x.Y.Type()); !okb || wb != w {
			return res
		}
		vb, _ := st.VecOf(b, x.Y.Type())
		if w == 1 && isBool(x.X.Type()) {
			switch x.Op {
			case token.EQL:
				return st.withBits(res, bitdom.Vec{va[0].Xor(vb[0]).Not()})
			case token.NEQ:
				return st.withBits(res, bitdom.Vec{va[0].Xor(vb[0])})
			}
			return res
		}
		// a whole symbol tested against 0/1 (`m.IntraSliceRefresh == 1` written as one bit): under the assumption
		// that the symbol is 0 or 1 the test is its bit 0
		if cb, isC := vb.IsConst(); isC && !signed && (cb == 0 || cb == 1) {
			if src, ok := wholeSymbol(va); ok {
				bit0 := bitdom.AtomForm(bitdom.Atom{Src: src, Bit: 0})
				var f bitdom.Form
				known := true
				switch {
				case cb == 1 && x.Op == token.EQL, cb == 0 && (x.Op == token.NEQ || x.Op == token.GTR):
					f = bit0
				case cb == 1 && x.Op == token.NEQ, cb == 0 && (x.Op == token.EQL || x.Op == token.LEQ):
					f = bit0.Not()
				default:
					known = false
				}
				if known {
					if ip.BitAssumptions == nil {
						ip.BitAssumptions = map[string]bool{}
					}
					ip.BitAssumptions[src+" is 0 or 1 (it is tested against "+fmt.Sprint(cb)+" and carried by a single bit)"] = true
					return st.withBits(res, bitdom.Vec{f})
				}
			}
		}
		// single-bit tests: x&m != 0, x&m > 0, x&m == 0, x&m == m
		if cb, isC := vb.IsConst(); isC && !signed || isC && cb == 0 {
			if f, idx, one := singleBit(va); one {
				switch {
				case cb == 0 && (x.Op == token.NEQ || x.Op == token.GTR):
					return st.withBits(res, bitdom.Vec{f})
				case cb == 0 && (x.Op == token.EQL || x.Op == token.LEQ):
					return st.withBits(res, bitdom.Vec{f.Not()})
				case cb == 1<<uint(idx) && (x.Op == token.EQL || x.Op == token.GEQ):
					return st.withBits(res, bitdom.Vec{f})
				case cb == 1<<uint(idx) && (x.Op == token.NEQ || x.Op == token.LSS):
					return st.withBits(res, bitdom.Vec{f.Not()})
				}
			}
		}
		return res
	}
	if wb, _, okb := ip.BitWidth(x.Y.Type()); !okb || wb != w {
		return res
	}
	vb, _ := st.VecOf(b, x.Y.Type())
	var out bitdom.Vec
	switch x.Op {
	case token.AND:
		out = va.And(vb)
	case token.OR:
		out = va.Or(vb)
	case token.XOR:
		out = va.Xor(vb)
	case token.AND_NOT:
		out = va.And(vb.Not())
	case token.ADD:
		out = va.Add(vb)
	case token.MUL:
		if k, isC := constOf(b); isC && k > 0 && k&(k-1) == 0 {
			out = va.Shl(bitLen(k) - 1)
		} else if k, isC := constOf(a); isC && k > 0 && k&(k-1) == 0 {
			out = vb.Shl(bitLen(k) - 1)
		}
	}
	if out != nil && (x.Op == token.AND || x.Op == token.AND_NOT) {
		st.noteDead(x, va, out)
		st.noteDead(x, vb, out)
	}
	if out == nil {
		var sup []bitdom.Atom
		for _, f := range append(append(bitdom.Vec{}, va...), vb...) {
			sup = append(sup, f.Atoms...)
		}
		out = bitdom.TopVec(w, sup...)
	}
	return st.withBits(res, out)
}

func isBoolResult(op token.Token) bool {
	switch op {
	case token.EQL, token.NEQ, token.LSS, token.LEQ, token.GTR, token.GEQ:
		return true
	}
	return false
}

// withBits attaches vec to res; constant vectors also sharpen the linear value, and opaque results get a
// definition so that facts about them can be translated later.
func (st *State) withBits(res Val, vec bitdom.Vec) Val {
	if c, ok := vec.IsConst(); ok && len(vec) <= 63 {
		switch res.K {
		case KInt:
			return Val{K: KInt, F: lin.Const(int64(c)), Bits: vec}
		case KBool:
			return Val{K: KBool, B: &Cond{Op: CConst, V: c == 1}, Bits: vec}
		}
	}
	res.Bits = vec
	if st.ip.LinOfBits != nil && res.K == KInt {
		if syms := res.F.Syms(); len(syms) == 1 && res.F.C == 0 && strings.Contains(syms[0], "%") {
			if f, ok := st.ip.LinOfBits(st, vec); ok {
				res.F = f
				return res
			}
		}
	}
	st.setDef(res, vec)
	return res
}

func (st *State) bitsConvert(x *ssa.Convert, res Val) Val {
	ip := st.ip
	sw, ssigned, ok1 := ip.BitWidth(x.X.Type())
	dw, _, ok2 := ip.BitWidth(x.Type())
	if !ok1 || !ok2 || isBool(x.X.Type()) || isBool(x.Type()) {
		return res
	}
	src, _ := st.VecOf(st.eval(x.X), x.X.Type())
	var out bitdom.Vec
	switch {
	case dw <= sw:
		out = src.Trunc(dw)
	case ssigned:
		out = src.SignExt(dw)
	default:
		out = src.ZeroExt(dw)
	}
	return st.withBits(res, out)
}

func (st *State) bitsUnop(x *ssa.UnOp, res Val) Val {
	switch x.Op {
	case token.NOT:
		if v, ok := st.VecOf(st.eval(x.X), x.X.Type()); ok && len(v) == 1 {
			return st.withBits(res, bitdom.Vec{v[0].Not()})
		}
	case token.XOR:
		if v, ok := st.VecOf(st.eval(x.X), x.X.Type()); ok {
			return st.withBits(res, v.Not())
		}
	}
	return res
}

// instVec instantiates the atoms of a callee-side vector in the caller.
func (st *State) instVec(v bitdom.Vec, paramVal map[string]Val, inst string) bitdom.Vec {
	cache := map[string]bitdom.Vec{}
	return v.Subst(func(a bitdom.Atom) (bitdom.Form, bool) {
		if strings.HasPrefix(a.Src, "p:") {
			c := st.instCond(&Cond{Op: CPred, Key: a.Src[2:]}, paramVal, inst)
			return CondBit(c), true
		}
		sv, ok := cache[a.Src]
		if !ok {
			sv = st.symValVec(a.Src, paramVal, inst)
			cache[a.Src] = sv
		}
		if a.Bit < 0 || a.Bit >= len(sv) {
			var sup []bitdom.Atom
			for _, f := range sv {
				sup = append(sup, f.Atoms...)
			}
			if a.Bit >= len(sv) {
				return bitdom.Zero(), true
			}
			return bitdom.TopForm(sup...), true
		}
		return sv[a.Bit], true
	})
}

// symValVec: the caller-side bits (64 wide) of a callee-side symbol.
func (st *State) symValVec(s string, paramVal map[string]Val, inst string) bitdom.Vec {
	widen := func(v Val) (bitdom.Vec, bool) {
		if bv, ok := v.Bits.(bitdom.Vec); ok {
			return bv.Resize(64), true
		}
		return nil, false
	}
	if strings.HasPrefix(s, "$") {
		root, hops, path, suffix := splitParamName(s)
		if av, ok := paramVal[root]; ok && suffix == "" {
			if len(hops) == 0 && path == "" {
				if bv, ok := widen(av); ok {
					return bv
				}
			}
			if av.K == KStruct && len(hops) == 0 && path != "" {
				if fv, ok := av.Fields[path]; ok {
					if bv, ok := widen(fv); ok {
						return bv
					}
				}
			}
			if path != "" {
				if o, pre, ok := st.resolveObj(root, hops, paramVal); ok {
					if mv, ok := st.mem[joinPath(o.ID, joinPath(pre, path))]; ok {
						if bv, ok := widen(mv); ok {
							return bv
						}
					}
				}
			}
		}
	}
	if d, ok := st.Defs[inst+s]; ok && !strings.Contains(s, "$") {
		return d.Resize(64)
	}
	return st.ip.FormVec(st.instSym(s, paramVal, inst), 64)
}

// noteDead records rule A5's contradiction: an operation that discards every variable bit of its operand (a shift
// by at least the operand's width, a mask that selects none of its live bits): the result is a constant although
// the source mentions a value.
func (st *State) noteDead(x *ssa.BinOp, operand, result bitdom.Vec) {
	if st.ip.Oracle != nil {
		return // under an oracle the inputs are partly decided: only judged on fully symbolic inputs
	}
	if _, isC := result.IsConst(); !isC {
		return
	}
	if _, isC := operand.IsConst(); isC {
		return
	}
	if st.ip.DeadOps == nil {
		st.ip.DeadOps = map[token.Pos]string{}
	}
	st.ip.DeadOps[x.Pos()] = x.Op.String()
}

// SetDef records the bits of an opaque symbol on this path (for oracles).
func (st *State) SetDef(sym string, vec bitdom.Vec) { st.setDef(IntVal(lin.Sym(sym)), vec) }

// wholeSymbol: the vector is bits 0..k-1 (k >= 2) of one symbol, zero above.
func wholeSymbol(v bitdom.Vec) (string, bool) {
	src := ""
	n := 0
	for i, f := range v {
		if f.IsZero() {
			continue
		}
		if f.Top || f.C || len(f.Atoms) != 1 || f.Atoms[0].Bit != i || strings.HasPrefix(f.Atoms[0].Src, "p:") {
			return "", false
		}
		if src == "" {
			src = f.Atoms[0].Src
		} else if src != f.Atoms[0].Src {
			return "", false
		}
		n++
	}
	return src, n >= 2
}
