// Package pathint is a path-sensitive abstract interpreter over go/ssa used by the iterator-safety
// engine (C) and the bit-layout engine (A). Abstract domain: integers are linear forms over opaque
// symbols (package lin) with guard facts collected from the branch conditions of the path; memory is
// a map from (abstract object, field path) to abstract values with exact store-to-load forwarding along
// a path; loops are cut at their headers (everything a loop can change is replaced by fresh symbols);
// callees of the analysed package are applied through memoised summaries (sets of outcomes). No solver
// is involved: feasibility pruning and proofs use bound substitution and fact subtraction only.
package pathint

import (
	"fmt"
	"go/types"
	"sort"
	"strings"

	"astverif/lin"
)

// Kind of an abstract value.
type Kind uint8

const (
	KUnknown Kind = iota
	KInt
	KBool
	KPtr
	KSlice
	KStruct
	KTuple
	KErr
	KNilPtr
)

// Tri is a three-valued truth.
type Tri int8

const (
	Maybe Tri = iota
	Yes
	No
)

// Obj is an abstract heap/stack object.
type Obj struct {
	ID   string
	Type types.Type // element type
}

// SliceV is an abstract slice value.
type SliceV struct {
	ID    string   // identity of the backing data (for element addressing)
	Len   lin.Form // length
	Cap   lin.Form // capacity (>= Len)
	Event string   // non-empty when the bytes come from an iterator fetch: event id
	Off   lin.Form // offset of element 0 inside the event / backing object
	IsNil Tri
	Elems []Val  // TrackBits: the elements, when the slice was built by short appends
	Blob  string // non-empty: the bytes are exactly this byte string of the oracle's source
}

// CondOp enumerates condition shapes.
type CondOp uint8

const (
	CConst CondOp = iota // V
	CGE                  // F >= 0
	CEQ                  // F == 0
	CPred                // named predicate / opaque boolean
	CNot                 // !X
	CAnd                 // X && Y (only produced by phi-less evaluation of bool BinOps)
	COr
)

// Cond is an abstract boolean.
type Cond struct {
	Op   CondOp
	V    bool
	F    lin.Form
	Key  string // CPred
	X, Y *Cond
}

func (c *Cond) String() string {
	if c == nil {
		return "?"
	}
	switch c.Op {
	case CConst:
		return fmt.Sprint(c.V)
	case CGE:
		return "(" + c.F.String() + " >= 0)"
	case CEQ:
		return "(" + c.F.String() + " == 0)"
	case CPred:
		return c.Key
	case CNot:
		return "!" + c.X.String()
	case CAnd:
		return "(" + c.X.String() + " && " + c.Y.String() + ")"
	case COr:
		return "(" + c.X.String() + " || " + c.Y.String() + ")"
	}
	return "?"
}

// Val is an abstract value.
type Val struct {
	K      Kind
	F      lin.Form       // KInt
	B      *Cond          // KBool
	O      *Obj           // KPtr
	S      *SliceV        // KSlice
	Fields map[string]Val // KStruct: leaf path -> value
	Tup    []Val          // KTuple
	ErrNil Tri            // KErr
	Sym    string         // opaque identity for KUnknown / KErr
	Bits   interface{}    // optional exact bit-level value (engine A); opaque to this package
}

func (v Val) String() string {
	switch v.K {
	case KInt:
		return v.F.String()
	case KBool:
		return v.B.String()
	case KPtr:
		return "&" + v.O.ID
	case KNilPtr:
		return "nil"
	case KSlice:
		return fmt.Sprintf("slice(%s,len=%s)", v.S.ID, v.S.Len)
	case KStruct:
		var ks []string
		for k := range v.Fields {
			ks = append(ks, k)
		}
		sort.Strings(ks)
		var sb strings.Builder
		sb.WriteString("{")
		for i, k := range ks {
			if i > 0 {
				sb.WriteString(",")
			}
			sb.WriteString(k + ":" + v.Fields[k].String())
		}
		sb.WriteString("}")
		return sb.String()
	case KTuple:
		var ps []string
		for _, x := range v.Tup {
			ps = append(ps, x.String())
		}
		return "(" + strings.Join(ps, ", ") + ")"
	case KErr:
		switch v.ErrNil {
		case Yes:
			return "err=nil"
		case No:
			return "err!=nil"
		}
		return "err?" + v.Sym
	}
	return "?" + v.Sym
}

// IntVal builds an integer value.
func IntVal(f lin.Form) Val { return Val{K: KInt, F: f} }

// BoolConst builds a constant boolean.
func BoolConst(b bool) Val { return Val{K: KBool, B: &Cond{Op: CConst, V: b}} }

// Not negates a condition.
func Not(c *Cond) *Cond {
	if c == nil {
		return nil
	}
	switch c.Op {
	case CConst:
		return &Cond{Op: CConst, V: !c.V}
	case CNot:
		return c.X
	case CGE: // !(F >= 0)  <=>  -F-1 >= 0
		return &Cond{Op: CGE, F: c.F.Scale(-1).AddC(-1)}
	}
	return &Cond{Op: CNot, X: c}
}
