package pathint

import (
	"go/ast"
	"go/constant"
	"go/token"
	"go/types"
	"strconv"
	"strings"

	"golang.org/x/tools/go/ssa"

	"astverif/lin"
)

// constTable: g is a package-level array of integers that is initialised by a composite literal of constants and that no function of
// the package writes to or takes the address of (every use is g[i] read, or len(g)). It returns the element values.
func (ip *Interp) constTable(g *ssa.Global) ([]int64, bool) {
	if ip.tables == nil {
		ip.tables = map[*ssa.Global][]int64{}
		ip.noTable = map[*ssa.Global]bool{}
	}
	if t, ok := ip.tables[g]; ok {
		return t, true
	}
	if ip.noTable[g] {
		return nil, false
	}
	t, ok := ip.readConstTable(g)
	if ok {
		ip.tables[g] = t
	} else {
		ip.noTable[g] = true
	}
	return t, ok
}

func (ip *Interp) readConstTable(g *ssa.Global) ([]int64, bool) {
	pt, ok := g.Type().(*types.Pointer)
	if !ok {
		return nil, false
	}
	at, ok := pt.Elem().Underlying().(*types.Array)
	if !ok || at.Len() > 64 {
		return nil, false
	}
	if bt, isB := at.Elem().Underlying().(*types.Basic); !isB || bt.Info()&types.IsInteger == 0 {
		return nil, false
	}
	obj := g.Object()
	if obj == nil {
		return nil, false
	}
	// the literal
	var lit *ast.CompositeLit
	for _, f := range ip.P.Files {
		for _, d := range f.Decls {
			gd, ok := d.(*ast.GenDecl)
			if !ok || gd.Tok != token.VAR {
				continue
			}
			for _, sp := range gd.Specs {
				vs := sp.(*ast.ValueSpec)
				for i, n := range vs.Names {
					if ip.P.Info.Defs[n] == obj && i < len(vs.Values) {
						lit, _ = vs.Values[i].(*ast.CompositeLit)
					}
				}
			}
		}
	}
	if lit == nil {
		return nil, false
	}
	out := make([]int64, at.Len())
	next := int64(0)
	constOf := func(e ast.Expr) (int64, bool) {
		tv, ok := ip.P.Info.Types[e]
		if !ok || tv.Value == nil {
			return 0, false
		}
		return constant.Int64Val(constant.ToInt(tv.Value))
	}
	for _, el := range lit.Elts {
		val := el
		if kv, isKV := el.(*ast.KeyValueExpr); isKV {
			k, ok := constOf(kv.Key)
			if !ok {
				return nil, false
			}
			next, val = k, kv.Value
		}
		v, ok := constOf(val)
		if !ok || next < 0 || next >= at.Len() {
			return nil, false
		}
		out[next] = v
		next++
	}
	// read-only: every use in the package's source functions is an indexing read
	for _, f := range ip.P.SrcFuncs() {
		for _, b := range f.Blocks {
			for _, in := range b.Instrs {
				for _, op := range in.Operands(nil) {
					if op == nil || *op != ssa.Value(g) {
						continue
					}
					switch x := in.(type) {
					case *ssa.IndexAddr:
						for _, r := range *x.Referrers() {
							if u, isU := r.(*ssa.UnOp); !isU || u.Op != token.MUL {
								if _, isD := r.(*ssa.DebugRef); !isD {
									return nil, false
								}
							}
						}
					case *ssa.UnOp:
						// a load of the whole array (range over it, len): the copy cannot be written back
						if x.Op != token.MUL {
							return nil, false
						}
					case *ssa.DebugRef:
					default:
						return nil, false
					}
				}
			}
		}
	}
	return out, true
}

// tableElem: the address a is element [k] of a constant table: its value.
func (st *State) tableElem(a addr) (Val, bool) {
	if !a.ok || a.obj == nil || !strings.HasPrefix(a.obj.ID, "@") || len(a.path) < 3 || a.path[0] != '[' || a.path[len(a.path)-1] != ']' {
		return Val{}, false
	}
	k, err := strconv.ParseInt(a.path[1:len(a.path)-1], 10, 64)
	if err != nil {
		return Val{}, false
	}
	g, ok := st.Fn.Pkg.Members[a.obj.ID[1:]].(*ssa.Global)
	if !ok {
		return Val{}, false
	}
	t, ok := st.ip.constTable(g)
	if !ok || k < 0 || k >= int64(len(t)) {
		return Val{}, false
	}
	return IntVal(lin.Const(t[k])), true
}

// forkOverTable: x indexes a constant table with an index that is not a constant on this path but provably inside the table:
// one successor state per feasible index value (at most 16), each knowing the index. nil when x is not such an access.
func (st *State) forkOverTable(x *ssa.IndexAddr) []*State {
	g, ok := x.X.(*ssa.Global)
	if !ok {
		return nil
	}
	t, ok := st.ip.constTable(g)
	if !ok || len(t) > 16 {
		return nil
	}
	idx := st.intOf(st.eval(x.Index), x.Index.Type(), "idx")
	if idx.IsConst() {
		return nil
	}
	n := int64(len(t))
	if !st.Prove(idx) || !st.Prove(lin.Const(n-1).Sub(idx)) {
		return nil
	}
	if st.ip.Hooks != nil {
		st.ip.Hooks.Index(st, x, lin.Const(n), idx, true)
	}
	et := x.Type().(*types.Pointer).Elem()
	var out []*State
	// an index assembled from flags (`if a { k |= 1 }; if b { k |= 2 }`) is a form over indicator symbols: fork over the flags, so
	// that each successor knows the conditions themselves, not only the index value
	var inds []string
	pure := true
	for _, s := range idx.Syms() {
		for _, fct := range splitProduct(s) {
			if _, isInd := st.ip.indConds[fct]; isInd {
				dup := false
				for _, k := range inds {
					if k == fct {
						dup = true
					}
				}
				if !dup {
					inds = append(inds, fct)
				}
			} else {
				pure = false
			}
		}
	}
	if pure && len(inds) > 0 && len(inds) <= 4 {
		for mask := 0; mask < 1<<uint(len(inds)); mask++ {
			ns := st.clone()
			val := map[string]int64{}
			feasible := true
			for i, s := range inds {
				tv := mask>>uint(i)&1 == 1
				c := st.ip.indConds[s]
				switch ns.Decide(c) {
				case Yes:
					if !tv {
						feasible = false
					}
				case No:
					if tv {
						feasible = false
					}
				}
				if !feasible {
					break
				}
				ns.Assume(c, tv)
				if tv {
					val[s] = 1
				}
			}
			if !feasible {
				continue
			}
			k := idx.C
			for _, s := range idx.Syms() {
				prod := int64(1)
				for _, fct := range splitProduct(s) {
					prod *= val[fct]
				}
				k += idx.Coef(s) * prod
			}
			if k < 0 || k >= n {
				continue
			}
			ns.vals[x] = Val{K: KPtr, O: &Obj{ID: "@" + g.Name(), Type: et}, Sym: "[" + strconv.FormatInt(k, 10) + "]"}
			out = append(out, ns)
		}
		return out
	}
	for k := int64(0); k < n; k++ {
		c := &Cond{Op: CEQ, F: idx.AddC(-k)}
		if st.Decide(c) == No {
			continue
		}
		ns := st.clone()
		ns.Assume(c, true)
		ns.vals[x] = Val{K: KPtr, O: &Obj{ID: "@" + g.Name(), Type: et}, Sym: "[" + strconv.FormatInt(k, 10) + "]"}
		out = append(out, ns)
	}
	return out
}
