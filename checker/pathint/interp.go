package pathint

import (
	"astverif/bitdom"
	"fmt"
	"go/constant"
	"go/token"
	"go/types"
	"os"
	"sort"
	"strings"

	"astverif/lin"
	"astverif/load"
	"astverif/ssau"

	"golang.org/x/tools/go/ssa"
)

// Hooks receive the events of interest on every explored path.
type Hooks interface {
	// IterCall is called for every BytesIterator method call with the cursor before the call.
	IterCall(st *State, call ssa.CallInstruction, method string, it *Obj, cur lin.Form, arg *Val)
	Index(st *State, in ssa.Instruction, length lin.Form, idx lin.Form, known bool)
	Slice(st *State, in *ssa.Slice, capOrLen lin.Form, lo, hi lin.Form)
	MakeSlice(st *State, in *ssa.MakeSlice, n lin.Form)
	BackEdge(st *State, from, header *ssa.BasicBlock)
	Call(st *State, call ssa.CallInstruction, callee string, args []Val)
	Return(st *State, ret *ssa.Return, results []Val)
	Deref(st *State, in ssa.Instruction, ptr Val)
	// Publish is called when a pointer to an object is stored into a field of another object.
	Publish(st *State, in *ssa.Store, target *Obj, path string, obj *Obj)
}

// Requirement is a precondition F >= 0 of a function, over its parameter-rooted symbols.
type Requirement struct {
	Site string
	Rule string
	F    lin.Form
	Desc string
	Pos  token.Pos
}

// Outcome is one (merged) way a function can return.
type Outcome struct {
	Results []Val
	Mem     map[string]Val // final memory restricted to parameter-rooted and result-reachable objects
	Facts   []lin.Fact
	NE      []lin.Form
	Preds   map[string]bool
	Marks   map[string]bool
	Events  []Event
	// Defs: bit-level definitions of opaque symbols (TrackBits)
	Defs map[string]bitdom.Vec
	// ParamConds: truth of parameter-rooted boolean cells assumed on this path
	ParamConds map[string]bool
	ErrNil     Tri
	key        string
}

// Summary of a function.
type Summary struct {
	Fn        *ssa.Function
	Outcomes  []Outcome
	Reqs      []Requirement
	Paths     int
	Truncated bool
	Opaque    bool
}

// Interp is the interpreter for one program.
type Interp struct {
	intCells map[string]types.Type   // integer locals held in memory (object id -> type)
	tables   map[*ssa.Global][]int64 // package-level constant integer tables (read-only arrays)
	noTable  map[*ssa.Global]bool
	P        *load.Program
	Hooks    Hooks
	// Axioms give bounds for parameter-rooted symbols of API roots (documented input domains) and
	// type-level field invariants that are justified by separate obligations.
	SymLo map[string]int64
	SymHi map[string]int64

	lo, hi     map[string]int64
	summaries  map[*ssa.Function]*Summary
	inProgress map[*ssa.Function]bool
	MaxPaths   int
	MaxOut     int
	OnReqFail  func(st *State, rq Requirement, x *ssa.Call)
	// SumLoops: summarise counted/range loops by one symbolic iteration (closed forms with Σ symbols).
	SumLoops bool
	// Abstract: functions applied through an abstract contract instead of their summary (assume-guarantee:
	// the contract is proven by a separate obligation). See AbstractSpec.
	Abstract map[*ssa.Function]AbstractSpec
	// KeyGuards: outcomes with different (canonical) guards are never merged.
	KeyGuards bool
	// MergeIfs: if-conversion of branches whose arms rejoin (see merge.go).
	MergeIfs bool
	// TrackBits: integer and boolean values also carry exact bit vectors (see bits.go).
	TrackBits bool
	// UnrollCount: for a counted loop `for i := 0; i < bound; i++` returns the trip counts to explore by exact
	// unrolling (nil: the loop is summarised / cut as usual).
	UnrollCount func(f *ssa.Function, bound ssa.Value) []int
	// InlineCalls: package functions are interpreted in the caller's state instead of through summaries.
	InlineCalls bool
	// Oracle supplies the content of iterator fetches (layout composition); LinOfBits reads a bit vector as a
	// linear form over the oracle's symbols.
	Oracle    FetchOracle
	LinOfBits func(st *State, v bitdom.Vec) (lin.Form, bool)
	// BitAssumptions: value-range assumptions made by the bit-level transfer functions.
	BitAssumptions map[string]bool
	// DeadOps: positions of bit operations whose result is constant although their operand is not (rule A5).
	DeadOps  map[token.Pos]string
	indConds map[string]*Cond
	pdoms    map[*ssa.Function]map[*ssa.BasicBlock]*ssa.BasicBlock
	// AssumeNoTruncation: narrowing integer conversions keep their linear form (documented domain
	// restriction "lengths fit their fields").
	AssumeNoTruncation bool
	// StrictWrap: unsigned arithmetic that cannot be shown to stay inside its type is opaque even under
	// AssumeNoTruncation (set while a parser is interpreted on a stream whose field widths are exact: there the
	// assumption "values fit their fields" says nothing about the parser's own arithmetic).
	StrictWrap bool
	// SuffixLo: documented input domains, by symbol-name suffix (e.g. ".optPacketSize" >= 0).
	SuffixLo map[string]int64
	// NonZeroLo: once a symbol with this suffix is known to be non-zero it is at least this large
	// (documented domain "0 = automatic, otherwise >= N").
	NonZeroLo map[string]int64
	// FieldInvs: type-level invariants "objects of type T have field F >= Lo", assumed for objects the
	// analysed function did not create and checked wherever such an object is published (hook Publish).
	FieldInvs  []FieldInv
	Diag       []string
	counter    int
	candidates map[*ssa.BasicBlock][]*ssa.Phi
	candFailed map[*ssa.BasicBlock]bool
	pureCache  map[*ssa.Function]int
	pureForms  map[string]lin.Form
	prodAxioms map[string][]lin.Fact
}

// New creates an interpreter.
func New(p *load.Program, h Hooks) *Interp {
	return &Interp{P: p, Hooks: h, lo: map[string]int64{}, hi: map[string]int64{}, SymLo: map[string]int64{}, SymHi: map[string]int64{},
		summaries: map[*ssa.Function]*Summary{}, inProgress: map[*ssa.Function]bool{}, MaxPaths: 300000, MaxOut: 48,
		candidates: map[*ssa.BasicBlock][]*ssa.Phi{}, candFailed: map[*ssa.BasicBlock]bool{},
		pureCache: map[*ssa.Function]int{}, pureForms: map[string]lin.Form{}, indConds: map[string]*Cond{}, prodAxioms: map[string][]lin.Fact{},
		pdoms: map[*ssa.Function]map[*ssa.BasicBlock]*ssa.BasicBlock{}}
}

// insideDifferentLoop: the branch block and its join are not in the same set of loops (merging across a
// loop boundary would bypass the loop handling).
func insideDifferentLoop(li *loopInfo, b, join *ssa.BasicBlock) bool {
	for h, body := range li.body {
		_ = h
		if body[b] != body[join] {
			return true
		}
	}
	return false
}

// AbstractSpec is the contract of a length calculator or of the writer it is paired with: the calculator
// returns the uninterpreted quantity ƒName(arg); the writer emits 8·ƒName(arg)+ExtraBits bits to its writer
// argument and, when it returns a count, returns ƒName(arg)+ExtraBits/8.
type AbstractSpec struct {
	Name      string // name of the uninterpreted quantity (the calculator's name)
	ArgIdx    int    // index of the argument the quantity depends on
	Writer    bool
	ExtraBits int64
}

// FieldInv is a type-level field invariant.
type FieldInv struct {
	Type  string
	Field string
	Lo    int64
}

// Lo implements lin.Bounds.
func (ip *Interp) Lo(s string) int64 {
	for suf, lo := range ip.SuffixLo {
		if strings.HasSuffix(s, suf) {
			if v, ok := ip.lo[s]; ok && v > lo {
				return v
			}
			return lo
		}
	}
	if v, ok := ip.lo[s]; ok {
		return v
	}
	if v, ok := ip.SymLo[stripInst(s)]; ok {
		return v
	}
	return lin.NegInf
}

// Hi implements lin.Bounds.
func (ip *Interp) Hi(s string) int64 {
	if v, ok := ip.hi[s]; ok {
		return v
	}
	if v, ok := ip.SymHi[stripInst(s)]; ok {
		return v
	}
	return lin.PosInf
}

func stripInst(s string) string { return s }

func (ip *Interp) addCandidate(h *ssa.BasicBlock, phi *ssa.Phi) {
	for _, p := range ip.candidates[h] {
		if p == phi {
			return
		}
	}
	ip.candidates[h] = append(ip.candidates[h], phi)
}

func (ip *Interp) isCandidate(h *ssa.BasicBlock, phi *ssa.Phi) bool {
	for _, p := range ip.candidates[h] {
		if p == phi {
			return true
		}
	}
	return false
}

// FailedCandidates lists loop headers whose assumed invariant (an initially empty slice stays empty at
// the header) was not re-established by some back edge: results that used it are not trustworthy.
func (ip *Interp) FailedCandidates() []*ssa.BasicBlock {
	var out []*ssa.BasicBlock
	for h, bad := range ip.candFailed {
		if bad {
			out = append(out, h)
		}
	}
	return out
}

// SetBounds records bounds for a symbol.
func (ip *Interp) SetBounds(s string, lo, hi int64) {
	if lo > lin.NegInf {
		ip.lo[s] = lo
	}
	if hi < lin.PosInf {
		ip.hi[s] = hi
	}
}

// State is the abstract state of one path.
type State struct {
	ip      *Interp
	Fn      *ssa.Function
	mem     map[string]Val
	zero    map[string]bool // objects whose unset fields read as zero values
	vals    map[ssa.Value]Val
	Facts   []lin.Fact
	NE      []lin.Form // disequalities F != 0
	Preds   map[string]bool
	pending map[string]pendingAdv // error symbol -> pending cursor advance
	Trace   []string
	loops   map[*ssa.BasicBlock]map[string]lin.Form // header -> iterator id -> cursor symbol at header
	marks   map[string]int                          // progress marks (consume, delete): count on this path
	loopMk  map[*ssa.BasicBlock]map[string]int      // marks at loop entry
	phaseB  map[*ssa.BasicBlock]bool                // loop headers currently explored on a havocked state
	inA     map[*ssa.BasicBlock]bool
	acc     map[*ssa.BasicBlock]*loopAcc
	cand    map[*ssa.BasicBlock][]*ssa.Phi // candidate invariants len(phi)==0 assumed at this header
	// loop summation (engine A)
	sum            map[*ssa.BasicBlock]*sumCollector
	sumStart       map[*ssa.BasicBlock]sumMark
	loopIndex      map[ssa.Value]bool
	Events         []Event
	pfx            string                  // call-frame prefix of names (InlineCalls)
	aborted        bool                    // the path is abandoned (an oracle could not serve it)
	iterN          int                     // exact back edges taken on this path
	iterTag        string                  // suffix of names created after them
	exact          map[*ssa.BasicBlock]int // loop headers executed exactly (remaining back-edge budget); copy-on-write
	unrollN        []unrollFix             // trip counts fixed for unrolled loops (asserted when the bound is evaluated)
	Defs           map[string]bitdom.Vec   // TrackBits: opaque symbol -> its bits (copy-on-write)
	defsOwned      bool
	noZeroTripFork bool
	stops          []stopFrame // merge points the current path is being run up to (innermost last)
	reqs           *[]Requirement
	depth          int
}

type pendingAdv struct {
	it  string
	adv lin.Form
}

func (st *State) clone() *State {
	n := *st
	n.mem = make(map[string]Val, len(st.mem))
	for k, v := range st.mem {
		n.mem[k] = v
	}
	n.zero = make(map[string]bool, len(st.zero))
	for k, v := range st.zero {
		n.zero[k] = v
	}
	n.vals = make(map[ssa.Value]Val, len(st.vals))
	for k, v := range st.vals {
		n.vals[k] = v
	}
	n.Facts = append([]lin.Fact{}, st.Facts...)
	n.NE = append([]lin.Form{}, st.NE...)
	n.Preds = make(map[string]bool, len(st.Preds))
	for k, v := range st.Preds {
		n.Preds[k] = v
	}
	n.pending = make(map[string]pendingAdv, len(st.pending))
	for k, v := range st.pending {
		n.pending[k] = v
	}
	n.Trace = append([]string{}, st.Trace...)
	n.loops = make(map[*ssa.BasicBlock]map[string]lin.Form, len(st.loops))
	for k, v := range st.loops {
		n.loops[k] = v
	}
	n.marks = make(map[string]int, len(st.marks))
	for k, v := range st.marks {
		n.marks[k] = v
	}
	n.loopMk = make(map[*ssa.BasicBlock]map[string]int, len(st.loopMk))
	for k, v := range st.loopMk {
		n.loopMk[k] = v
	}
	// phaseB / inA / acc / cand / sum / sumStart / loopIndex are copy-on-write (replaced, never mutated in place)
	n.Events = append([]Event{}, st.Events...)
	n.defsOwned = false
	st.defsOwned = false
	return &n
}

// Interp returns the interpreter.
func (st *State) Interp() *Interp { return st.ip }

// IsFresh reports whether the object was allocated on this path (by this function or a callee).
func (st *State) IsFresh(o *Obj) bool { return st.zero[o.ID] }

// Mark records a progress event (e.g. "consume", "delete") on this path.
func (st *State) Mark(name string) {
	st.marks["#seq"]++
	st.marks[name] = st.marks["#seq"]
}

// Unmark clears a progress event (e.g. a seek back to the start undoes consumption).
func (st *State) Unmark(name string) { delete(st.marks, name) }

// Marks lists the progress events recorded on this path.
func (st *State) Marks() []string {
	var out []string
	for k, v := range st.marks {
		if v > 0 && k != "#seq" {
			out = append(out, k)
		}
	}
	sort.Strings(out)
	return out
}

// Pred returns what the path knows about a named predicate.
func (st *State) Pred(key string) (bool, bool) { v, ok := st.Preds[key]; return v, ok }

// HasMark reports whether the event happened on this path.
func (st *State) HasMark(name string) bool { return st.marks[name] > 0 }

// MarkedSince reports whether a progress event happened since the loop header was entered.
func (st *State) MarkedSince(h *ssa.BasicBlock, name string) bool {
	return st.marks[name] > st.loopMk[h]["#seq"]
}

// Prove tries to show f >= 0 in this state.
func (st *State) Prove(f lin.Form) bool {
	if lin.Prove(f, st.ip, st.Facts, 3) {
		return true
	}
	// product axioms (indicator·t <= t for t >= 0) that speak about symbols of f
	var ax []lin.Fact
	for _, s := range f.Syms() {
		if a, ok := st.ip.prodAxioms[s]; ok {
			ax = append(ax, a...)
		}
	}
	if len(ax) == 0 {
		return false
	}
	return lin.Prove(f, st.ip, append(append([]lin.Fact{}, st.Facts...), ax...), 3)
}

// ReadsThroughNil: the path assumes pointer X nil although one of the forms mentions cells below X: the
// function dereferenced X on this path, which panics.
func (st *State) ReadsThroughNil(forms ...lin.Form) bool {
	for k, v := range st.Preds {
		if !v || !strings.HasPrefix(k, "nil:") {
			continue
		}
		x := k[4:]
		if x == "" {
			continue
		}
		for _, f := range forms {
			for _, s := range f.Syms() {
				if strings.Contains(s, x+".") || strings.Contains(s, x+"/") {
					return true
				}
			}
		}
	}
	return false
}

// Require proves f >= 0 or lifts it to a precondition of the current function when it only speaks
// about parameter-rooted symbols. Returns (proved, lifted).
func (st *State) Require(rule, site string, pos token.Pos, f lin.Form, desc string) (bool, bool) {
	if st.Prove(f) {
		return true, false
	}
	if f.IsConst() {
		return false, false
	}
	for _, s := range f.Syms() {
		if !strings.HasPrefix(s, "$") && !strings.HasPrefix(s, "len($") && !strings.HasPrefix(s, "cap($") {
			return false, false
		}
	}
	*st.reqs = append(*st.reqs, Requirement{Site: site, Rule: rule, F: f, Desc: desc, Pos: pos})
	st.Facts = append(st.Facts, lin.Fact{F: f}) // callers guarantee it from here on
	return false, true
}

// PathDesc renders the branch decisions of the path (for reports).
func (st *State) PathDesc() string {
	if len(st.Trace) > 12 {
		return "… " + strings.Join(st.Trace[len(st.Trace)-12:], "; ")
	}
	return strings.Join(st.Trace, "; ")
}

func (ip *Interp) fresh(prefix string) string {
	ip.counter++
	return fmt.Sprintf("%s~%d", prefix, ip.counter)
}

// ---- type helpers

func intBounds(t types.Type, sizes types.Sizes) (lo, hi int64, isInt bool) {
	b, ok := t.Underlying().(*types.Basic)
	if !ok || b.Info()&types.IsInteger == 0 {
		return 0, 0, false
	}
	bits := sizes.Sizeof(t) * 8
	if b.Info()&types.IsUnsigned != 0 {
		if bits >= 63 {
			return 0, lin.PosInf, true
		}
		return 0, (int64(1) << uint(bits)) - 1, true
	}
	if bits >= 63 {
		return lin.NegInf, lin.PosInf, true
	}
	return -(int64(1) << uint(bits-1)), (int64(1) << uint(bits-1)) - 1, true
}

func (ip *Interp) sizes() types.Sizes { return ip.P.Pkg.TypesSizes }

func isBool(t types.Type) bool {
	b, ok := t.Underlying().(*types.Basic)
	return ok && b.Info()&types.IsBoolean != 0
}

func isIterPtr(t types.Type) bool {
	p, ok := t.(*types.Pointer)
	return ok && ssau.IsNamed(p.Elem(), load.AstikitPath, "BytesIterator")
}

// symbolic builds a symbolic value of type t named name.
func (ip *Interp) symbolic(t types.Type, name string, st *State) Val {
	if lo, hi, ok := intBounds(t, ip.sizes()); ok {
		ip.SetBounds(name, lo, hi)
		return IntVal(lin.Sym(name))
	}
	if isBool(t) {
		return Val{K: KBool, B: &Cond{Op: CPred, Key: name}}
	}
	if ssau.IsErrorType(t) {
		return Val{K: KErr, Sym: name}
	}
	switch u := t.Underlying().(type) {
	case *types.Pointer:
		id := strings.ReplaceAll(name, ".", "/") // object ids never contain '.', which separates id and field path
		o := &Obj{ID: id, Type: u.Elem()}
		if isIterPtr(t) && st != nil {
			ip.SetBounds(id+"#cur", 0, lin.PosInf)
			ip.SetBounds(id+"#len", 0, lin.PosInf)
			st.mem[id+".#cur"] = IntVal(lin.Sym(id + "#cur"))
			st.mem[id+".#len"] = IntVal(lin.Sym(id + "#len"))
		}
		return Val{K: KPtr, O: o}
	case *types.Slice:
		ln, cp := "len("+name+")", "cap("+name+")"
		ip.SetBounds(ln, 0, lin.PosInf)
		ip.SetBounds(cp, 0, lin.PosInf)
		// cap = len + slack with slack >= 0
		return Val{K: KSlice, S: &SliceV{ID: name, Len: lin.Sym(ln), Cap: lin.Sym(ln).Add(lin.Sym(cp))}}
	case *types.Struct:
		fs := map[string]Val{}
		ip.materialize(u, name, "", fs, st, 0)
		return Val{K: KStruct, Fields: fs}
	case *types.Basic:
		if u.Kind() == types.String {
			ln := "len(" + name + ")"
			ip.SetBounds(ln, 0, lin.PosInf)
			return Val{K: KSlice, S: &SliceV{ID: name, Len: lin.Sym(ln), Cap: lin.Sym(ln)}}
		}
	}
	return Val{K: KUnknown, Sym: name}
}

func (ip *Interp) materialize(s *types.Struct, name, prefix string, out map[string]Val, st *State, depth int) {
	for i := 0; i < s.NumFields(); i++ {
		f := s.Field(i)
		p := f.Name()
		if prefix != "" {
			p = prefix + "." + f.Name()
		}
		if fs, ok := f.Type().Underlying().(*types.Struct); ok && depth < 3 {
			ip.materialize(fs, name, p, out, st, depth+1)
			continue
		}
		out[p] = ip.symbolic(f.Type(), name+"."+p, st)
	}
}

func (ip *Interp) zeroValue(t types.Type) Val {
	if _, _, ok := intBounds(t, ip.sizes()); ok {
		return IntVal(lin.Const(0))
	}
	if isBool(t) {
		return BoolConst(false)
	}
	if ssau.IsErrorType(t) {
		return Val{K: KErr, ErrNil: Yes}
	}
	switch u := t.Underlying().(type) {
	case *types.Pointer:
		return Val{K: KNilPtr}
	case *types.Slice:
		return Val{K: KSlice, S: &SliceV{ID: "nil", Len: lin.Const(0), Cap: lin.Const(0), IsNil: Yes}}
	case *types.Struct:
		fs := map[string]Val{}
		ip.zeroStruct(u, "", fs, 0)
		return Val{K: KStruct, Fields: fs}
	}
	return Val{K: KUnknown, Sym: "zero"}
}

func (ip *Interp) zeroStruct(s *types.Struct, prefix string, out map[string]Val, depth int) {
	for i := 0; i < s.NumFields(); i++ {
		f := s.Field(i)
		p := f.Name()
		if prefix != "" {
			p = prefix + "." + f.Name()
		}
		if fs, ok := f.Type().Underlying().(*types.Struct); ok && depth < 3 {
			ip.zeroStruct(fs, p, out, depth+1)
			continue
		}
		out[p] = ip.zeroValue(f.Type())
	}
}

// ---- addresses

// addr is an abstract address: object + path inside it.
type addr struct {
	obj  *Obj
	path string
	t    types.Type // type of the addressed location
	ok   bool
}

func joinPath(a, b string) string {
	if a == "" {
		return b
	}
	if b == "" {
		return a
	}
	return a + "." + b
}

func (st *State) asAddr(v Val, t types.Type) addr {
	if v.K != KPtr || v.O == nil {
		return addr{}
	}
	var et types.Type
	if p, ok := t.Underlying().(*types.Pointer); ok {
		et = p.Elem()
	}
	return addr{obj: v.O, path: v.Sym, t: et, ok: true}
}

// load reads the value at an address.
func (st *State) load(a addr) Val {
	if !a.ok {
		return Val{K: KUnknown, Sym: st.ip.fresh("ld")}
	}
	key := joinPath(a.obj.ID, a.path)
	if s, ok := a.t.Underlying().(*types.Struct); ok && !isOpaqueStruct(a.t) {
		fs := map[string]Val{}
		st.loadStruct(s, a.obj, a.path, "", fs, 0)
		return Val{K: KStruct, Fields: fs}
	}
	if v, ok := st.mem[key]; ok {
		return st.coerce(v, a.t, key)
	}
	if v, ok := st.tableElem(a); ok {
		return v
	}
	if strings.HasPrefix(a.obj.ID, "@") && a.path == "" && ssau.IsErrorType(a.t) {
		// package-level error variables are sentinels: created once by errors.New and never reassigned
		// (who-may-write rule S2 checks the "never reassigned" part)
		return Val{K: KErr, ErrNil: No, Sym: a.obj.ID}
	}
	var v Val
	if st.zero[a.obj.ID] {
		v = st.ip.zeroValue(a.t)
	} else {
		v = st.ip.symbolic(a.t, key, st)
		if v.K == KInt && a.obj.Type != nil {
			for _, inv := range st.ip.FieldInvs {
				if a.path == inv.Field && ssau.IsNamed(a.obj.Type, load.RootPath, inv.Type) {
					st.ip.SetBounds(key, inv.Lo, st.ip.Hi(key))
				}
			}
		}
	}
	st.mem[key] = v
	return v
}

func isOpaqueStruct(t types.Type) bool {
	n, ok := t.(*types.Named)
	if !ok || n.Obj().Pkg() == nil {
		return false
	}
	return n.Obj().Pkg().Path() != load.RootPath
}

func (st *State) loadStruct(s *types.Struct, o *Obj, base, prefix string, out map[string]Val, depth int) {
	for i := 0; i < s.NumFields(); i++ {
		f := s.Field(i)
		p := joinPath(prefix, f.Name())
		if fs, ok := f.Type().Underlying().(*types.Struct); ok && depth < 3 && !isOpaqueStruct(f.Type()) {
			st.loadStruct(fs, o, base, p, out, depth+1)
			continue
		}
		out[p] = st.load(addr{obj: o, path: joinPath(base, p), t: f.Type(), ok: true})
	}
}

// coerce turns a havocked (unknown) cell into a typed symbolic value on first use.
func (st *State) coerce(v Val, t types.Type, key string) Val {
	if v.K != KUnknown || t == nil {
		return v
	}
	name := v.Sym
	if name == "" {
		name = st.ip.fresh(key)
	}
	nv := st.ip.symbolic(t, name, st)
	st.mem[key] = nv
	return nv
}

func (st *State) store(a addr, v Val) {
	if !a.ok {
		return
	}
	key := joinPath(a.obj.ID, a.path)
	if v.K == KStruct {
		// drop old sub-entries
		for k := range st.mem {
			if strings.HasPrefix(k, key+".") {
				delete(st.mem, k)
			}
		}
		for p, fv := range v.Fields {
			st.mem[joinPath(key, p)] = fv
		}
		return
	}
	st.mem[key] = v
}

// Mem exposes a memory cell (for hooks).
func (st *State) Mem(key string) (Val, bool) { v, ok := st.mem[key]; return v, ok }

// SetMem sets a memory cell (for hooks).
func (st *State) SetMem(key string, v Val) { st.mem[key] = v }

// Cursor returns the current cursor form of an iterator object.
func (st *State) Cursor(it *Obj) lin.Form {
	v, ok := st.mem[it.ID+".#cur"]
	if !ok || v.K != KInt {
		s := st.ip.fresh(it.ID + "#cur")
		st.ip.SetBounds(s, 0, lin.PosInf)
		v = IntVal(lin.Sym(s))
		st.mem[it.ID+".#cur"] = v
	}
	return v.F
}

// IterLen returns the length form of an iterator's buffer.
func (st *State) IterLen(it *Obj) lin.Form {
	v, ok := st.mem[it.ID+".#len"]
	if !ok || v.K != KInt {
		s := it.ID + "#len"
		st.ip.SetBounds(s, 0, lin.PosInf)
		v = IntVal(lin.Sym(s))
		st.mem[it.ID+".#len"] = v
	}
	return v.F
}

func (st *State) setCursor(it *Obj, f lin.Form) { st.mem[it.ID+".#cur"] = IntVal(f) }

// ---- evaluation of operands

func (st *State) eval(v ssa.Value) Val {
	if r, ok := st.vals[v]; ok {
		return r
	}
	switch x := v.(type) {
	case *ssa.Const:
		return st.constVal(x)
	case *ssa.Global:
		return Val{K: KPtr, O: &Obj{ID: "@" + x.Name(), Type: x.Type().(*types.Pointer).Elem()}}
	case *ssa.Function:
		return Val{K: KUnknown, Sym: "func:" + x.Name()}
	case *ssa.Builtin:
		return Val{K: KUnknown, Sym: "builtin:" + x.Name()}
	case *ssa.Parameter, *ssa.FreeVar:
		name := "$" + v.Name()
		r := st.ip.symbolic(v.Type(), name, st)
		st.vals[v] = r
		return r
	}
	// value defined in a block not yet executed on this path (should not happen)
	r := st.ip.symbolic(v.Type(), st.nm(v), st)
	st.vals[v] = r
	return r
}

func (st *State) constVal(c *ssa.Const) Val {
	if c.Value == nil {
		t := c.Type()
		if ssau.IsErrorType(t) {
			return Val{K: KErr, ErrNil: Yes}
		}
		return st.ip.zeroValue(t)
	}
	switch c.Value.Kind() {
	case constant.Int:
		if i, ok := constant.Int64Val(c.Value); ok {
			return IntVal(lin.Const(i))
		}
		if u, ok := constant.Uint64Val(c.Value); ok {
			_ = u
			return IntVal(lin.Const(lin.PosInf))
		}
	case constant.Bool:
		return BoolConst(constant.BoolVal(c.Value))
	case constant.String:
		s := constant.StringVal(c.Value)
		return Val{K: KSlice, S: &SliceV{ID: "str", Len: lin.Const(int64(len(s))), Cap: lin.Const(int64(len(s)))}}
	}
	return Val{K: KUnknown, Sym: "const"}
}

func (st *State) intOf(v Val, t types.Type, hint string) lin.Form {
	if v.K == KInt {
		return v.F
	}
	name := v.Sym
	if name == "" {
		name = st.ip.fresh(hint)
	}
	if lo, hi, ok := intBounds(t, st.ip.sizes()); ok {
		st.ip.SetBounds(name, lo, hi)
	}
	return lin.Sym(name)
}

// ---- conditions

// Decide evaluates a condition in the current state.
func (st *State) Decide(c *Cond) Tri {
	if c == nil {
		return Maybe
	}
	switch c.Op {
	case CConst:
		if c.V {
			return Yes
		}
		return No
	case CGE:
		if st.Prove(c.F) {
			return Yes
		}
		if st.Prove(c.F.Scale(-1).AddC(-1)) {
			return No
		}
	case CEQ:
		if c.F.IsConst() {
			if c.F.C == 0 {
				return Yes
			}
			return No
		}
		if st.Prove(c.F.AddC(-1)) || st.Prove(c.F.Scale(-1).AddC(-1)) {
			return No
		}
		for _, ne := range st.NE {
			if ne.Equal(c.F) || ne.Equal(c.F.Scale(-1)) {
				return No
			}
		}
		if st.Prove(c.F) && st.Prove(c.F.Scale(-1)) {
			return Yes
		}
	case CPred:
		if v, ok := st.Preds[c.Key]; ok {
			if v {
				return Yes
			}
			return No
		}
	case CNot:
		switch st.Decide(c.X) {
		case Yes:
			return No
		case No:
			return Yes
		}
	case CAnd:
		a, b := st.Decide(c.X), st.Decide(c.Y)
		if a == No || b == No {
			return No
		}
		if a == Yes && b == Yes {
			return Yes
		}
	case COr:
		a, b := st.Decide(c.X), st.Decide(c.Y)
		if a == Yes || b == Yes {
			return Yes
		}
		if a == No && b == No {
			return No
		}
	}
	return Maybe
}

// rangeOverSmallArray: the counted loop is the range-index loop over an array of at most 8 elements (index phi starting at -1,
// compared after the increment with the constant length).
func rangeOverSmallArray(cl *countedLoop) bool {
	k, isC := ssau.ConstInt(cl.bound)
	if !isC || k < 1 || k > 8 || cl.dynStart || cl.cmpVal == ssa.Value(cl.phi) {
		return false
	}
	for i, e := range cl.phi.Edges {
		if cl.phi.Block().Dominates(cl.phi.Block().Preds[i]) {
			continue
		}
		if n, ok := ssau.ConstInt(e); !ok || n != -1 {
			return false
		}
	}
	return true
}

// Assume adds the knowledge that c has truth value tv.
func (st *State) Assume(c *Cond, tv bool) {
	if c == nil {
		return
	}
	switch c.Op {
	case CGE:
		if tv {
			st.Facts = append(st.Facts, lin.Fact{F: lin.Tighten(c.F)})
		} else {
			st.Facts = append(st.Facts, lin.Fact{F: lin.Tighten(c.F.Scale(-1).AddC(-1))})
		}
	case CEQ:
		if tv {
			st.Facts = append(st.Facts, lin.Fact{F: c.F}, lin.Fact{F: c.F.Scale(-1)})
		} else {
			if syms := c.F.Syms(); len(syms) == 1 && c.F.C == 0 {
				for suf, lo := range st.ip.NonZeroLo {
					if strings.HasSuffix(syms[0], suf) {
						st.Facts = append(st.Facts, lin.Fact{F: lin.Sym(syms[0]).AddC(-lo)})
					}
				}
			}
			// F != 0: if a bound already excludes one side, strengthen the other
			if st.Prove(c.F) {
				st.Facts = append(st.Facts, lin.Fact{F: lin.Tighten(c.F.AddC(-1))})
			} else if st.Prove(c.F.Scale(-1)) {
				st.Facts = append(st.Facts, lin.Fact{F: lin.Tighten(c.F.Scale(-1).AddC(-1))})
			} else {
				st.NE = append(st.NE, c.F)
			}
		}
	case CPred:
		st.Preds[c.Key] = tv
		// an error that equals a sentinel is not nil (package-level error variables are never nil: rule S2 of C18)
		if tv && strings.HasPrefix(c.Key, "eq:") {
			if parts := strings.SplitN(c.Key[3:], "=", 2); len(parts) == 2 {
				sym := ""
				switch {
				case strings.HasPrefix(parts[0], "@") && !strings.HasPrefix(parts[1], "@"):
					sym = parts[1]
				case strings.HasPrefix(parts[1], "@") && !strings.HasPrefix(parts[0], "@"):
					sym = parts[0]
				}
				if sym != "" {
					if _, known := st.Preds["nil:"+sym]; !known {
						st.Preds["nil:"+sym] = false
					}
				}
			}
		}
	case CNot:
		st.Assume(c.X, !tv)
	case CAnd:
		if tv {
			st.Assume(c.X, true)
			st.Assume(c.Y, true)
		}
	case COr:
		if !tv {
			st.Assume(c.X, false)
			st.Assume(c.Y, false)
		}
	}
}

// ---- function analysis

type loopInfo struct {
	headers   map[*ssa.BasicBlock]bool
	body      map[*ssa.BasicBlock]map[*ssa.BasicBlock]bool // header -> blocks of the natural loop
	backEdges map[[2]*ssa.BasicBlock]bool
}

func findLoops(f *ssa.Function) *loopInfo {
	li := &loopInfo{headers: map[*ssa.BasicBlock]bool{}, body: map[*ssa.BasicBlock]map[*ssa.BasicBlock]bool{}, backEdges: map[[2]*ssa.BasicBlock]bool{}}
	for _, b := range f.Blocks {
		for _, s := range b.Succs {
			if s.Dominates(b) {
				li.headers[s] = true
				li.backEdges[[2]*ssa.BasicBlock{b, s}] = true
				body := li.body[s]
				if body == nil {
					body = map[*ssa.BasicBlock]bool{s: true}
					li.body[s] = body
				}
				// natural loop: all blocks that reach b without passing s
				stack := []*ssa.BasicBlock{b}
				for len(stack) > 0 {
					x := stack[len(stack)-1]
					stack = stack[:len(stack)-1]
					if body[x] {
						continue
					}
					body[x] = true
					stack = append(stack, x.Preds...)
				}
			}
		}
	}
	return li
}

var traceOn = os.Getenv("ASTVERIF_TRACE") != ""

// Summarize analyses a function (memoised).
func (ip *Interp) Summarize(f *ssa.Function) *Summary {
	if s, ok := ip.summaries[f]; ok {
		return s
	}
	if f.Blocks == nil || ip.inProgress[f] {
		return &Summary{Fn: f, Opaque: true}
	}
	ip.inProgress[f] = true
	defer delete(ip.inProgress, f)
	sum := &Summary{Fn: f}
	st := &State{ip: ip, Fn: f, mem: map[string]Val{}, zero: map[string]bool{}, vals: map[ssa.Value]Val{}, Preds: map[string]bool{},
		pending: map[string]pendingAdv{}, loops: map[*ssa.BasicBlock]map[string]lin.Form{}, marks: map[string]int{}, loopMk: map[*ssa.BasicBlock]map[string]int{},
		phaseB: map[*ssa.BasicBlock]bool{}, inA: map[*ssa.BasicBlock]bool{}, acc: map[*ssa.BasicBlock]*loopAcc{}, reqs: &sum.Reqs}
	for _, p := range f.Params {
		pv := st.eval(p)
		if isWriterPtr(p.Type()) && pv.K == KPtr && pv.O != nil {
			st.Bits(pv.O) // materialise the emitted-bits counter of parameter writers
		}
	}
	for _, fv := range f.FreeVars {
		st.eval(fv)
	}
	outs := map[string]*Outcome{}
	var order []string
	ip.explore(f, st, sum, func(st *State, x *ssa.Return, res []Val) {
		o := st.makeOutcome(f, res)
		if prev, ok := outs[o.key]; ok {
			joinOutcome(prev, o, ip)
		} else {
			outs[o.key] = o
			order = append(order, o.key)
		}
	})
	sort.Strings(order)
	for _, k := range order {
		sum.Outcomes = append(sum.Outcomes, *outs[k])
	}
	if len(sum.Outcomes) > ip.MaxOut {
		sum.Outcomes = widen(sum.Outcomes, ip, f)
	}
	sum.Reqs = dedupReqs(sum.Reqs)
	if sum.Truncated {
		ip.Diag = append(ip.Diag, fmt.Sprintf("%s: path budget exceeded (%d paths)", load.FuncName(f), sum.Paths))
	}
	ip.summaries[f] = sum
	return sum
}

// explore runs the path-sensitive interpretation of f from the entry state st; onReturn is called at every
// return reached (with the state at the return and the returned values).
func (ip *Interp) explore(f *ssa.Function, st *State, sum *Summary, onReturn func(st *State, x *ssa.Return, res []Val)) {
	li := findLoops(f)
	var run func(st *State, b, from *ssa.BasicBlock)
	var runFrom func(st *State, b *ssa.BasicBlock, start int)
	branch := func(st *State, b *ssa.BasicBlock, x *ssa.If) {
		if col := st.sum[b]; col != nil && col.nForm == nil {
			// header of a loop being summarised: one symbolic iteration, always into the body
			bv := st.eval(col.cl.bound)
			if bv.K == KInt {
				f := bv.F
				col.nForm = &f
			} else {
				col.bad = "loop bound is not an integer form"
			}
			run(st, b.Succs[col.cl.bodyS], b)
			return
		}
		for _, fx := range st.unrollN {
			if fx.h == b {
				if bv := st.eval(fx.bound); bv.K == KInt && !bv.F.IsConst() {
					d := bv.F.AddC(-fx.n)
					if !(st.Prove(d) && st.Prove(d.Scale(-1))) {
						if st.Prove(d.AddC(-1)) || st.Prove(d.Scale(-1).AddC(-1)) {
							return // this trip count contradicts the path
						}
						st.Facts = append(st.Facts, lin.Fact{F: d}, lin.Fact{F: d.Scale(-1)})
					}
				}
			}
		}
		c := st.eval(x.Cond)
		var cond *Cond
		if c.K == KBool {
			cond = c.B
		} else {
			cond = &Cond{Op: CPred, Key: ip.fresh("cond")}
		}
		switch st.Decide(cond) {
		case Yes:
			st.edgePending(cond, true)
			run(st, b.Succs[0], b)
		case No:
			st.edgePending(cond, false)
			run(st, b.Succs[1], b)
		default:
			var join *ssa.BasicBlock
			if ip.MergeIfs && !li.headers[b] {
				join = joinBlock(b, li)
				if join != nil && (li.headers[join] || insideDifferentLoop(li, b, join)) {
					join = nil
				}
			}
			t := st.clone()
			t.Assume(cond, true)
			t.edgePending(cond, true)
			t.Trace = append(t.Trace, cond.String())
			if join == nil {
				run(t, b.Succs[0], b)
				st.Assume(cond, false)
				st.edgePending(cond, false)
				st.Trace = append(st.Trace, "!"+cond.String())
				run(st, b.Succs[1], b)
				return
			}
			saved := st.stops
			nEv := len(st.Events)
			var arrT, arrE []arrival
			t.stops = append(append([]stopFrame{}, saved...), stopFrame{at: join, into: &arrT})
			run(t, b.Succs[0], b)
			st.Assume(cond, false)
			st.edgePending(cond, false)
			st.Trace = append(st.Trace, "!"+cond.String())
			st.stops = append(append([]stopFrame{}, saved...), stopFrame{at: join, into: &arrE})
			run(st, b.Succs[1], b)
			cont := func(ns *State, phis map[*ssa.Phi]Val) {
				ns.stops = saved
				if n := len(saved); n > 0 && saved[n-1].at == join {
					*saved[n-1].into = append(*saved[n-1].into, arrival{st: ns, phis: phis})
					return
				}
				for phi, v := range phis {
					ns.vals[phi] = v
				}
				runFrom(ns, join, 0)
			}
			if len(arrT) == 1 && len(arrE) == 1 && !pureGuard(arrT[0], arrE[0], nEv) {
				m := ip.mergeStates(cond, arrT[0].st, arrE[0].st, nEv)
				ind := ip.indicator(cond)
				phis := map[*ssa.Phi]Val{}
				for phi, vt := range arrT[0].phis {
					phis[phi] = ip.mergeVals(cond, ind, vt, arrE[0].phis[phi], arrT[0].st)
				}
				cont(m, phis)
				return
			}
			for _, a := range arrT {
				cont(a.st, a.phis)
			}
			for _, a := range arrE {
				cont(a.st, a.phis)
			}
		}
	}
	runFrom = func(st *State, b *ssa.BasicBlock, start int) {
		for i := start; i < len(b.Instrs); i++ {
			if st.aborted {
				return
			}
			if sum.Paths > ip.MaxPaths {
				sum.Truncated = true
				return
			}
			switch x := b.Instrs[i].(type) {
			case *ssa.Phi:
				continue
			case *ssa.If:
				branch(st, b, x)
				return
			case *ssa.Jump:
				run(st, b.Succs[0], b)
				return
			case *ssa.Return:
				var res []Val
				for _, r := range x.Results {
					res = append(res, st.eval(r))
				}
				if ip.Hooks != nil {
					ip.Hooks.Return(st, x, res)
				}
				sum.Paths++
				if traceOn {
					fmt.Printf("TRACE %s return@%s res=%v path=[%s]\n", f.Name(), ip.P.Pos(x.Pos()), res, strings.Join(st.Trace, "; "))
				}
				onReturn(st, x, res)
				return
			case *ssa.Panic:
				sum.Paths++
				return
			default:
				next := st.exec(b.Instrs[i])
				if len(next) == 1 && next[0] == st {
					continue
				}
				for _, ns := range next {
					runFrom(ns, b, i+1)
				}
				return
			}
		}
	}
	run = func(st *State, b, from *ssa.BasicBlock) {
		if sum.Paths > ip.MaxPaths {
			sum.Truncated = true
			return
		}
		if n := len(st.stops); n > 0 && st.stops[n-1].at == b && from != nil {
			// reached the merge point this arm is being run up to
			phis := map[*ssa.Phi]Val{}
			idx := -1
			for i, p := range b.Preds {
				if p == from {
					idx = i
				}
			}
			for _, in := range b.Instrs {
				phi, ok := in.(*ssa.Phi)
				if !ok {
					break
				}
				phis[phi] = st.eval(phi.Edges[idx])
			}
			*st.stops[n-1].into = append(*st.stops[n-1].into, arrival{st: st, phis: phis})
			return
		}
		// loop entry / back edge handling
		exactEntry := false
		if li.headers[b] && from != nil && !li.backEdges[[2]*ssa.BasicBlock{from, b}] && st.exact[b] > 0 {
			// the loop is entered again on this path (its function is called a second time): fresh budget
			budget := 12
			for _, fx := range st.unrollN {
				if fx.h == b {
					budget = int(fx.n) + 2
				}
			}
			st.setExact(b, budget)
		}
		if li.headers[b] && from != nil && st.exact[b] == 0 {
			// exact unrolling: under an oracle every loop, otherwise the counted loops the client asked for
			isBack := li.backEdges[[2]*ssa.BasicBlock{from, b}]
			if !isBack && st.sum[b] == nil {
				if ip.Oracle != nil {
					st.setExact(b, 12)
				} else if cl := findCountedLoop(b, li.body[b]); cl != nil && rangeOverSmallArray(cl) {
					// `for _, x := range [...]T{a, b, c}`: a handful of iterations known at compile time — run them one by one
					k, _ := ssau.ConstInt(cl.bound)
					st.setExact(b, int(k)+2)
				} else if ip.UnrollCount != nil && !st.phaseB[b] {
					if cl := findCountedLoop(b, li.body[b]); cl != nil && !cl.dynStart && cl.start == 0 {
						if ns := ip.UnrollCount(f, cl.bound); len(ns) > 0 {
							for _, n := range ns {
								fs := st.clone()
								fs.setExact(b, n+2)
								fs.unrollN = append(append([]unrollFix{}, st.unrollN...), unrollFix{h: b, bound: cl.bound, n: int64(n)})
								run(fs, b, from)
							}
							return
						}
					}
				}
			}
		}
		if li.headers[b] && from != nil && st.exact[b] > 0 {
			if li.backEdges[[2]*ssa.BasicBlock{from, b}] {
				st.setExact(b, st.exact[b]-1)
				// values computed in different iterations are different values: their names differ
				st.iterN++
				st.iterTag = fmt.Sprintf("~%d", st.iterN)
				if st.exact[b] == 0 {
					if os.Getenv("ASTVERIF_UNROLL_DEBUG") != "" {
						fmt.Fprintf(os.Stderr, "UNROLL %s loop %s fixes=%v facts=%v\n", f.Name(), b, st.unrollN, st.Facts)
					}
					ip.Diag = append(ip.Diag, fmt.Sprintf("%s: loop %s unrolled beyond its budget", f.Name(), b))
					sum.Paths++
					return
				}
			}
		} else if li.headers[b] && from != nil {
			if li.backEdges[[2]*ssa.BasicBlock{from, b}] {
				if st.sum[b] != nil {
					st.sumBackEdge(b, from)
					sum.Paths++
					return
				}
				if ip.Hooks != nil {
					ip.Hooks.BackEdge(st, from, b)
				}
				st.noteBackEdge(b, from)
				sum.Paths++
				if traceOn {
					fmt.Printf("TRACE %s backedge %s->%s path=[%s]\n", f.Name(), from, b, strings.Join(st.Trace, "; "))
				}
				return
			}
			if ip.SumLoops && !st.phaseB[b] {
				if cl := findCountedLoop(b, li.body[b]); cl != nil {
					if st.sumLoop(b, from, li, cl, run, runFrom) {
						return
					}
				}
			}
			if !st.phaseB[b] {
				// phase A: the first iteration runs on the exact entry state
				a := st.clone()
				a.enterLoopExact(b)
				acc := &loopAcc{}
				a.acc = cloneAccMap(st.acc)
				a.acc[b] = acc
				exactEntry = true
				run2 := a
				run2.phaseB = cloneBoolMap(st.phaseB)
				run2.inA = cloneBoolMap(st.inA)
				run2.inA[b] = true
				st.runHeader(run2, b, from, li, true, runFrom)
				if acc.n == 0 {
					return // the loop never comes back to its header: nothing further to explore
				}
				// phase B: any later iteration, on a havocked header state
				st.phaseB = cloneBoolMap(st.phaseB)
				st.phaseB[b] = true
				st.acc = cloneAccMap(st.acc)
				st.acc[b] = acc
				for k := range acc.marks {
					st.Mark(k) // every completed iteration so far established these (checked at each back edge)
				}
				st.havocLoop(b, li.body[b])
				st.runHeader(st, b, from, li, false, runFrom)
				return
			}
		}
		_ = exactEntry
		// phis
		if from != nil {
			idx := -1
			for i, p := range b.Preds {
				if p == from {
					idx = i
				}
			}
			var phiVals []Val
			var phis []*ssa.Phi
			for _, in := range b.Instrs {
				phi, ok := in.(*ssa.Phi)
				if !ok {
					break
				}
				phis = append(phis, phi)
				phiVals = append(phiVals, st.eval(phi.Edges[idx]))
			}
			for i, phi := range phis {
				st.vals[phi] = phiVals[i]
			}
		}
		runFrom(st, b, 0)
	}
	run(st, f.Blocks[0], nil)
}

func dedupReqs(rs []Requirement) []Requirement {
	seen := map[string]bool{}
	var out []Requirement
	for _, r := range rs {
		k := r.Site + "|" + r.F.String()
		if seen[k] {
			continue
		}
		seen[k] = true
		out = append(out, r)
	}
	return out
}

// staticLowerBound: path-insensitive lower bound of an integer SSA value.
func staticLowerBound(v ssa.Value, seen map[ssa.Value]bool) (int64, bool) {
	switch x := v.(type) {
	case *ssa.Const:
		return ssau.ConstInt(x)
	case *ssa.Phi:
		if seen[x] {
			return 0, false
		}
		seen[x] = true
		best, any := int64(0), false
		for _, e := range x.Edges {
			// skip self-increments x + c (c >= 0)
			if b, ok := e.(*ssa.BinOp); ok && b.Op == token.ADD {
				if (b.X == ssa.Value(x) && nonNegStatic(b.Y)) || (b.Y == ssa.Value(x) && nonNegStatic(b.X)) {
					continue
				}
			}
			lb, ok := staticLowerBound(e, seen)
			if !ok {
				return 0, false
			}
			if !any || lb < best {
				best, any = lb, true
			}
		}
		return best, any
	case *ssa.BinOp:
		if x.Op == token.ADD {
			a, ok1 := staticLowerBound(x.X, seen)
			b, ok2 := staticLowerBound(x.Y, seen)
			if ok1 && ok2 {
				return a + b, true
			}
		}
	case *ssa.Call:
		if b, ok := x.Call.Value.(*ssa.Builtin); ok && (b.Name() == "len" || b.Name() == "cap" || b.Name() == "copy") {
			return 0, true
		}
	case *ssa.Convert:
		if b, ok := x.X.Type().Underlying().(*types.Basic); ok && b.Info()&types.IsUnsigned != 0 {
			return 0, true
		}
	}
	return 0, false
}

func nonNegStatic(v ssa.Value) bool {
	lb, ok := staticLowerBound(v, map[ssa.Value]bool{})
	return ok && lb >= 0
}

// havocLoop replaces everything the loop can change by fresh symbols.
func (st *State) havocLoop(h *ssa.BasicBlock, body map[*ssa.BasicBlock]bool) {
	ip := st.ip
	fields := map[string]bool{}
	iterTouched := false
	anyCall := false
	var note func(v ssa.Value)
	note = func(v ssa.Value) {
		switch a := v.(type) {
		case *ssa.FieldAddr:
			n, _ := ssau.FieldName(a)
			fields[n] = true
		case *ssa.IndexAddr:
			fields["[]"] = true
		}
	}
	for b := range body {
		for _, in := range b.Instrs {
			switch x := in.(type) {
			case *ssa.Store:
				note(x.Addr)
			case ssa.CallInstruction:
				anyCall = true
				cc := x.Common()
				for _, a := range cc.Args {
					if isIterPtr(a.Type()) {
						iterTouched = true
					}
				}
				if callee := cc.StaticCallee(); callee != nil && callee.Pkg == st.Fn.Pkg && callee.Blocks != nil {
					if s := ip.Summarize(callee); s != nil {
						for _, o := range s.Outcomes {
							for k := range o.Mem {
								if strings.HasPrefix(k, "$") {
									if i := strings.LastIndexByte(k, '.'); i >= 0 {
										fields[k[i+1:]] = true
									}
								}
							}
						}
					}
				}
			}
		}
	}
	cur := map[string]lin.Form{}
	for k, v := range st.mem {
		last := k
		if i := strings.LastIndexByte(k, '.'); i >= 0 {
			last = k[i+1:]
		}
		if last == "#bits" {
			if anyCall {
				s := k[:len(k)-6] + "#bits@" + h.String()
				ip.SetBounds(s, 0, lin.PosInf)
				if v.K == KInt {
					st.Facts = append(st.Facts, lin.Fact{F: lin.Sym(s).Sub(v.F)})
				}
				st.mem[k] = IntVal(lin.Sym(s))
			}
			continue
		}
		if last == "#cur" {
			if iterTouched {
				s := k[:len(k)-5] + "#cur@" + h.String()
				ip.SetBounds(s, 0, lin.PosInf)
				st.mem[k] = IntVal(lin.Sym(s))
				cur[k[:len(k)-5]] = lin.Sym(s)
				// assume-guarantee with P4: a loop whose every iteration advances the cursor (checked at
				// each back edge) never has a header cursor below the cursor at first entry
				if v.K == KInt {
					st.Facts = append(st.Facts, lin.Fact{F: lin.Sym(s).Sub(v.F)})
				}
			} else if v.K == KInt {
				cur[k[:len(k)-5]] = v.F
			}
			continue
		}
		if fields[last] || (fields["[]"] && strings.HasPrefix(last, "[")) {
			st.mem[k] = Val{K: KUnknown, Sym: k + "@" + h.String()}
		}
	}
	st.loops[h] = cur
	mk := map[string]int{}
	for k, v := range st.marks {
		mk[k] = v
	}
	st.loopMk[h] = mk
	st.pending = map[string]pendingAdv{}
}

// loopAcc accumulates what all back edges of a loop have in common (shared between the paths of a loop).
type loopAcc struct {
	n     int
	marks map[string]bool
}

func cloneBoolMap(m map[*ssa.BasicBlock]bool) map[*ssa.BasicBlock]bool {
	n := make(map[*ssa.BasicBlock]bool, len(m)+1)
	for k, v := range m {
		n[k] = v
	}
	return n
}

func cloneAccMap(m map[*ssa.BasicBlock]*loopAcc) map[*ssa.BasicBlock]*loopAcc {
	n := make(map[*ssa.BasicBlock]*loopAcc, len(m)+1)
	for k, v := range m {
		n[k] = v
	}
	return n
}

// enterLoopExact snapshots cursors and marks at the first entry of a loop (no havoc).
func (st *State) enterLoopExact(h *ssa.BasicBlock) {
	cur := map[string]lin.Form{}
	for k, v := range st.mem {
		if strings.HasSuffix(k, ".#cur") && v.K == KInt {
			cur[k[:len(k)-5]] = v.F
		}
	}
	st.loops[h] = cur
	mk := map[string]int{}
	for k, v := range st.marks {
		mk[k] = v
	}
	st.loopMk[h] = mk
}

// noteBackEdge records what this back edge established since the header was entered, and checks
// the candidate invariants assumed at the header.
func (st *State) noteBackEdge(h, from *ssa.BasicBlock) {
	if acc := st.acc[h]; acc != nil {
		since := map[string]bool{}
		for k, v := range st.marks {
			if k != "#seq" && v > st.loopMk[h]["#seq"] {
				since[k] = true
			}
		}
		if acc.n == 0 {
			acc.marks = since
		} else {
			for k := range acc.marks {
				if !since[k] {
					delete(acc.marks, k)
				}
			}
		}
		acc.n++
	}
	// candidate invariants: len(phi) == 0 must be re-established by the incoming value
	idx := -1
	for i, p := range h.Preds {
		if p == from {
			idx = i
		}
	}
	for _, phi := range st.ip.candidates[h] {
		v := st.eval(phi.Edges[idx])
		switch v.K {
		case KSlice:
			if !st.Prove(v.S.Len.Scale(-1)) {
				st.ip.candFailed[h] = true
			}
		case KErr:
			// validated statically (nilOnBackEdges)
		default:
			st.ip.candFailed[h] = true
		}
	}
}

// runHeader executes the header block of a loop: exact phis (phase A) or havocked phis (phase B).
func (st *State) runHeader(s2 *State, b, from *ssa.BasicBlock, li *loopInfo, exact bool, runFrom func(*State, *ssa.BasicBlock, int)) {
	ip := s2.ip
	f := b.Parent()
	idx := -1
	for i, p := range b.Preds {
		if p == from {
			idx = i
		}
	}
	var phiVals []Val
	var phis []*ssa.Phi
	for _, in := range b.Instrs {
		phi, ok := in.(*ssa.Phi)
		if !ok {
			break
		}
		phis = append(phis, phi)
		if exact {
			ev := s2.eval(phi.Edges[idx])
			phiVals = append(phiVals, ev)
			// candidate invariant for phase B: a slice that is empty on entry stays empty at the header
			if ev.K == KErr && ev.ErrNil == Yes && nilOnBackEdges(phi, b) {
				ip.addCandidate(b, phi)
			}
			if ev.K == KSlice && ev.S.Len.IsConst() && ev.S.Len.C == 0 {
				if _, isSl := phi.Type().Underlying().(*types.Slice); isSl && emptyOnBackEdges(phi, b) {
					ip.addCandidate(b, phi)
				}
			}
			continue
		}
		name := s2.pfx + "%" + f.Name() + ":" + phi.Name() + "@" + b.String()
		v := ip.symbolic(phi.Type(), name, s2)
		if v.K == KInt {
			if lb, ok := staticLowerBound(phi, map[ssa.Value]bool{}); ok {
				lo, hi, _ := intBounds(phi.Type(), ip.sizes())
				if lb > lo {
					lo = lb
				}
				ip.SetBounds(name, lo, hi)
			}
		}
		if v.K == KErr && ip.isCandidate(b, phi) {
			v = Val{K: KErr, ErrNil: Yes}
		}
		if v.K == KSlice && ip.isCandidate(b, phi) {
			v = Val{K: KSlice, S: &SliceV{ID: name, Len: lin.Const(0), Cap: v.S.Cap, IsNil: Maybe}}
		}
		phiVals = append(phiVals, v)
	}
	for i, phi := range phis {
		s2.vals[phi] = phiVals[i]
	}
	runFrom(s2, b, 0)
}

// emptyOnBackEdges: every back edge into h carries, for phi, a value v and is only taken under a
// dominating test that len(v) is zero — so "phi is empty at the header" is inductive by construction.
func emptyOnBackEdges(phi *ssa.Phi, h *ssa.BasicBlock) bool {
	any := false
	for i, p := range h.Preds {
		if !h.Dominates(p) {
			continue
		}
		any = true
		v := phi.Edges[i]
		ok := false
		for _, e := range ssau.DominatingEdges(p) {
			b, isB := e.If.Cond.(*ssa.BinOp)
			if !isB {
				continue
			}
			isLenOf := func(x ssa.Value) bool {
				c, ok := x.(*ssa.Call)
				if !ok {
					return false
				}
				bi, ok := c.Call.Value.(*ssa.Builtin)
				return ok && bi.Name() == "len" && c.Call.Args[0] == v
			}
			k, isK := ssau.ConstInt(b.Y)
			if !isLenOf(b.X) || !isK {
				continue
			}
			switch {
			case b.Op == token.GTR && k == 0 && e.Succ == 1,
				b.Op == token.NEQ && k == 0 && e.Succ == 1,
				b.Op == token.EQL && k == 0 && e.Succ == 0,
				b.Op == token.LSS && k == 1 && e.Succ == 0,
				b.Op == token.GEQ && k == 1 && e.Succ == 1:
				ok = true
			}
		}
		if !ok {
			return false
		}
	}
	return any
}

// nilOnBackEdges: on every back edge into h the value carried for the error phi is nil, because each
// definition that can reach the edge was nil-checked (the non-nil branch leaves the loop's path).
func nilOnBackEdges(phi *ssa.Phi, h *ssa.BasicBlock) bool {
	any := false
	for i, p := range h.Preds {
		if !h.Dominates(p) {
			continue
		}
		any = true
		if !nilOnArrival(phi.Edges[i], p, phi, map[ssa.Value]bool{}) {
			return false
		}
	}
	return any
}

func nilOnArrival(v ssa.Value, at *ssa.BasicBlock, hdrPhi *ssa.Phi, seen map[ssa.Value]bool) bool {
	if v == ssa.Value(hdrPhi) || ssau.IsNilConst(v) {
		return true
	}
	for _, e := range ssau.DominatingEdges(at) {
		nc, ok := ssau.AsNilCompare(e.If.Cond)
		if !ok || nc.X != v {
			continue
		}
		nilSucc := 0
		if nc.Ne {
			nilSucc = 1
		}
		if e.Succ == nilSucc {
			return true
		}
	}
	if ph, ok := v.(*ssa.Phi); ok {
		if seen[ph] {
			return true
		}
		seen[ph] = true
		for i, e := range ph.Edges {
			if !nilOnArrival(e, ph.Block().Preds[i], hdrPhi, seen) {
				return false
			}
		}
		return true
	}
	return false
}

// LoopEntryCursor returns the cursor symbol an iterator had at the loop header on this path.
func (st *State) LoopEntryCursor(h *ssa.BasicBlock, it string) (lin.Form, bool) {
	m, ok := st.loops[h]
	if !ok {
		return lin.Form{}, false
	}
	f, ok := m[it]
	return f, ok
}

// LoopIters lists the iterators known at a loop header.
func (st *State) LoopIters(h *ssa.BasicBlock) []string {
	var out []string
	for k := range st.loops[h] {
		out = append(out, k)
	}
	sort.Strings(out)
	return out
}

// pending cursor advances: a fetch advances the cursor only when its error is nil.
func (st *State) applyPending(c *Cond) {}

func (st *State) edgePending(c *Cond, tv bool) {
	// a condition `nil:<errsym>` decides pending advances
	var key string
	var isNil bool
	switch {
	case c.Op == CPred && strings.HasPrefix(c.Key, "nil:"):
		key, isNil = c.Key[4:], tv
	case c.Op == CNot && c.X.Op == CPred && strings.HasPrefix(c.X.Key, "nil:"):
		key, isNil = c.X.Key[4:], !tv
	default:
		return
	}
	p, ok := st.pending[key]
	if !ok {
		return
	}
	delete(st.pending, key)
	if st.ip.TrackBits {
		// the fetch succeeds iff the bytes are there
		cv, ok1 := st.mem[p.it+".#cur"]
		lv, ok2 := st.mem[p.it+".#len"]
		if ok1 && ok2 && cv.K == KInt && lv.K == KInt {
			room := lv.F.Sub(cv.F).Sub(p.adv)
			if isNil {
				st.Facts = append(st.Facts, lin.Fact{F: room})
			} else {
				st.Facts = append(st.Facts, lin.Fact{F: room.Scale(-1).AddC(-1)})
			}
		}
	}
	if isNil {
		if cv, ok := st.mem[p.it+".#cur"]; ok && cv.K == KInt {
			st.mem[p.it+".#cur"] = IntVal(cv.F.Add(p.adv))
		}
	}
}

// makeOutcome snapshots the externally visible part of the state at a return.
func (st *State) makeOutcome(f *ssa.Function, res []Val) *Outcome {
	o := &Outcome{Results: res, Mem: map[string]Val{}, Preds: map[string]bool{}, Marks: map[string]bool{}}
	for k, v := range st.marks {
		if v > 0 && k != "#seq" {
			o.Marks[k] = true
		}
	}
	ei := ssau.ErrorResultIndex(f.Signature)
	if ei >= 0 && ei < len(res) {
		if res[ei].K == KUnknown && res[ei].Sym != "" {
			res[ei] = Val{K: KErr, Sym: res[ei].Sym}
		}
		if res[ei].K == KErr {
			o.ErrNil = res[ei].ErrNil
			if o.ErrNil == Maybe && res[ei].Sym != "" {
				if isNil, ok := st.Preds["nil:"+res[ei].Sym]; ok {
					if isNil {
						o.ErrNil = Yes
					} else {
						o.ErrNil = No
					}
					res[ei].ErrNil = o.ErrNil
				}
			}
		}
	} else {
		o.ErrNil = Yes
	}
	// unresolved pending advances at return: the error was returned unchecked; the advance happened iff err == nil
	for k, p := range st.pending {
		if ei >= 0 && res[ei].K == KErr && res[ei].Sym == k && o.ErrNil != No {
			if cv, ok := st.mem[p.it+".#cur"]; ok && cv.K == KInt {
				st.mem[p.it+".#cur"] = IntVal(cv.F.Add(p.adv))
			}
		}
	}
	// visible objects: parameter-rooted ($...) and objects reachable from results
	visible := map[string]bool{}
	var reach func(v Val)
	reach = func(v Val) {
		switch v.K {
		case KPtr:
			if v.O != nil && !visible[v.O.ID] {
				visible[v.O.ID] = true
				for k, mv := range st.mem {
					if strings.HasPrefix(k, v.O.ID+".") {
						reach(mv)
					}
				}
			}
		case KStruct:
			for _, fv := range v.Fields {
				reach(fv)
			}
		case KTuple:
			for _, tv := range v.Tup {
				reach(tv)
			}
		case KSlice:
			if v.S != nil {
				for _, ev := range v.S.Elems {
					reach(ev)
				}
			}
		}
	}
	for _, r := range res {
		reach(r)
	}
	for k, v := range st.mem {
		root := k
		if i := strings.IndexByte(k, '.'); i >= 0 {
			root = k[:i]
		}
		if strings.HasPrefix(root, "$") || visible[root] {
			if strings.HasPrefix(root, "$") && isDefaultCell(k, v) {
				continue // only read, never written: the caller's own view of the cell stays valid
			}
			o.Mem[k] = v
		}
	}
	// facts and predicates that speak only about visible symbols
	vis := func(sym string) bool {
		if st.ip.TrackBits {
			return true // layouts need the whole path condition (conditions on fetched bits)
		}
		if strings.HasPrefix(sym, "$") || strings.HasPrefix(sym, "len($") || strings.HasPrefix(sym, "cap($") {
			return true
		}
		return false
	}
	symsOf := map[string]bool{}
	var collect func(v Val)
	collect = func(v Val) {
		switch v.K {
		case KInt:
			for _, s := range v.F.Syms() {
				symsOf[s] = true
			}
		case KSlice:
			for _, s := range v.S.Len.Syms() {
				symsOf[s] = true
			}
		case KStruct:
			for _, fv := range v.Fields {
				collect(fv)
			}
		case KTuple:
			for _, tv := range v.Tup {
				collect(tv)
			}
		}
	}
	for _, r := range res {
		collect(r)
	}
	for _, v := range o.Mem {
		collect(v)
	}
	for _, ft := range st.Facts {
		ok := true
		for _, s := range ft.F.Syms() {
			if !vis(s) && !symsOf[s] {
				ok = false
			}
		}
		if ok && len(ft.F.T) > 0 {
			o.Facts = append(o.Facts, ft)
		}
	}
	for _, ne := range st.NE {
		ok := true
		for _, s := range ne.Syms() {
			if !vis(s) && !symsOf[s] {
				ok = false
			}
		}
		if ok {
			o.NE = append(o.NE, ne)
		}
	}
	o.Events = append([]Event{}, st.Events...)
	if st.ip.TrackBits {
		o.Defs = st.Defs
		st.defsOwned = false
	}
	o.ParamConds = map[string]bool{}
	for k, v := range st.Preds {
		if (strings.HasPrefix(k, "$") || strings.HasPrefix(k, "nil:$") || strings.HasPrefix(k, "isa:$")) && !strings.Contains(k, "~") {
			o.ParamConds[k] = v
		}
		if strings.HasPrefix(k, "pure:") {
			ok := true
			for _, f := range st.ip.pureKeyForms(k) {
				for _, s := range f.Syms() {
					if !vis(s) && !symsOf[s] {
						ok = false
					}
				}
			}
			if ok {
				o.Preds[k] = v
			}
		}
	}
	o.key = outcomeKey(o, st)
	return o
}

// isDefaultCell: the value is exactly the symbolic default a load of that cell produces.
func isDefaultCell(k string, v Val) bool {
	switch v.K {
	case KInt:
		return v.F.Equal(lin.Sym(k))
	case KBool:
		return v.B != nil && v.B.Op == CPred && v.B.Key == k
	case KPtr:
		return v.O != nil && v.Sym == "" && v.O.ID == strings.ReplaceAll(k, ".", "/")
	case KSlice:
		return v.S.ID == k && v.S.Len.Equal(lin.Sym("len("+k+")"))
	case KErr, KUnknown:
		return v.Sym == k
	case KStruct:
		for p, fv := range v.Fields {
			if !isDefaultCell(k+"."+p, fv) {
				return false
			}
		}
		return true
	}
	return false
}

func outcomeKey(o *Outcome, st *State) string {
	var sb strings.Builder
	fmt.Fprintf(&sb, "err=%d|", o.ErrNil)
	for _, r := range o.Results {
		switch r.K {
		case KInt, KBool:
			sb.WriteString(r.String())
		case KPtr:
			sb.WriteString("ptr")
		case KNilPtr:
			sb.WriteString("nil")
		case KErr:
			// errors of different classes are never joined: clients exempt sentinels and reader failures by symbol
			sb.WriteString(fmt.Sprint(r.K))
			switch {
			case strings.Contains(r.Sym, "ioerr:"):
				sb.WriteString(":ioerr")
			case strings.Contains(r.Sym, "@"):
				sb.WriteString(":" + r.Sym[strings.Index(r.Sym, "@"):])
			}
		case KSlice:
			if r.S.Len.IsConst() {
				fmt.Fprintf(&sb, "slice[%d]", r.S.Len.C)
			} else {
				sb.WriteString("slice")
			}
		default:
			sb.WriteString(fmt.Sprint(r.K))
		}
		sb.WriteString(",")
	}
	sb.WriteString("|")
	var ks []string
	for k, v := range o.Mem {
		if strings.HasSuffix(k, ".#cur") || strings.HasSuffix(k, ".#bits") {
			ks = append(ks, k+"="+v.String())
		}
	}
	sort.Strings(ks)
	sb.WriteString(strings.Join(ks, ";"))
	sb.WriteString("|")
	var ps []string
	for k, v := range o.Preds {
		ps = append(ps, fmt.Sprintf("%s=%v", k, v))
	}
	for k, v := range o.ParamConds {
		ps = append(ps, fmt.Sprintf("%s=%v", k, v))
	}
	sort.Strings(ps)
	sb.WriteString(strings.Join(ps, ";"))
	var ms []string
	for k := range o.Marks {
		ms = append(ms, k)
	}
	sort.Strings(ms)
	sb.WriteString("|" + strings.Join(ms, ","))
	if st.ip.KeyGuards {
		sb.WriteString("|")
		sb.WriteString(strings.Join(st.ip.canonConstraints(o.Facts, o.NE), "&"))
	}
	if st.ip.TrackBits {
		// layouts: outcomes that fetch or emit differently are different layouts
		sb.WriteString("|")
		for _, e := range o.Events {
			fmt.Fprintf(&sb, "%s@%s:%s:%s;", e.Kind, e.Off.String(), e.Width.String(), e.ID)
		}
	}
	return sb.String()
}

// joinOutcome merges b into a (same key): differing memory cells and facts are weakened.
func joinOutcome(a, b *Outcome, ip *Interp) {
	for k, av := range a.Mem {
		bv, ok := b.Mem[k]
		if !ok || !sameVal(av, bv) {
			if ok && av.K == KInt && bv.K == KInt {
				// integer cells: keep the weaker of the two lower bounds
				la, lb := factLowerBound(av.F, a.Facts, ip), factLowerBound(bv.F, b.Facts, ip)
				if lb < la {
					la = lb
				}
				name := ip.fresh("join")
				if la > lin.NegInf {
					ip.SetBounds(name, la, lin.PosInf)
				}
				a.Mem[k] = IntVal(lin.Sym(name))
				continue
			}
			a.Mem[k] = Val{K: KUnknown, Sym: ip.fresh("join")}
		}
	}
	for k := range b.Mem {
		if _, ok := a.Mem[k]; !ok {
			a.Mem[k] = Val{K: KUnknown, Sym: ip.fresh("join")}
		}
	}
	for i := range a.Results {
		if i < len(b.Results) && !sameVal(a.Results[i], b.Results[i]) {
			if a.Results[i].K == KPtr && b.Results[i].K == KPtr {
				continue // both non-nil pointers to objects whose cells were joined above
			}
			if a.Results[i].K == KErr && b.Results[i].K == KErr {
				e := Val{K: KErr, Sym: ip.fresh("joinerr")}
				if a.Results[i].ErrNil == b.Results[i].ErrNil {
					e.ErrNil = a.Results[i].ErrNil
				}
				a.Results[i] = e
				continue
			}
			a.Results[i] = Val{K: KUnknown, Sym: ip.fresh("join")}
		}
	}
	// keep only facts present in both
	var keep []lin.Fact
	for _, fa := range a.Facts {
		for _, fb := range b.Facts {
			if fa.F.Equal(fb.F) {
				keep = append(keep, fa)
				break
			}
		}
	}
	a.Facts = keep
	for k := range a.Marks {
		if !b.Marks[k] && !strings.HasPrefix(k, "may:") {
			delete(a.Marks, k)
		}
	}
	for k := range b.Marks {
		if strings.HasPrefix(k, "may:") {
			a.Marks[k] = true
		}
	}
	if eventsSig(a.Events) != eventsSig(b.Events) {
		a.Events = nil
	}
	for k, v := range a.ParamConds {
		if w, ok := b.ParamConds[k]; !ok || w != v {
			delete(a.ParamConds, k)
		}
	}
	var keepNE []lin.Form
	for _, fa := range a.NE {
		for _, fb := range b.NE {
			if fa.Equal(fb) {
				keepNE = append(keepNE, fa)
				break
			}
		}
	}
	a.NE = keepNE
}

// factLowerBound: the best constant k with f >= k provable from bounds and the given facts
// (candidates: the constants occurring in the facts, 0 and 1).
func factLowerBound(f lin.Form, facts []lin.Fact, ip *Interp) int64 {
	best := lin.LowerBound(f, ip)
	cands := map[int64]bool{0: true, 1: true}
	for _, ft := range facts {
		cands[-ft.F.C] = true
		cands[ft.F.C] = true
	}
	for k := range cands {
		for _, d := range []int64{0, 1, -1} {
			cands[k+d] = true
		}
	}
	for k := range cands {
		if k > best && lin.Prove(f.AddC(-k), ip, facts, 3) {
			best = k
		}
	}
	return best
}

func sameVal(a, b Val) bool {
	if a.K != b.K {
		return false
	}
	switch a.K {
	case KInt:
		return a.F.Equal(b.F)
	case KBool:
		return a.B.String() == b.B.String()
	case KPtr:
		return a.O.ID == b.O.ID && a.Sym == b.Sym
	case KNilPtr:
		return true
	case KSlice:
		return (a.S.ID == b.S.ID || a.S.Len.IsConst()) && a.S.Len.Equal(b.S.Len)
	case KErr:
		return a.ErrNil == b.ErrNil && (a.ErrNil == Yes || a.Sym == b.Sym)
	case KStruct:
		if len(a.Fields) != len(b.Fields) {
			return false
		}
		for k, v := range a.Fields {
			if w, ok := b.Fields[k]; !ok || !sameVal(v, w) {
				return false
			}
		}
		return true
	}
	return a.Sym == b.Sym
}

// widen collapses outcomes into one per error class; cursors become fresh symbols bounded below
// by the minimal advance.
func widen(outs []Outcome, ip *Interp, f *ssa.Function) []Outcome {
	groups := map[Tri]*Outcome{}
	minAdv := map[Tri]map[string]int64{}
	var order []Tri
	for i := range outs {
		o := outs[i]
		g, ok := groups[o.ErrNil]
		if !ok {
			cp := o
			cp.Mem = map[string]Val{}
			for k, v := range o.Mem {
				cp.Mem[k] = v
			}
			cp.Preds = map[string]bool{}
			cp.Marks = map[string]bool{}
			for k, v := range o.Marks {
				cp.Marks[k] = v
			}
			cp.ParamConds = map[string]bool{}
			groups[o.ErrNil] = &cp
			minAdv[o.ErrNil] = map[string]int64{}
			order = append(order, o.ErrNil)
			g = &cp
		} else {
			joinOutcome(g, &o, ip)
		}
		for k, v := range o.Mem {
			if strings.HasSuffix(k, ".#cur") && v.K == KInt && strings.HasPrefix(k, "$") {
				it := k[:len(k)-5]
				d := v.F.Sub(lin.Sym(it + "#cur"))
				lb := lin.LowerBound(d, ip)
				if lb <= lin.NegInf {
					for k := int64(8); k >= 0; k-- {
						if lin.Prove(d.AddC(-k), ip, o.Facts, 3) {
							lb = k
							break
						}
					}
				}
				if old, ok := minAdv[o.ErrNil][k]; !ok || lb < old {
					minAdv[o.ErrNil][k] = lb
				}
			}
		}
	}
	var res []Outcome
	for _, e := range order {
		g := groups[e]
		for k, lb := range minAdv[e] {
			it := k[:len(k)-5]
			s := ip.fresh(it + "#cur@ret")
			ip.SetBounds(s, 0, lin.PosInf)
			g.Mem[k] = IntVal(lin.Sym(s))
			if lb > lin.NegInf {
				g.Facts = append(g.Facts, lin.Fact{F: lin.Sym(s).Sub(lin.Sym(it + "#cur")).AddC(-lb)})
			}
		}
		if e != No {
			ip.widenCounts(g, outs, e)
		}
		g.key = fmt.Sprintf("widened:%d", e)
		res = append(res, *g)
	}
	return res
}

// widenCounts keeps, across widening, the relation "bits emitted to a parameter writer = 8 × returned
// count" when every merged outcome satisfies it: the count becomes a fresh non-negative symbol S and the
// writer's bit counter advances by 8·S.
func (ip *Interp) widenCounts(g *Outcome, outs []Outcome, e Tri) {
	for k := range g.Mem {
		if !strings.HasSuffix(k, ".#bits") || !strings.HasPrefix(k, "$") {
			continue
		}
		w := k[:len(k)-6]
		in := lin.Sym(w + "#bits")
		all, any := true, false
		for i := range outs {
			o := outs[i]
			if o.ErrNil != e {
				continue
			}
			any = true
			bv, ok := o.Mem[k]
			if !ok || bv.K != KInt || len(o.Results) == 0 || o.Results[0].K != KInt {
				all = false
				break
			}
			if !bv.F.Sub(in).Equal(o.Results[0].F.Scale(8)) {
				all = false
				break
			}
		}
		if !all || !any {
			continue
		}
		s := ip.fresh(w + "#count")
		ip.SetBounds(s, 0, lin.PosInf)
		g.Results[0] = IntVal(lin.Sym(s))
		g.Mem[k] = IntVal(in.Add(lin.Sym(s).Scale(8)))
	}
}

// FetchOracle supplies the abstract content of the bytes an iterator delivers.
type FetchOracle interface {
	// Byte returns the value of the byte at byte offset off of iterator it.
	Byte(st *State, it *Obj, off lin.Form, sym string) (Val, bool)
	// Bytes describes n bytes at offset off: a non-empty blob is the identity of a byte string that is exactly
	// there; known reports whether the position could be resolved at all.
	Bytes(st *State, it *Obj, off, n lin.Form) (blob string, known bool)
}

// Explore interprets f from a fresh entry state prepared by setup and calls onReturn at every return.
func (ip *Interp) Explore(f *ssa.Function, setup func(st *State), onReturn func(st *State, res []Val)) *Summary {
	sum := &Summary{Fn: f}
	st := &State{ip: ip, Fn: f, mem: map[string]Val{}, zero: map[string]bool{}, vals: map[ssa.Value]Val{}, Preds: map[string]bool{},
		pending: map[string]pendingAdv{}, loops: map[*ssa.BasicBlock]map[string]lin.Form{}, marks: map[string]int{}, loopMk: map[*ssa.BasicBlock]map[string]int{},
		phaseB: map[*ssa.BasicBlock]bool{}, inA: map[*ssa.BasicBlock]bool{}, acc: map[*ssa.BasicBlock]*loopAcc{}, reqs: &sum.Reqs}
	for _, p := range f.Params {
		st.eval(p)
	}
	if setup != nil {
		setup(st)
	}
	ip.explore(f, st, sum, func(es *State, x *ssa.Return, res []Val) { onReturn(es, res) })
	return sum
}

// Outcome snapshots a return state as an outcome (for clients of Explore).
func (st *State) Outcome(f *ssa.Function, res []Val) *Outcome { return st.makeOutcome(f, res) }

// Abort abandons the current path: nothing after the current instruction is interpreted.
func (st *State) Abort() { st.aborted = true }

type unrollFix struct {
	h     *ssa.BasicBlock
	bound ssa.Value
	n     int64
}

func (st *State) setExact(h *ssa.BasicBlock, n int) {
	m := make(map[*ssa.BasicBlock]int, len(st.exact)+1)
	for k, v := range st.exact {
		m[k] = v
	}
	m[h] = n
	st.exact = m
}

// BindParam sets the value of a parameter of f in an entry state (clients of Explore).
func (st *State) BindParam(f *ssa.Function, name string, v Val) bool {
	for _, p := range f.Params {
		if p.Name() == name {
			st.vals[p] = v
			return true
		}
	}
	return false
}
