// Package demuxrules is the demux half of engine D (state, ownership and ordering rules S1–S7) for the
// properties C02, C06, C07 and C19. Everything here works on the type-checked program: go/ssa
// (dominators, def-use, static callees), never on source text; source expressions are rendered for
// the human-readable part of a report only.
package demuxrules

import (
	"go/ast"
	"go/constant"
	"go/token"
	"go/types"
	"sort"
	"strings"

	"golang.org/x/tools/go/ssa"

	"astverif/load"
	"astverif/report"
	"astverif/ssau"
)

// A is the analysis context of one property run.
type A struct {
	P     *load.Program
	R     *report.Report
	funcs []*ssa.Function
}

// New creates the context.
func New(p *load.Program, r *report.Report) *A {
	return &A{P: p, R: r, funcs: p.SrcFuncs()}
}

// anchor resolves a function by declaration key; a lost anchor is an undecided obligation.
func (a *A) anchor(rule, key string) *ssa.Function {
	f := a.P.Func(key)
	if f == nil || f.Blocks == nil {
		a.R.Unknown(rule, "anchor/"+key, "-", "anchor function "+key+" no longer resolves: every obligation that needs it is undecided")
		return nil
	}
	return f
}

func (a *A) pos(p token.Pos) string { return a.P.Pos(p) }

func (a *A) ipos(in ssa.Instruction) string {
	if in == nil {
		return "-"
	}
	if p := in.Pos(); p.IsValid() {
		return a.P.Pos(p)
	}
	if iff, ok := in.(*ssa.If); ok && iff.Cond.Pos().IsValid() {
		return a.P.Pos(iff.Cond.Pos())
	}
	// fall back to the first positioned instruction of the block, then to the function
	for _, x := range in.Block().Instrs {
		if x.Pos().IsValid() {
			return a.P.Pos(x.Pos())
		}
	}
	return a.P.Pos(in.Parent().Pos())
}

func (a *A) fpos(f *ssa.Function) string { return a.P.Pos(f.Pos()) }

// short is the short display name of a function: "(*T).m" / "f".
func short(f *ssa.Function) string { return load.FuncName(f) }

// bare is the name used in obligation keys: method or function name without receiver.
func bare(f *ssa.Function) string {
	if f == nil {
		return "<nil>"
	}
	if f.Parent() != nil {
		return bare(f.Parent()) + "$" + strings.TrimPrefix(f.Name(), f.Parent().Name()+"$")
	}
	return f.Name()
}

// ---------------------------------------------------------------------------------------------
// instructions, blocks, reachability

func lastInstr(b *ssa.BasicBlock) ssa.Instruction {
	if len(b.Instrs) == 0 {
		return nil
	}
	return b.Instrs[len(b.Instrs)-1]
}

func blockIf(b *ssa.BasicBlock) *ssa.If {
	iff, _ := lastInstr(b).(*ssa.If)
	return iff
}

func blockReturn(b *ssa.BasicBlock) *ssa.Return {
	r, _ := lastInstr(b).(*ssa.Return)
	return r
}

// inCycle reports whether block b can be executed twice in one activation.
func inCycle(b *ssa.BasicBlock) bool {
	for _, s := range b.Succs {
		if ssau.Reaches(s, b) {
			return true
		}
	}
	return false
}

// canFollow reports whether instruction y can execute strictly after instruction x.
func canFollow(x, y ssa.Instruction) bool {
	if x.Block() == y.Block() {
		if ssau.IndexOf(x) < ssau.IndexOf(y) {
			return true
		}
		return inCycle(x.Block())
	}
	for _, s := range x.Block().Succs {
		if ssau.Reaches(s, y.Block()) {
			return true
		}
	}
	return false
}

// reachableFrom lists the blocks reachable from start (start included) without entering a block of stop.
func reachableFrom(start *ssa.BasicBlock, stop map[*ssa.BasicBlock]bool) map[*ssa.BasicBlock]bool {
	seen := map[*ssa.BasicBlock]bool{}
	if stop[start] {
		return seen
	}
	st := []*ssa.BasicBlock{start}
	for len(st) > 0 {
		b := st[len(st)-1]
		st = st[:len(st)-1]
		if seen[b] || stop[b] {
			continue
		}
		seen[b] = true
		st = append(st, b.Succs...)
	}
	return seen
}

// reachingBackward lists the blocks from which target is reachable (target included) without passing a stop block.
func reachingBackward(target *ssa.BasicBlock, stop map[*ssa.BasicBlock]bool) map[*ssa.BasicBlock]bool {
	seen := map[*ssa.BasicBlock]bool{}
	st := []*ssa.BasicBlock{target}
	for len(st) > 0 {
		b := st[len(st)-1]
		st = st[:len(st)-1]
		if seen[b] || (stop[b] && b != target) {
			continue
		}
		seen[b] = true
		st = append(st, b.Preds...)
	}
	return seen
}

// escapesWithout reports the first block satisfying bad that is reachable from start without entering
// a block of via (nil when every path from start to a bad block passes through via).
func escapesWithout(start *ssa.BasicBlock, via map[*ssa.BasicBlock]bool, bad func(b *ssa.BasicBlock) bool) *ssa.BasicBlock {
	for b := range reachableFrom(start, via) {
		if bad(b) {
			return b
		}
	}
	return nil
}

func isExit(b *ssa.BasicBlock) bool { return len(b.Succs) == 0 }

// edgeBlock returns the successor of iff taken when its condition evaluates to val, and whether that
// block is entered only through this edge (so that "dominated by the block" = "passes the edge").
func edgeBlock(iff *ssa.If, val bool) (b *ssa.BasicBlock, exclusive bool) {
	blk := iff.Block()
	i := 1
	if val {
		i = 0
	}
	b = blk.Succs[i]
	return b, len(b.Preds) == 1 && blk.Succs[0] != blk.Succs[1]
}

// stripNot removes leading boolean negations.
func stripNot(v ssa.Value) (ssa.Value, bool) {
	neg := false
	for {
		if b, ok := v.(*ssa.BinOp); ok && (b.Op == token.EQL || b.Op == token.NEQ) {
			// x == true, x != false, x == false, x != true
			if c, isC := ssau.ConstBool(b.Y); isC {
				v = b.X
				neg = neg != (c != (b.Op == token.EQL))
				continue
			}
			if c, isC := ssau.ConstBool(b.X); isC {
				v = b.Y
				neg = neg != (c != (b.Op == token.EQL))
				continue
			}
		}
		u, ok := v.(*ssa.UnOp)
		if !ok || u.Op != token.NOT {
			return v, neg
		}
		v = u.X
		neg = !neg
	}
}

// ifsOn lists the If instructions of f whose condition (modulo negation) satisfies pred; neg tells
// whether the If's condition is the negation of the matched value.
type condIf struct {
	If  *ssa.If
	Neg bool
	V   ssa.Value
}

// when returns the successor taken when the matched value V has truth value val.
func (c condIf) when(val bool) (*ssa.BasicBlock, bool) { return edgeBlock(c.If, val != c.Neg) }

func ifsOn(f *ssa.Function, pred func(v ssa.Value) bool) []condIf {
	var out []condIf
	for _, b := range f.Blocks {
		iff := blockIf(b)
		if iff == nil {
			continue
		}
		v, neg := stripNot(iff.Cond)
		if pred(v) {
			out = append(out, condIf{iff, neg, v})
		}
	}
	return out
}

// lenTest recognises a comparison of len(x) with a constant that separates "empty" from "non-empty":
// it returns x and the truth value of the comparison for an empty x.
func lenTest(v ssa.Value) (x ssa.Value, trueWhenEmpty bool, ok bool) {
	b, isB := v.(*ssa.BinOp)
	if !isB {
		return nil, false, false
	}
	lenArg := func(v ssa.Value) ssa.Value {
		c, ok := v.(*ssa.Call)
		if !ok {
			return nil
		}
		if bi, ok := c.Call.Value.(*ssa.Builtin); ok && bi.Name() == "len" && len(c.Call.Args) == 1 {
			return c.Call.Args[0]
		}
		return nil
	}
	op := b.Op
	var k int64
	if a := lenArg(b.X); a != nil {
		c, okc := ssau.ConstInt(b.Y)
		if !okc {
			return nil, false, false
		}
		x, k = a, c
	} else if a := lenArg(b.Y); a != nil {
		c, okc := ssau.ConstInt(b.X)
		if !okc {
			return nil, false, false
		}
		x, k = a, c
		switch op {
		case token.LSS:
			op = token.GTR
		case token.GTR:
			op = token.LSS
		case token.LEQ:
			op = token.GEQ
		case token.GEQ:
			op = token.LEQ
		}
	} else {
		return nil, false, false
	}
	ev := func(n int64) bool {
		switch op {
		case token.EQL:
			return n == k
		case token.NEQ:
			return n != k
		case token.LSS:
			return n < k
		case token.LEQ:
			return n <= k
		case token.GTR:
			return n > k
		case token.GEQ:
			return n >= k
		}
		return false
	}
	switch op {
	case token.EQL, token.NEQ, token.LSS, token.LEQ, token.GTR, token.GEQ:
	default:
		return nil, false, false
	}
	t0, t1, tBig := ev(0), ev(1), ev(1<<40)
	if t1 != tBig || t0 == t1 {
		return nil, false, false
	}
	return x, t0, true
}

// fieldChain walks an address or value upwards through field selections (and loads of pointer
// fields) and returns the root value and the field names from the root down.
// p.Header.PID  ->  (p, [Header PID]);  *(&ps[0]).Header.PID -> (load of &ps[0], [Header PID]).
func fieldChain(v ssa.Value) (root ssa.Value, fields []string) {
	for {
		switch x := v.(type) {
		case *ssa.UnOp:
			if x.Op != token.MUL {
				return v, fields
			}
			switch y := x.X.(type) {
			case *ssa.FieldAddr:
				v = x.X
				continue
			case *ssa.UnOp:
				// dereference of a loaded pointer: **(&x.f)
				if y.Op == token.MUL {
					v = x.X
					continue
				}
			}
			return v, fields
		case *ssa.FieldAddr:
			n, _ := ssau.FieldName(x)
			fields = append([]string{n}, fields...)
			v = x.X
		case *ssa.Field:
			n, _ := ssau.FieldName(x)
			fields = append([]string{n}, fields...)
			v = x.X
		default:
			return v, fields
		}
	}
}

// isFieldLoad reports whether v is a load of root.f1.f2… for the given root.
func isFieldLoad(v ssa.Value, root ssa.Value, fields ...string) bool {
	u, ok := v.(*ssa.UnOp)
	if !ok || u.Op != token.MUL {
		if _, isF := v.(*ssa.Field); !isF {
			return false
		}
	}
	r, fs := fieldChain(v)
	if r != root || len(fs) != len(fields) {
		return false
	}
	for i := range fs {
		if fs[i] != fields[i] {
			return false
		}
	}
	return true
}

// fieldAddrOf reports whether addr is the address of field `field` of a struct of named type
// `typeName` (root package), and returns the base pointer.
func (a *A) fieldAddrOf(addr ssa.Value, typeName, field string) (base ssa.Value, ok bool) {
	fa, isFA := addr.(*ssa.FieldAddr)
	if !isFA {
		return nil, false
	}
	n, _ := ssau.FieldName(fa)
	if n != field {
		return nil, false
	}
	if !ssau.IsNamed(fa.X.Type(), load.RootPath, typeName) {
		return nil, false
	}
	return fa.X, true
}

// fieldLoadOf reports whether v loads field `field` of a struct of type typeName and returns the base.
func (a *A) fieldLoadOf(v ssa.Value, typeName, field string) (base ssa.Value, ok bool) {
	switch x := v.(type) {
	case *ssa.UnOp:
		if x.Op != token.MUL {
			return nil, false
		}
		return a.fieldAddrOf(x.X, typeName, field)
	case *ssa.Field:
		n, _ := ssau.FieldName(x)
		if n == field && ssau.IsNamed(x.X.Type(), load.RootPath, typeName) {
			return x.X, true
		}
	}
	return nil, false
}

// sameObject compares two base pointers: identical SSA values, or loads of the same access path.
func sameObject(x, y ssa.Value) bool {
	if x == y {
		return true
	}
	px, ok1 := ssau.AccessPath(x)
	py, ok2 := ssau.AccessPath(y)
	return ok1 && ok2 && px == py && px != ""
}

// ---------------------------------------------------------------------------------------------
// calls

func isBuiltin(c *ssa.CallCommon, name string) bool {
	b, ok := c.Value.(*ssa.Builtin)
	return ok && b.Name() == name
}

func callOf(v ssa.Value) *ssa.Call {
	c, _ := v.(*ssa.Call)
	return c
}

// callsTo lists the call instructions of f whose static callee is callee.
func callsTo(f, callee *ssa.Function) []ssa.CallInstruction {
	var out []ssa.CallInstruction
	for _, c := range ssau.Calls(f) {
		if c.Common().StaticCallee() == callee {
			out = append(out, c)
		}
	}
	return out
}

type site struct {
	In ssa.CallInstruction
	Fn *ssa.Function // enclosing function
}

// callSites lists all static call sites of callee in the package and all other references to it
// (function value taken, bound-method wrapper): the latter cannot be ordered and are undecided.
func (a *A) callSites(callee *ssa.Function) (sites []site, other []ssa.Instruction) {
	obj := callee.Object()
	for _, f := range a.funcs {
		for _, b := range f.Blocks {
			for _, in := range b.Instrs {
				if c, ok := in.(ssa.CallInstruction); ok && c.Common().StaticCallee() == callee {
					sites = append(sites, site{c, f})
					// the callee may also appear among the arguments
					for _, arg := range c.Common().Args {
						if fv, ok := arg.(*ssa.Function); ok && (fv == callee || obj != nil && fv.Object() == obj) {
							other = append(other, in)
						}
					}
					continue
				}
				for _, op := range in.Operands(nil) {
					if op == nil || *op == nil {
						continue
					}
					fv, ok := (*op).(*ssa.Function)
					if !ok {
						continue
					}
					if fv == callee || obj != nil && fv.Object() == obj {
						other = append(other, in)
					}
				}
			}
		}
	}
	return
}

// dynCallsOfType lists the dynamic calls whose callee value has the named function type typeName.
func (a *A) dynCallsOfType(typeName string) []site {
	var out []site
	for _, f := range a.funcs {
		for _, c := range ssau.Calls(f) {
			cc := c.Common()
			if cc.IsInvoke() || cc.StaticCallee() != nil {
				continue
			}
			if _, ok := cc.Value.(*ssa.Builtin); ok {
				continue
			}
			if ssau.IsNamed(cc.Value.Type(), load.RootPath, typeName) {
				out = append(out, site{c, f})
			}
		}
	}
	return out
}

// retypedValuesOf lists conversions of a value of the named type into another type (which would hide
// a later call from dynCallsOfType).
func (a *A) retypedValuesOf(typeName string) []ssa.Instruction {
	var out []ssa.Instruction
	for _, f := range a.funcs {
		for _, b := range f.Blocks {
			for _, in := range b.Instrs {
				switch x := in.(type) {
				case *ssa.ChangeType:
					if ssau.IsNamed(x.X.Type(), load.RootPath, typeName) && !ssau.IsNamed(x.Type(), load.RootPath, typeName) {
						out = append(out, in)
					}
				case *ssa.MakeInterface:
					if ssau.IsNamed(x.X.Type(), load.RootPath, typeName) {
						out = append(out, in)
					}
				}
			}
		}
	}
	return out
}

// extractOf returns the Extract #idx instructions of a tuple-valued call (or the call itself for a
// single result).
func extractOf(call ssa.Value, idx int) ssa.Value {
	vs := ssau.ResultValue(call, idx)
	if len(vs) == 0 {
		return nil
	}
	return vs[0]
}

// tupleSource returns (call, index) when v is `extract call #index` or a single-result call.
func tupleSource(v ssa.Value) (*ssa.Call, int) {
	switch x := v.(type) {
	case *ssa.Extract:
		if c, ok := x.Tuple.(*ssa.Call); ok {
			return c, x.Index
		}
	case *ssa.Call:
		return x, 0
	}
	return nil, 0
}

// varargOf returns the values of the variadic argument of an append-like call; ok=false if the slice
// is not a locally built vararg array.
func varargOf(v ssa.Value) ([]ssa.Value, bool) {
	sl, ok := v.(*ssa.Slice)
	if !ok || sl.Low != nil || sl.High != nil || sl.Max != nil {
		return nil, false
	}
	al, ok := sl.X.(*ssa.Alloc)
	if !ok || al.Comment != "varargs" {
		return nil, false
	}
	return ssau.VarargValues(v)
}

// ---------------------------------------------------------------------------------------------
// slices of known length 0

// freshEmpty: make(T, 0, n) — MakeSlice with constant length 0, or Slice(new [n]T (makeslice))[:0].
func freshEmpty(v ssa.Value) bool {
	switch x := v.(type) {
	case *ssa.MakeSlice:
		n, ok := ssau.ConstInt(x.Len)
		return ok && n == 0
	case *ssa.Slice:
		al, ok := x.X.(*ssa.Alloc)
		if !ok || (al.Comment != "makeslice" && al.Comment != "slicelit") {
			return false
		}
		if al.Comment == "slicelit" {
			// a literal is empty only if its array type has length 0
			if arr, ok := al.Type().Underlying().(*types.Pointer).Elem().Underlying().(*types.Array); !ok || arr.Len() != 0 {
				return false
			}
			return true
		}
		return sliceHighZero(x)
	}
	return false
}

func sliceHighZero(x *ssa.Slice) bool {
	if x.High == nil {
		return false
	}
	n, ok := ssau.ConstInt(x.High)
	if !ok || n != 0 {
		return false
	}
	if x.Low != nil {
		if l, ok := ssau.ConstInt(x.Low); !ok || l != 0 {
			return false
		}
	}
	return true
}

// lenZero: a slice value whose length is 0 whatever its operand holds.
func lenZero(v ssa.Value) bool {
	if ssau.IsNilConst(v) || freshEmpty(v) {
		return true
	}
	if s, ok := v.(*ssa.Slice); ok {
		return sliceHighZero(s)
	}
	return false
}

// ---------------------------------------------------------------------------------------------
// path-restricted value resolution

// pathVals resolves v, as used in block use, into the leaf values it may hold on the CFG paths that
// pass through block from (and, when last != nil, enter use through the edge last→use). Phi edges
// and reaching stores of spilled locals (named results of functions with defer) are restricted to
// those paths; the result is finally expanded by ssau.Leaves. A nil entry stands for the zero value
// of a local that was never assigned on the path.
func pathVals(v ssa.Value, use, last, from *ssa.BasicBlock) []ssa.Value {
	return pathValsX(v, use, last, from, true)
}

// pathValsRaw is pathVals without the final expansion: values defined before the path starts (phis in
// or above from, loads) are returned as they are.
func pathValsRaw(v ssa.Value, use, last, from *ssa.BasicBlock) []ssa.Value {
	return pathValsX(v, use, last, from, false)
}

func pathValsX(v ssa.Value, use, last, from *ssa.BasicBlock, expand bool) []ssa.Value {
	var raw []ssa.Value
	zero := false
	seenV := map[ssa.Value]bool{}
	onPath := func(b *ssa.BasicBlock) bool { return b == from || ssau.Reaches(from, b) }
	var resolve func(v ssa.Value, use, last *ssa.BasicBlock)
	resolve = func(v ssa.Value, use, last *ssa.BasicBlock) {
		if v == nil {
			return
		}
		switch x := v.(type) {
		case *ssa.Phi:
			if seenV[x] {
				return
			}
			seenV[x] = true
			B := x.Block()
			if B == from || !ssau.Reaches(from, B) {
				raw = append(raw, x)
				return
			}
			for i, e := range x.Edges {
				p := B.Preds[i]
				if B == use && last != nil && p != last {
					continue
				}
				if !onPath(p) {
					continue
				}
				resolve(e, p, nil)
			}
			return
		case *ssa.ChangeType:
			resolve(x.X, use, last)
			return
		case *ssa.ChangeInterface:
			resolve(x.X, use, last)
			return
		case *ssa.UnOp:
			if x.Op == token.MUL {
				if al, ok := x.X.(*ssa.Alloc); ok && ssau.SpillSlot(al) {
					if seenV[x] {
						return
					}
					seenV[x] = true
					seenB := map[*ssa.BasicBlock]bool{}
					var walk func(b *ssa.BasicBlock, idx int, only *ssa.BasicBlock)
					walk = func(b *ssa.BasicBlock, idx int, only *ssa.BasicBlock) {
						for i := idx; i >= 0; i-- {
							if st, ok := b.Instrs[i].(*ssa.Store); ok && st.Addr == al {
								resolve(st.Val, b, nil)
								return
							}
							if b.Instrs[i] == ssa.Instruction(al) {
								zero = true
								return
							}
						}
						if b == from {
							// content of the slot on entry to from: unrestricted
							if len(from.Instrs) > 0 {
								vals, z := ssau.ReachingStores(al, from.Instrs[0])
								raw = append(raw, vals...)
								if z {
									zero = true
								}
							}
							return
						}
						for _, p := range b.Preds {
							if only != nil && p != only {
								continue
							}
							if !onPath(p) || seenB[p] {
								continue
							}
							seenB[p] = true
							walk(p, len(p.Instrs)-1, nil)
						}
					}
					lb := x.Block()
					var only *ssa.BasicBlock
					if lb == use {
						only = last
					}
					walk(lb, ssau.IndexOf(x)-1, only)
					return
				}
			}
		}
		raw = append(raw, v)
	}
	resolve(v, use, last)
	var out []ssa.Value
	seen := map[ssa.Value]bool{}
	for _, r := range raw {
		ls := []ssa.Value{r}
		if expand {
			ls = ssau.Leaves(r)
		}
		for _, l := range ls {
			if l == nil {
				zero = true
				continue
			}
			if !seen[l] {
				seen[l] = true
				out = append(out, l)
			}
		}
	}
	if zero {
		out = append(out, nil)
	}
	return out
}

func containsVal(vs []ssa.Value, v ssa.Value) bool {
	for _, x := range vs {
		if x == v {
			return true
		}
	}
	return false
}

// ---------------------------------------------------------------------------------------------
// labels for humans and keys

// exprAt returns the source expression of the smallest expression node that starts/contains pos and
// has one of the wanted kinds (used only to print conditions).
func (a *A) condText(v ssa.Value) string {
	var pos token.Pos
	switch x := v.(type) {
	case *ssa.BinOp:
		pos = x.Pos() // position of the operator
	case *ssa.Call:
		pos = x.Pos() // position of the left parenthesis
	case *ssa.UnOp:
		pos = x.Pos()
	case *ssa.Extract:
		return v.Name()
	}
	if !pos.IsValid() {
		return v.String()
	}
	var best ast.Expr
	for _, f := range a.P.Files {
		if f.Pos() > pos || pos > f.End() {
			continue
		}
		ast.Inspect(f, func(n ast.Node) bool {
			if n == nil || n.Pos() > pos || pos >= n.End() {
				return n == nil || false
			}
			switch e := n.(type) {
			case *ast.BinaryExpr:
				if e.OpPos == pos {
					best = e
				}
			case *ast.CallExpr:
				if e.Lparen == pos {
					best = e
				}
			case *ast.SelectorExpr:
				if e.Sel.Pos() == pos || e.Pos() == pos {
					if best == nil {
						best = e
					}
				}
			case *ast.StarExpr:
				if e.Pos() == pos && best == nil {
					best = e
				}
			}
			return true
		})
	}
	if best == nil {
		return v.String()
	}
	return types.ExprString(best)
}

// branchLabel names the conditional edge that leads to block b: the innermost dominating edge whose
// condition is not an error/nil check. Well-known conditions get short semantic names.
func (a *A) branchLabel(b *ssa.BasicBlock, skip func(iff *ssa.If) bool) string {
	type e struct {
		iff  *ssa.If
		succ int
	}
	var edges []e
	for _, de := range ssau.DominatingEdges(b) {
		edges = append(edges, e{de.If, de.Succ})
	}
	for _, ed := range edges {
		if skip != nil && skip(ed.iff) {
			continue
		}
		if _, isNil := ssau.AsNilCompare(ed.iff.Cond); isNil {
			continue
		}
		return a.edgeLabel(ed.iff, ed.succ == 0)
	}
	return "entry"
}

// edgeLabel names one edge of an If.
func (a *A) edgeLabel(iff *ssa.If, taken bool) string {
	v, neg := stripNot(iff.Cond)
	val := taken != neg
	// semantic names
	if c := callOf(v); c != nil {
		if f := c.Call.StaticCallee(); f != nil {
			switch f.Name() {
			case "isPESPayload":
				if val {
					return "PES"
				}
				return "unknown-payload"
			case "isPSIPayload":
				if val {
					return "PSI"
				}
				return "not-PSI"
			}
			if val {
				return f.Name()
			}
			return "not-" + f.Name()
		}
	}
	if b, ok := v.(*ssa.BinOp); ok && (b.Op == token.EQL || b.Op == token.NEQ) {
		for _, side := range []ssa.Value{b.X, b.Y} {
			if c, ok := side.(*ssa.Const); ok && c.Value != nil && c.Value.Kind() == constant.Int {
				if n := a.constName(c, "PID"); n != "" {
					eq := (b.Op == token.EQL) == val
					n = strings.TrimPrefix(n, "PID")
					if eq {
						return n
					}
					return "not-" + n
				}
			}
		}
	}
	t := a.condText(v)
	t = strings.NewReplacer(" ", "", "/", "÷").Replace(t)
	if !val {
		t = "!(" + t + ")"
	}
	return t
}

// constName finds a package-level constant with the given prefix whose value and type equal c's.
func (a *A) constName(c *ssa.Const, prefix string) string {
	var names []string
	sc := a.P.Types.Scope()
	for _, n := range sc.Names() {
		if !strings.HasPrefix(n, prefix) {
			continue
		}
		k, ok := sc.Lookup(n).(*types.Const)
		if !ok || !types.Identical(k.Type(), c.Type()) {
			continue
		}
		if constant.Compare(k.Val(), token.EQL, c.Value) {
			names = append(names, n)
		}
	}
	sort.Strings(names)
	if len(names) == 0 {
		return ""
	}
	return names[0]
}

// isErrCheckIf: the If tests an error value against nil.
func isErrCheckIf(iff *ssa.If) bool {
	nc, ok := ssau.AsNilCompare(iff.Cond)
	return ok && ssau.IsErrorType(nc.X.Type())
}

func valList(vs []ssa.Value) string {
	var s []string
	for _, v := range vs {
		if v == nil {
			s = append(s, "<zero value>")
			continue
		}
		s = append(s, v.Name()+"="+v.String())
	}
	return strings.Join(s, ", ")
}

// usesDefer reports whether f contains a defer (stores after the return are then not tracked).
func usesDefer(f *ssa.Function) bool {
	for _, b := range f.Blocks {
		for _, in := range b.Instrs {
			if _, ok := in.(*ssa.Defer); ok {
				return true
			}
		}
	}
	return false
}

var _ = report.Discharged
