package demuxrules

import (
	"fmt"
	"strings"

	"golang.org/x/tools/go/ssa"

	"astverif/ssau"
)

// accAnchors are the SSA anchors of (*packetAccumulator).add shared by several rules.
type accAnchors struct {
	add      *ssa.Function
	recv     *ssa.Parameter
	pkt      *ssa.Parameter
	qLoads   []*ssa.UnOp  // loads of b.q
	qStores  []*ssa.Store // stores to b.q
	appendP  []*ssa.Call  // append(base, p)
	discIf   *condIf
	sameIf   *condIf
	pusiIf   *condIf
	discCall *ssa.Call
	sameCall *ssa.Call
}

// qWriters is the set of root-package functions that store to packetAccumulator.q, closed under callers.
func (a *A) qWriters() map[*ssa.Function]bool {
	w := map[*ssa.Function]bool{}
	for _, f := range a.funcs {
		for _, b := range f.Blocks {
			for _, in := range b.Instrs {
				if st, ok := in.(*ssa.Store); ok {
					if _, isQ := a.fieldAddrOf(st.Addr, "packetAccumulator", "q"); isQ {
						w[f] = true
					}
				}
			}
		}
	}
	for changed := true; changed; {
		changed = false
		for _, f := range a.funcs {
			if w[f] {
				continue
			}
			for _, c := range ssau.Calls(f) {
				if cal := c.Common().StaticCallee(); cal != nil && w[cal] {
					w[f] = true
					changed = true
					break
				}
			}
		}
	}
	return w
}

func (a *A) accumulator(rule string) *accAnchors {
	add := a.anchor(rule, "packetAccumulator.add")
	if add == nil {
		return nil
	}
	x := &accAnchors{add: add}
	if len(add.Params) != 2 {
		a.R.Unknown(rule, "anchor/packetAccumulator.add", a.fpos(add), "add no longer has the shape (b *packetAccumulator) add(p *Packet)")
		return nil
	}
	x.recv, x.pkt = add.Params[0], add.Params[1]
	disc, same := a.P.Func("hasDiscontinuity"), a.P.Func("isSameAsPrevious")
	for _, b := range add.Blocks {
		for _, in := range b.Instrs {
			switch v := in.(type) {
			case *ssa.UnOp:
				if base, ok := a.fieldLoadOf(v, "packetAccumulator", "q"); ok && base == ssa.Value(x.recv) {
					x.qLoads = append(x.qLoads, v)
				}
			case *ssa.Store:
				if _, ok := a.fieldAddrOf(v.Addr, "packetAccumulator", "q"); ok {
					x.qStores = append(x.qStores, v)
				}
			case *ssa.Call:
				if isBuiltin(&v.Call, "append") && len(v.Call.Args) == 2 {
					if vs, ok := varargOf(v.Call.Args[1]); ok && len(vs) == 1 && vs[0] == ssa.Value(x.pkt) {
						x.appendP = append(x.appendP, v)
					}
				}
				if f := v.Call.StaticCallee(); f != nil {
					if f == disc && x.discCall == nil {
						x.discCall = v
					}
					if f == same && x.sameCall == nil {
						x.sameCall = v
					}
				}
			}
		}
	}
	pick := func(c *ssa.Call) *condIf {
		if c == nil {
			return nil
		}
		ifs := ifsOn(add, func(v ssa.Value) bool { return v == ssa.Value(c) })
		if len(ifs) != 1 {
			return nil
		}
		return &ifs[0]
	}
	x.discIf, x.sameIf = pick(x.discCall), pick(x.sameCall)
	pusi := ifsOn(add, func(v ssa.Value) bool { return isFieldLoad(v, x.pkt, "Header", "PayloadUnitStartIndicator") })
	if len(pusi) == 1 {
		x.pusiIf = &pusi[0]
	}
	return x
}

// C06 runs the SSA clauses (b)–(g) of property C06 (clause (a) is tables.T3; (f), (g) live in extra.go).
func (a *A) C06() {
	a.dupEdge()
	a.noSplice()
	a.filtersFirst()
	a.discOnLoadedQueue()
	a.discTestUnconditional()
	a.flushAfterDiscontinuity()
	a.pusiReturnsPrevious()
	// "a duplicate never alters any delivered data": the queue is append-only, no queued packet is replaced in place
	// (S6 of C02) — a duplicate that takes the original's slot brings its own adaptation field (a re-stamped PCR)
	a.appendOnlyQueue()
}

// (b) on the isSameAsPrevious-true edge add returns an empty result and leaves b.q as it was.
func (a *A) dupEdge() {
	const rule, key = "S5", "add/duplicate-edge-returns-empty-no-store"
	x := a.accumulator(rule)
	if x == nil {
		return
	}
	if x.sameCall == nil || x.sameIf == nil {
		a.R.Unknown(rule, key, a.fpos(x.add), "add does not branch exactly once on the result of isSameAsPrevious: the duplicate edge cannot be identified")
		return
	}
	pos := a.ipos(x.sameIf.If)
	dup, excl := x.sameIf.when(true)
	var bad []string
	if !excl {
		bad = append(bad, "the duplicate branch is shared with other paths (block has several predecessors)")
	}
	if usesDefer(x.add) {
		a.R.Unknown(rule, key, pos, "add uses defer: effects after the return are not tracked")
		return
	}
	writers := a.qWriters()
	region := reachableFrom(dup, nil)
	nret := 0
	for b := range region {
		for _, in := range b.Instrs {
			switch v := in.(type) {
			case *ssa.Store:
				if base, ok := a.fieldAddrOf(v.Addr, "packetAccumulator", "q"); ok {
					// storing back the value loaded from the same field, unchanged, is harmless
					if lb, isLoad := a.fieldLoadOf(v.Val, "packetAccumulator", "q"); isLoad && sameObject(lb, base) && !a.storeBetween(x, v.Val.(ssa.Instruction), v) {
						continue
					}
					bad = append(bad, fmt.Sprintf("b.q is stored on the duplicate edge (%s) with %s, which is not the unchanged loaded queue", a.ipos(v), v.Val.String()))
				}
			case ssa.CallInstruction:
				if cal := v.Common().StaticCallee(); cal != nil && writers[cal] {
					bad = append(bad, "the duplicate edge calls "+short(cal)+", which may store to packetAccumulator.q")
				}
			case *ssa.Return:
				nret++
				for _, res := range v.Results {
					for _, l := range pathVals(res, b, nil, dup) {
						if l == nil || lenZero(l) {
							continue
						}
						bad = append(bad, fmt.Sprintf("the duplicate edge returns %s (a duplicate must deliver nothing)", l.String()))
					}
				}
			}
		}
	}
	if nret == 0 {
		bad = append(bad, "no return is reachable from the duplicate edge")
	}
	a.R.Check(len(bad) == 0, rule, key, pos,
		"every path from the isSameAsPrevious-true edge returns the zero result and performs no store to packetAccumulator.q (directly or through a callee)",
		strings.Join(bad, "; "))
}

// storeBetween: may a store to q execute between from and to?
func (a *A) storeBetween(x *accAnchors, from, to ssa.Instruction) bool {
	for _, st := range x.qStores {
		if st == to {
			continue
		}
		if canFollow(from, st) && canFollow(st, to) {
			return true
		}
	}
	return false
}

// (c) no splice: on the hasDiscontinuity-true edge the queue that receives p has length 0.
func (a *A) noSplice() {
	const rule, key = "S5", "add/discontinuity-edge-appends-to-empty-queue"
	x := a.accumulator(rule)
	if x == nil {
		return
	}
	if x.discCall == nil || x.discIf == nil {
		a.R.Unknown(rule, key, a.fpos(x.add), "add does not branch exactly once on the result of hasDiscontinuity: the discontinuity edge cannot be identified")
		return
	}
	pos := a.ipos(x.discIf.If)
	if !a.R.Floor(rule, "append(queue, p) sites in add", len(x.appendP), 1) {
		return
	}
	D, _ := x.discIf.when(true)
	var bad []string
	checked := 0
	seen := map[ssa.Value]bool{}
	// trace: value v flows into block at (along the edge from that block for phis)
	var trace func(v ssa.Value, at *ssa.BasicBlock)
	trace = func(v ssa.Value, at *ssa.BasicBlock) {
		if ph, ok := v.(*ssa.Phi); ok {
			if seen[ph] {
				return
			}
			seen[ph] = true
			for i, e := range ph.Edges {
				trace(e, ph.Block().Preds[i])
			}
			return
		}
		if lenZero(v) {
			checked++
			return
		}
		// any other value (the loaded queue, a truncation that keeps elements …) is acceptable only if it
		// cannot arrive here on a path through the discontinuity edge
		if at == D || ssau.Reaches(D, at) {
			bad = append(bad, fmt.Sprintf("on a path through the discontinuity edge the packet is appended to %s (%s), whose length is not known to be 0", v.Name(), v.String()))
			return
		}
		checked++
	}
	for _, ap := range x.appendP {
		if !(ap.Block() == D || ssau.Reaches(D, ap.Block())) {
			continue
		}
		trace(ap.Call.Args[0], ap.Block())
	}
	if checked == 0 && len(bad) == 0 {
		a.R.Unknown(rule, key, pos, "no append(queue, p) is reachable from the discontinuity edge")
		return
	}
	a.R.Check(len(bad) == 0, rule, key, pos,
		"every value that can reach append(·, p) on a path through the hasDiscontinuity-true edge is nil, x[:0] or make(·, 0, ·): data before a gap is never joined with data after it",
		strings.Join(bad, "; "))
}

// (d) TEI and no-payload packets are filtered before any accumulator access.
func (a *A) filtersFirst() {
	const rule = "S5"
	f := a.anchor(rule, "packetPool.addUnlocked")
	if f == nil {
		return
	}
	if len(f.Params) != 2 {
		a.R.Unknown(rule, "anchor/packetPool.addUnlocked", a.fpos(f), "addUnlocked no longer has the shape (b *packetPool) addUnlocked(p *Packet)")
		return
	}
	pkt := f.Params[1]
	add, newAcc := a.P.Func("packetAccumulator.add"), a.P.Func("newPacketAccumulator")
	// the guarded accesses
	var accesses []ssa.Instruction
	for _, b := range f.Blocks {
		for _, in := range b.Instrs {
			switch v := in.(type) {
			case *ssa.Lookup:
				if _, ok := a.fieldLoadOf(v.X, "packetPool", "b"); ok {
					accesses = append(accesses, in)
				}
			case *ssa.MapUpdate:
				if _, ok := a.fieldLoadOf(v.Map, "packetPool", "b"); ok {
					accesses = append(accesses, in)
				}
			case ssa.CallInstruction:
				cal := v.Common().StaticCallee()
				if cal != nil && (cal == add || cal == newAcc) {
					accesses = append(accesses, in)
				}
				// an accessor of the pool called on the same receiver: it looks the map up (and may fill it)
				if cal != nil && cal.Pkg == a.P.SSAPkg && len(cal.Blocks) > 0 && len(v.Common().Args) > 0 && v.Common().Args[0] == ssa.Value(f.Params[0]) && cal != add {
					touches := false
					for _, cb := range cal.Blocks {
						for _, ci := range cb.Instrs {
							switch y := ci.(type) {
							case *ssa.Lookup:
								if _, ok := a.fieldLoadOf(y.X, "packetPool", "b"); ok {
									touches = true
								}
							case *ssa.MapUpdate:
								if _, ok := a.fieldLoadOf(y.Map, "packetPool", "b"); ok {
									touches = true
								}
							}
						}
					}
					if touches {
						accesses = append(accesses, in)
					}
				}
				if isBuiltin(v.Common(), "delete") && len(v.Common().Args) > 0 {
					if _, ok := a.fieldLoadOf(v.Common().Args[0], "packetPool", "b"); ok {
						accesses = append(accesses, in)
					}
				}
			}
		}
	}
	if !a.R.Floor(rule, "accumulator accesses in addUnlocked (map b lookup/update, acc.add)", len(accesses), 2) {
		return
	}
	type filter struct {
		key, field string
		dropWhen   bool // value of the field for which the packet is dropped
	}
	for _, fl := range []filter{{"addUnlocked/tei-filter-first", "TransportErrorIndicator", true}, {"addUnlocked/payload-filter-first", "HasPayload", false}} {
		ifs := ifsOn(f, func(v ssa.Value) bool { return isFieldLoad(v, pkt, "Header", fl.field) })
		if len(ifs) == 0 {
			a.R.Bad(rule, fl.key, a.fpos(f), "addUnlocked does not branch on p.Header."+fl.field+": such packets reach the accumulator")
			continue
		}
		// one of the tests must be the filter
		var why []string
		ok := false
		for _, ci := range ifs {
			// the drop block may be shared (`if tei || !hasPayload { return }`): everything reachable from
			// it is checked to be effect-free below, whoever else enters it
			drop, _ := ci.when(fl.dropWhen)
			pass, passExcl := ci.when(!fl.dropWhen)
			var bad []string
			if !passExcl {
				bad = append(bad, "the test's pass edge is shared with other paths")
			}
			for _, acc := range accesses {
				if !pass.Dominates(acc.Block()) {
					bad = append(bad, fmt.Sprintf("%s at %s is not dominated by the pass edge of the test", instrText(acc), a.ipos(acc)))
				}
			}
			// the drop edge returns the zero result and touches nothing
			nret := 0
			for b := range reachableFrom(drop, nil) {
				for _, in := range b.Instrs {
					switch v := in.(type) {
					case *ssa.Return:
						nret++
						for _, res := range v.Results {
							for _, l := range pathVals(res, b, nil, drop) {
								if l != nil && !lenZero(l) {
									bad = append(bad, "the drop edge returns "+l.String())
								}
							}
						}
					case *ssa.Store, *ssa.MapUpdate, ssa.CallInstruction:
						bad = append(bad, fmt.Sprintf("the drop edge has an effect: %s at %s", instrText(in), a.ipos(in)))
					}
				}
			}
			if nret == 0 {
				bad = append(bad, "the drop edge does not return")
			}
			if len(bad) == 0 {
				ok = true
				break
			}
			why = append(why, bad...)
		}
		a.R.Check(ok, rule, fl.key, a.ipos(ifs[0].If),
			fmt.Sprintf("the test of p.Header.%s dominates all %d accumulator accesses; its drop edge returns the zero result without any store or call", fl.field, len(accesses)),
			strings.Join(why, "; "))
	}
}

func instrText(in ssa.Instruction) string {
	if v, ok := in.(ssa.Value); ok {
		return v.Name() + " = " + in.String()
	}
	return in.String()
}

// (e) hasDiscontinuity is only called from add, on the queue as loaded from b.q.
func (a *A) discOnLoadedQueue() {
	const rule = "S2"
	disc := a.anchor(rule, "hasDiscontinuity")
	x := a.accumulator(rule)
	if disc == nil || x == nil {
		return
	}
	sites, other := a.callSites(disc)
	for _, o := range other {
		a.R.Unknown(rule, "hasDiscontinuity/used-as-value/"+bare(o.Parent()), a.ipos(o), "hasDiscontinuity is used as a function value: its call sites cannot be enumerated")
	}
	if !a.R.Floor(rule, "call sites of hasDiscontinuity", len(sites), 1) {
		return
	}
	n := 0
	for _, s := range sites {
		key := "hasDiscontinuity/called-from/" + bare(s.Fn)
		if s.Fn != x.add {
			a.R.Bad(rule, key, a.ipos(s.In), "hasDiscontinuity is called outside (*packetAccumulator).add: the discontinuity decision must be taken on the accumulator's own queue only")
			continue
		}
		n++
		arg := s.In.Common().Args[0]
		base, isLoad := a.fieldLoadOf(arg, "packetAccumulator", "q")
		switch {
		case !isLoad || base != ssa.Value(x.recv):
			a.R.Bad(rule, key, a.ipos(s.In), "the queue argument "+arg.String()+" is not the value loaded from b.q")
		case a.storeBetween(x, arg.(ssa.Instruction), s.In):
			a.R.Bad(rule, key, a.ipos(s.In), "b.q may be stored between the load of the queue and the call of hasDiscontinuity")
		default:
			a.R.OK(rule, key, a.ipos(s.In), "the queue argument is the load of b.q ("+arg.Name()+") with no store to q in between; the packet argument is checked by T3")
		}
	}
	_ = n
}
