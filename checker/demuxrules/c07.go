package demuxrules

import (
	"fmt"
	"go/token"
	"go/types"
	"sort"
	"strings"

	"golang.org/x/tools/go/ssa"

	"astverif/load"
	"astverif/ssau"
)

// C07 runs the clauses I1–I6 of property C07 (I6 = the filters-first rule shared with C06; I7 is ownership.BorrowTaint, called from props).
func (a *A) C07() {
	a.keyedByPID()
	a.globalsReadOnly()
	a.programMapWriters()
	a.pooledBufferConfined()
	a.mapIterationDeterminism()
	a.firstPacketIdentity()
	a.filtersFirst()
	// duplicates and discontinuities are judged against the queue of the packet's own PID (the S5 rules of C06): a test
	// against pool-wide state makes the outcome depend on the packets of other PIDs that happen to lie in between
	a.dupEdge()
	a.discOnLoadedQueue()
	a.discTestUnconditional()
	// what the parsers read of a unit is what its own packets carried: the pooled buffer is sized by the payload lengths of
	// this group and filled completely (R8 of C02) — anything beyond is the residue of another PID's unit
	a.assembledPayload()
	// a unit of one PID that fails to parse at the end of the stream must not keep the pending units of the other PIDs
	// from being delivered: the drain rule of C02 (every dumped group is parsed, the end is reported only after an
	// empty dump)
	a.drainBeforeEnd()
}

func stripConvert(v ssa.Value) ssa.Value {
	for {
		switch x := v.(type) {
		case *ssa.Convert:
			v = x.X
		case *ssa.ChangeType:
			v = x.X
		default:
			return v
		}
	}
}

// ---------------------------------------------------------------------------------------------
// I1 one accumulator per PID, looked up by the packet's own PID

func (a *A) keyedByPID() {
	const rule, key = "I1", "addUnlocked/accumulator-keyed-by-packet-pid"
	f := a.anchor(rule, "packetPool.addUnlocked")
	add := a.anchor(rule, "packetAccumulator.add")
	if f == nil || add == nil {
		return
	}
	// a constructor: a package function returning *packetAccumulator that stores one of its parameters in the pid field of the
	// accumulator it allocates (newPacketAccumulator today; none when the literal is written out in addUnlocked)
	pidParam := func(g *ssa.Function) int {
		if g == nil || g.Pkg != a.P.SSAPkg || len(g.Blocks) == 0 || g.Signature.Results().Len() != 1 {
			return -1
		}
		pt, ok := g.Signature.Results().At(0).Type().Underlying().(*types.Pointer)
		if !ok || !ssau.IsNamed(pt.Elem(), load.RootPath, "packetAccumulator") {
			return -1
		}
		idx := -1
		for _, b := range g.Blocks {
			for _, in := range b.Instrs {
				if st, isSt := in.(*ssa.Store); isSt {
					if _, isPid := a.fieldAddrOf(st.Addr, "packetAccumulator", "pid"); isPid {
						found := -1
						for i, p := range g.Params {
							if st.Val == ssa.Value(p) {
								found = i
							}
						}
						if found < 0 || (idx >= 0 && idx != found) {
							return -1
						}
						idx = found
					}
				}
			}
		}
		return idx
	}
	if len(f.Params) != 2 {
		a.R.Unknown(rule, key, a.fpos(f), "addUnlocked no longer has the shape (b *packetPool) addUnlocked(p *Packet)")
		return
	}
	recv, pkt := f.Params[0], f.Params[1]
	isPID := func(v ssa.Value) bool { return isFieldLoad(stripConvert(v), pkt, "Header", "PID") }
	isPoolMap := func(v ssa.Value) bool {
		base, ok := a.fieldLoadOf(v, "packetPool", "b")
		return ok && base == ssa.Value(recv)
	}
	var bad []string
	// p's header is not modified here
	for _, b := range f.Blocks {
		for _, in := range b.Instrs {
			if st, ok := in.(*ssa.Store); ok {
				if root, fs := fieldChain(st.Addr); root == ssa.Value(pkt) && len(fs) > 0 {
					bad = append(bad, "addUnlocked stores to p."+strings.Join(fs, ".")+": the key expressions are not comparable")
				}
			}
		}
	}
	sites := callsTo(f, add)
	if !a.R.Floor(rule, "acc.add call sites in addUnlocked", len(sites), 1) {
		return
	}
	nlook, nnew := 0, 0
	ctors := map[*ssa.Function]bool{}
	var judge func(isPID, isPoolMap func(ssa.Value) bool, accV ssa.Value, s ssa.CallInstruction, depth int)
	isPoolRecv := func(v ssa.Value) bool { return v == ssa.Value(recv) }
	accessors := map[*ssa.Function]bool{}
	judge = func(isPID, isPoolMap func(ssa.Value) bool, accV ssa.Value, s ssa.CallInstruction, depth int) {
		for _, l := range ssau.Leaves(accV) {
			if l == nil {
				bad = append(bad, "the accumulator may be the zero value")
				continue
			}
			var lk *ssa.Lookup
			switch x := l.(type) {
			case *ssa.Lookup:
				lk = x
			case *ssa.Extract:
				if y, ok := x.Tuple.(*ssa.Lookup); ok && x.Index == 0 {
					lk = y
				}
			}
			if lk != nil {
				nlook++
				if !isPoolMap(lk.X) {
					bad = append(bad, "the accumulator is looked up in "+lk.X.String()+", not in b.b")
				}
				if !isPID(lk.Index) {
					bad = append(bad, "the lookup key is "+describe(lk.Index)+", not uint32(p.Header.PID)")
				}
				continue
			}
			var fresh ssa.Value // the freshly built accumulator
			var freshAt *ssa.BasicBlock
			if c := callOf(l); c != nil {
				if pi := pidParam(c.Call.StaticCallee()); pi >= 0 && pi < len(c.Call.Args) {
					fresh, freshAt = c, c.Block()
					ctors[c.Call.StaticCallee()] = true
					if !isPID(c.Call.Args[pi]) {
						bad = append(bad, "the new accumulator is constructed for "+describe(c.Call.Args[pi])+", not p.Header.PID")
					}
				}
			} else if al, isAl := l.(*ssa.Alloc); isAl && ssau.IsNamed(al.Type().Underlying().(*types.Pointer).Elem(), load.RootPath, "packetAccumulator") {
				// &packetAccumulator{pid: …} written out in addUnlocked
				fresh, freshAt = al, al.Block()
				npid := 0
				for _, r := range *al.Referrers() {
					fa, ok := r.(*ssa.FieldAddr)
					if !ok {
						continue
					}
					if n, _ := ssau.FieldName(fa); n != "pid" {
						continue
					}
					for _, rr := range *fa.Referrers() {
						if st, ok := rr.(*ssa.Store); ok && st.Addr == ssa.Value(fa) {
							npid++
							if !isPID(st.Val) {
								bad = append(bad, "the new accumulator's pid is "+describe(st.Val)+", not p.Header.PID")
							}
						}
					}
				}
				if npid != 1 {
					bad = append(bad, fmt.Sprintf("the pid field of the accumulator literal is stored %d times (expected once)", npid))
				}
			}
			if fresh != nil {
				nnew++
				c := fresh
				// stored under the same key on every path to add
				var upd *ssa.MapUpdate
				for _, r := range *c.Referrers() {
					if mu, ok := r.(*ssa.MapUpdate); ok && mu.Value == c {
						upd = mu
					}
				}
				switch {
				case upd == nil:
					bad = append(bad, "the new accumulator is never stored in b.b: the next packet of the PID gets another accumulator")
				case !isPoolMap(upd.Map):
					bad = append(bad, "the new accumulator is stored in "+upd.Map.String()+", not in b.b")
				case !isPID(upd.Key):
					bad = append(bad, "the new accumulator is stored under "+describe(upd.Key)+", not uint32(p.Header.PID)")
				case upd.Block() != freshAt:
					if esc := escapesWithout(freshAt, map[*ssa.BasicBlock]bool{upd.Block(): true}, func(b *ssa.BasicBlock) bool { return b == s.Block() }); esc != nil {
						bad = append(bad, "a path from newPacketAccumulator to acc.add bypasses the map update")
					}
				}
				continue
			}
			// an accessor of the pool: h(b, …, key, …) that returns b.b[uint32(key)] or a fresh accumulator for key stored under it
			if hc := callOf(l); hc != nil && depth == 0 {
				if h := hc.Call.StaticCallee(); h != nil && h.Pkg == a.P.SSAPkg && len(h.Blocks) > 0 && len(h.Params) >= 2 && len(hc.Call.Args) == len(h.Params) && isPoolRecv(hc.Call.Args[0]) {
					hrecv := h.Params[0]
					found := false
					for ki := 1; ki < len(h.Params); ki++ {
						if !isPID(hc.Call.Args[ki]) {
							continue
						}
						kprm := h.Params[ki]
						hIsKey := func(v ssa.Value) bool { return stripConvert(v) == ssa.Value(kprm) }
						hIsMap := func(v ssa.Value) bool {
							base, ok := a.fieldLoadOf(v, "packetPool", "b")
							return ok && base == ssa.Value(hrecv)
						}
						nret := 0
						for _, ret := range ssau.Returns(h) {
							if len(ret.Results) != 1 {
								continue
							}
							nret++
							judge(hIsKey, hIsMap, ret.Results[0], retSite{ret}, 1)
						}
						if nret > 0 {
							found = true
						}
					}
					if found {
						accessors[h] = true
						continue
					}
				}
			}
			bad = append(bad, "the accumulator passed to add is "+describe(l)+": neither b.b[uint32(p.Header.PID)] nor a new accumulator stored under that key")
		}
	}
	for _, s := range sites {
		args := s.Common().Args
		if len(args) != 2 || args[1] != ssa.Value(pkt) {
			bad = append(bad, "acc.add is not called with the arriving packet")
			continue
		}
		judge(isPID, isPoolMap, args[0], s, 0)
	}
	if nlook == 0 {
		bad = append(bad, "no lookup in b.b feeds acc.add")
	}
	a.R.Check(len(bad) == 0, rule, key, a.ipos(sites[0]),
		fmt.Sprintf("the accumulator handed the packet is b.b[uint32(p.Header.PID)] (%d lookup) or a newPacketAccumulator(p.Header.PID, …) stored under the same key (%d constructor): lookup key, update key and constructor argument are loads of the same path p.Header.PID, p is not written", nlook, nnew),
		strings.Join(bad, "; "))
	// the constructor keeps its pid (by construction of pidParam: the only stores to the pid field take that one parameter)
	for g := range ctors {
		a.R.OK(rule, bare(g)+"/pid-field-is-parameter", a.fpos(g), bare(g)+" stores one parameter, and nothing else, in the pid field of the accumulator it returns; the call passes p.Header.PID for it")
	}
	// every other producer of a *packetAccumulator that addUnlocked calls must be such a constructor
	for _, c := range ssau.Calls(f) {
		g := c.Common().StaticCallee()
		if g == nil || g.Pkg != a.P.SSAPkg || g.Signature.Results().Len() != 1 || ctors[g] || accessors[g] {
			continue
		}
		if pt, ok := g.Signature.Results().At(0).Type().Underlying().(*types.Pointer); ok && ssau.IsNamed(pt.Elem(), load.RootPath, "packetAccumulator") {
			a.R.Bad(rule, bare(g)+"/pid-field-is-parameter", a.ipos(c), bare(g)+" returns an accumulator but does not store exactly one of its parameters in the pid field")
		}
	}
}

func describe(v ssa.Value) string {
	if v == nil {
		return "<zero value>"
	}
	if p, ok := ssau.AccessPath(stripConvert(v)); ok && p != "" {
		return p
	}
	return v.Name() + " = " + v.String()
}

// ---------------------------------------------------------------------------------------------
// I2 no shared mutable state: package-level variables

type gfinding struct {
	pos, text string
	unknown   bool
}

func isRefType(t types.Type) bool {
	switch t.Underlying().(type) {
	case *types.Pointer, *types.Slice, *types.Map, *types.Chan:
		return true
	}
	return false
}

func (a *A) globalsReadOnly() {
	const rule = "I2"
	var globals []*ssa.Global
	for _, m := range a.P.SSAPkg.Members {
		if g, ok := m.(*ssa.Global); ok && !strings.HasPrefix(g.Name(), "init$") {
			globals = append(globals, g)
		}
	}
	sort.Slice(globals, func(i, j int) bool { return globals[i].Name() < globals[j].Name() })
	if !a.R.Floor(rule, "package-level variables", len(globals), 3) {
		return
	}
	for _, g := range globals {
		finds, reads, poolOps := a.globalEffects(g)
		key := "global/" + g.Name()
		var bad, unk []string
		for _, f := range finds {
			if f.unknown {
				unk = append(unk, f.text+" at "+f.pos)
			} else {
				bad = append(bad, f.text+" at "+f.pos)
			}
		}
		pos := a.pos(g.Pos())
		switch {
		case len(bad) > 0:
			a.R.Bad(rule, key, pos, "package variable "+g.Name()+" is mutable shared state: "+strings.Join(bad, "; "))
		case len(unk) > 0:
			a.R.Unknown(rule, key, pos, "uses of package variable "+g.Name()+" outside the accepted idioms: "+strings.Join(unk, "; "))
		default:
			d := fmt.Sprintf("%s is never stored to outside its initializer (%d read sites)", g.Name(), reads)
			if poolOps > 0 {
				d += fmt.Sprintf("; %d sync.Pool Get/Put calls through it (the pool hands out exclusive items, confined by I3)", poolOps)
			}
			a.R.OK(rule, key, pos, d)
		}
	}
}

// globalEffects follows every address/reference derived from g through the package.
func (a *A) globalEffects(g *ssa.Global) (finds []gfinding, reads, poolOps int) {
	derived := map[ssa.Value]bool{}
	var work []ssa.Value
	mark := func(v ssa.Value) {
		if v != nil && !derived[v] {
			derived[v] = true
			work = append(work, v)
		}
	}
	add := func(in ssa.Instruction, unknown bool, text string) {
		finds = append(finds, gfinding{a.ipos(in), text + " in " + short(in.Parent()), unknown})
	}
	// uses of the global itself
	uses := map[ssa.Value][]ssa.Instruction{}
	for _, f := range a.funcs {
		for _, b := range f.Blocks {
			for _, in := range b.Instrs {
				for _, op := range in.Operands(nil) {
					if op != nil && *op == ssa.Value(g) {
						uses[g] = append(uses[g], in)
					}
				}
			}
		}
	}
	refs := func(v ssa.Value) []ssa.Instruction {
		if v == ssa.Value(g) {
			return uses[g]
		}
		if r := v.Referrers(); r != nil {
			return *r
		}
		return nil
	}
	isPoolGlobal := g.Name() == "bytesPool"
	mark(g)
	for len(work) > 0 {
		d := work[len(work)-1]
		work = work[:len(work)-1]
		for _, in := range refs(d) {
			switch x := in.(type) {
			case *ssa.DebugRef:
			case *ssa.UnOp:
				if x.Op == token.MUL && x.X == d {
					reads++
					if isRefType(x.Type()) {
						mark(x)
					}
				}
			case *ssa.FieldAddr:
				mark(x)
			case *ssa.IndexAddr:
				if x.X == d {
					mark(x)
				}
			case *ssa.Slice:
				if x.X == d {
					mark(x)
				}
			case *ssa.Field, *ssa.Index, *ssa.Lookup, *ssa.Range, *ssa.BinOp, *ssa.If, *ssa.Extract, *ssa.Next, *ssa.TypeAssert:
				reads++
			case *ssa.Phi:
				mark(x)
			case *ssa.ChangeType:
				mark(x)
			case *ssa.Convert:
				mark(x)
			case *ssa.Store:
				if x.Addr == d {
					add(in, false, "store "+instrText(in))
				} else {
					add(in, true, "a reference into the variable is stored in memory ("+instrText(in)+")")
				}
			case *ssa.MapUpdate:
				if x.Map == d {
					add(in, false, "map update "+instrText(in))
				} else {
					add(in, true, "a reference into the variable is stored in a map")
				}
			case *ssa.MakeInterface:
				add(in, true, "a reference into the variable is converted to an interface")
			case *ssa.Return:
				add(in, true, "a reference into the variable is returned")
			case *ssa.MakeClosure:
				add(in, true, "a reference into the variable is captured by a closure")
			case ssa.CallInstruction:
				cc := x.Common()
				if bi, ok := cc.Value.(*ssa.Builtin); ok {
					switch bi.Name() {
					case "len", "cap":
						reads++
					case "delete":
						if len(cc.Args) > 0 && cc.Args[0] == d {
							add(in, false, "delete from the variable")
						}
					case "copy":
						if cc.Args[0] == d {
							add(in, false, "copy into the variable")
						} else {
							reads++
						}
					case "append":
						if cc.Args[0] == d {
							add(in, true, "append to a slice reachable from the variable (may write its backing array)")
						} else {
							reads++
						}
					default:
						add(in, true, "builtin "+bi.Name())
					}
					continue
				}
				cal := cc.StaticCallee()
				if cal == nil {
					add(in, true, "passed to a dynamic call "+instrText(in))
					continue
				}
				if cal.Pkg == a.P.SSAPkg && cal.Blocks != nil {
					// follow into the callee
					args := cc.Args
					for i, arg := range args {
						if arg == d && i < len(cal.Params) {
							mark(cal.Params[i])
						}
					}
					continue
				}
				name := ssau.FuncQName(cal)
				if isPoolGlobal && (name == "(*sync.Pool).Get" || name == "(*sync.Pool).Put") && len(cc.Args) > 0 && cc.Args[0] == d {
					poolOps++
					continue
				}
				add(in, false, "passed by reference to "+name)
			default:
				add(in, true, "unrecognised use "+instrText(in))
			}
		}
	}
	return
}

// who may write programMap.p, and who may call setUnlocked on which map
func (a *A) programMapWriters() {
	const rule = "I2"
	set, unset := a.anchor(rule, "programMap.setUnlocked"), a.anchor(rule, "programMap.unsetUnlocked")
	if set == nil || unset == nil {
		return
	}
	nw := 0
	for _, f := range a.funcs {
		var first ssa.Instruction
		what := ""
		for _, b := range f.Blocks {
			for _, in := range b.Instrs {
				switch x := in.(type) {
				case *ssa.MapUpdate:
					if _, ok := a.fieldLoadOf(x.Map, "programMap", "p"); ok && first == nil {
						first, what = in, "map update"
					}
				case *ssa.Store:
					if _, ok := a.fieldAddrOf(x.Addr, "programMap", "p"); ok && first == nil {
						first, what = in, "field store"
					}
				case ssa.CallInstruction:
					if isBuiltin(x.Common(), "delete") {
						if _, ok := a.fieldLoadOf(x.Common().Args[0], "programMap", "p"); ok && first == nil {
							first, what = in, "delete"
						}
					}
				}
			}
		}
		if first == nil {
			continue
		}
		nw++
		ok := f == set || f == unset || (f == a.P.Func("newProgramMap") && what == "field store")
		a.R.Check(ok, rule, "programMap.p/written-by/"+bare(f), a.ipos(first),
			short(f)+" ("+what+") is one of the three owners of programMap.p (setUnlocked, unsetUnlocked, the constructor)",
			short(f)+" modifies programMap.p ("+what+"): only setUnlocked/unsetUnlocked (and the constructor) may")
	}
	a.R.Floor(rule, "writers of programMap.p", nw, 2)
	for _, m := range []*ssa.Function{set, unset} {
		sites, other := a.callSites(m)
		for _, o := range other {
			a.R.Unknown(rule, m.Name()+"/used-as-value/"+bare(o.Parent()), a.ipos(o), short(m)+" is used as a function value: its call sites cannot be enumerated")
		}
		for _, s := range sites {
			root, fs := fieldChain(s.In.Common().Args[0])
			owner := ""
			switch {
			case ssau.IsNamed(root.Type(), load.RootPath, "Demuxer") && len(fs) == 1 && fs[0] == "programMap":
				owner = "Demuxer"
			case ssau.IsNamed(root.Type(), load.RootPath, "Muxer") && len(fs) == 1 && fs[0] == "pm":
				owner = "Muxer"
			case len(fs) == 0 && ssau.StoredInField(root, load.RootPath, "Muxer", "pm") != nil:
				owner = "Muxer" // pm := newProgramMap(); pm.setUnlocked(…); … &Muxer{pm: pm}
			}
			key := m.Name() + "/called-from/" + bare(s.Fn)
			switch {
			case owner == "Demuxer" && m == set && (s.Fn == a.P.Func("Demuxer.updateData") || a.onlyCalledFrom(s.Fn, a.P.Func("Demuxer.updateData"), 0)):
				a.R.OK(rule, key, a.ipos(s.In), "the demuxer's program map is extended only by updateData, from a delivered PAT: the one cross-PID dependency the property allows")
			case owner == "Muxer" && m == set && s.Fn == a.P.Func("NewMuxer"):
				a.R.OK(rule, key, a.ipos(s.In), "the muxer's program map is filled by NewMuxer only")
			case owner == "":
				a.R.Bad(rule, key, a.ipos(s.In), short(m)+" is called on "+describe(s.In.Common().Args[0])+", which is neither Demuxer.programMap nor Muxer.pm: the shared program map is modified from an unexpected place")
			default:
				a.R.Bad(rule, key, a.ipos(s.In), short(m)+" is called on "+owner+"'s map from "+short(s.Fn)+"; allowed: setUnlocked from (*Demuxer).updateData (demuxer) and NewMuxer (muxer)")
			}
		}
		if m == set {
			a.R.Floor(rule, "setUnlocked call sites", len(sites), 2)
		}
	}
}

// onlyCalledFrom: every use of g in the package is a call from root, or from a function of which the same holds (a helper carved
// out of root); g is never used as a value.
func (a *A) onlyCalledFrom(g, root *ssa.Function, depth int) bool {
	if g == nil || root == nil || depth > 3 {
		return false
	}
	sites, other := a.callSites(g)
	if len(other) > 0 || len(sites) == 0 {
		return false
	}
	for _, s := range sites {
		if s.Fn == root {
			continue
		}
		if s.Fn == g || !a.onlyCalledFrom(s.Fn, root, depth+1) {
			return false
		}
	}
	return true
}

// ---------------------------------------------------------------------------------------------
// I3 pooled buffer: get → deferred put, no escape

func (a *A) pooledBufferConfined() {
	const rule = "I3"
	get, put := a.anchor(rule, "bytesPooler.get"), a.anchor(rule, "bytesPooler.put")
	if get == nil || put == nil {
		return
	}
	sites, other := a.callSites(get)
	for _, o := range other {
		a.R.Unknown(rule, "get/used-as-value/"+bare(o.Parent()), a.ipos(o), "bytesPooler.get is used as a function value")
	}
	if !a.R.Floor(rule, "bytesPool.get call sites", len(sites), 2) {
		return
	}
	perFn := map[*ssa.Function]int{}
	for _, s := range sites {
		perFn[s.Fn]++
		suffix := ""
		if perFn[s.Fn] > 1 {
			suffix = fmt.Sprintf("#%d", perFn[s.Fn])
		}
		gc, _ := s.In.(*ssa.Call)
		k1, k2 := bare(s.Fn)+"/get-put-paired"+suffix, bare(s.Fn)+"/pooled-buffer-confined"+suffix
		if gc == nil {
			a.R.Unknown(rule, k1, a.ipos(s.In), "bytesPool.get is deferred or started as a goroutine")
			continue
		}
		// pairing
		var def *ssa.Defer
		var plain ssa.Instruction
		for _, r := range *gc.Referrers() {
			switch x := r.(type) {
			case *ssa.Defer:
				if x.Call.StaticCallee() == put && len(x.Call.Args) == 2 && x.Call.Args[1] == ssa.Value(gc) {
					def = x
				}
			case *ssa.Call:
				if x.Call.StaticCallee() == put {
					plain = x
				}
			}
		}
		switch {
		case def == nil && plain != nil:
			a.R.Unknown(rule, k1, a.ipos(plain), "the item is released by a plain call of put: use-after-put ordering is not analysed (expected `defer bytesPool.put(item)`)")
		case def == nil:
			a.R.Bad(rule, k1, a.ipos(gc), "the item obtained from bytesPool.get is never returned to the pool by a deferred bytesPool.put: the pool degenerates to allocation and, worse, a later manual put could release a buffer still in use")
		default:
			ok := def.Block() == gc.Block() && ssau.IndexOf(gc) < ssau.IndexOf(def)
			if !ok && gc.Block().Dominates(def.Block()) {
				ok = escapesWithout(gc.Block(), map[*ssa.BasicBlock]bool{def.Block(): true}, func(b *ssa.BasicBlock) bool { return b != gc.Block() && isExit(b) }) == nil
			}
			if ok && plain != nil {
				a.R.Bad(rule, k1, a.ipos(plain), "the item is released twice (deferred put and a plain put)")
			} else {
				a.R.Check(ok, rule, k1, a.ipos(def), "`defer bytesPool.put(item)` on the get result follows the get on every path: the buffer is released exactly when the function returns",
					"a path from bytesPool.get to a return bypasses the deferred put")
			}
		}
		// confinement
		bad, unk := a.poolEscapes(gc, put)
		switch {
		case len(bad) > 0:
			a.R.Bad(rule, k2, a.ipos(gc), "the pooled buffer outlives the function: "+strings.Join(bad, "; "))
		case len(unk) > 0:
			a.R.Unknown(rule, k2, a.ipos(gc), "use of the pooled buffer outside the accepted idioms: "+strings.Join(unk, "; "))
		default:
			a.R.OK(rule, k2, a.ipos(gc), "the item and its .s slice are only sliced, indexed, used with copy/len, passed to isPESPayload and astikit.NewBytesIterator; the iterator is only used through its methods and passed to parse* functions (whether those retain borrowed bytes is property C16's obligation); nothing is stored, returned, appended or converted to an interface")
		}
	}
}

const (
	tItem = iota + 1
	tBytes
	tIter
)

func (a *A) poolEscapes(item *ssa.Call, put *ssa.Function) (bad, unk []string) {
	kind := map[ssa.Value]int{}
	var work []ssa.Value
	mark := func(v ssa.Value, k int) {
		if _, ok := kind[v]; !ok {
			kind[v] = k
			work = append(work, v)
		}
	}
	isIter := func(t types.Type) bool { return ssau.IsNamed(t, load.AstikitPath, "BytesIterator") }
	mark(item, tItem)
	for len(work) > 0 {
		v := work[len(work)-1]
		work = work[:len(work)-1]
		k := kind[v]
		if v.Referrers() == nil {
			continue
		}
		for _, in := range *v.Referrers() {
			at := " at " + a.ipos(in)
			switch x := in.(type) {
			case *ssa.DebugRef:
			case *ssa.FieldAddr:
				if k == tItem {
					mark(x, tItem) // address of .s, same confinement
				}
			case *ssa.UnOp:
				if x.Op == token.MUL {
					if _, isSlice := x.Type().Underlying().(*types.Slice); isSlice && k == tItem {
						mark(x, tBytes)
					}
				}
			case *ssa.Slice:
				if x.X == v && k == tBytes {
					mark(x, tBytes)
				}
			case *ssa.IndexAddr, *ssa.Index, *ssa.BinOp, *ssa.If:
				// element access / nil comparison
			case *ssa.Phi:
				mark(x, k)
			case *ssa.Extract:
				// results of calls are classified at the call
			case *ssa.Store:
				if x.Val == v {
					bad = append(bad, "stored into memory ("+instrText(in)+")"+at)
				}
			case *ssa.MapUpdate:
				bad = append(bad, "stored into a map"+at)
			case *ssa.Return:
				bad = append(bad, "returned"+at)
			case *ssa.MakeInterface:
				bad = append(bad, "converted to an interface ("+instrText(in)+")"+at)
			case *ssa.MakeClosure:
				bad = append(bad, "captured by a closure"+at)
			case *ssa.Send:
				bad = append(bad, "sent on a channel"+at)
			case ssa.CallInstruction:
				cc := x.Common()
				if bi, ok := cc.Value.(*ssa.Builtin); ok {
					switch bi.Name() {
					case "len", "cap", "copy":
					case "append":
						if cc.Args[0] == v {
							bad = append(bad, "appended to (the result aliases the pooled storage)"+at)
						}
					default:
						unk = append(unk, "builtin "+bi.Name()+at)
					}
					continue
				}
				cal := cc.StaticCallee()
				if cal == nil {
					bad = append(bad, "passed to a dynamic call ("+instrText(in)+")"+at)
					continue
				}
				name := ssau.FuncQName(cal)
				switch {
				case cal == put && k == tItem:
				case k == tBytes && name == load.AstikitPath+".NewBytesIterator":
					if val, ok := in.(ssa.Value); ok {
						mark(val, tIter)
					}
				case k == tBytes && cal.Pkg == a.P.SSAPkg && cal.Name() == "isPESPayload":
				case k == tBytes && strings.HasPrefix(name, "(encoding/binary.bigEndian).Uint"):
				case k == tIter && len(cc.Args) > 0 && cc.Args[0] == v && cal.Signature.Recv() != nil && isIter(cal.Signature.Recv().Type()):
					// method of the iterator
					if cal.Name() == "NextBytesNoCopy" {
						if val, ok := in.(ssa.Value); ok {
							for _, e := range ssau.ResultValue(val, 0) {
								mark(e, tBytes)
							}
						}
					}
				case k == tIter && cal.Pkg == a.P.SSAPkg && strings.HasPrefix(cal.Name(), "parse"):
					// borrowed-bytes discipline of the parsers: property C16
				case (k == tBytes || k == tIter) && cal.Pkg == a.P.SSAPkg && len(cal.Blocks) > 0:
					// a helper of the package: the same confinement must hold for its parameter (followed into the callee;
					// returning or storing it there is reported there)
					for i, arg := range cc.Args {
						if arg == v && i < len(cal.Params) {
							mark(cal.Params[i], k)
						}
					}
				default:
					bad = append(bad, "passed to "+name+at)
				}
			default:
				unk = append(unk, instrText(in)+at)
			}
		}
	}
	return
}

// ---------------------------------------------------------------------------------------------
// I4 / S7 map-iteration determinism

func (a *A) reachableFuncs(roots ...*ssa.Function) map[*ssa.Function]bool {
	seen := map[*ssa.Function]bool{}
	var st []*ssa.Function
	for _, r := range roots {
		if r != nil {
			st = append(st, r)
		}
	}
	for len(st) > 0 {
		f := st[len(st)-1]
		st = st[:len(st)-1]
		if seen[f] || f.Blocks == nil {
			continue
		}
		seen[f] = true
		for _, b := range f.Blocks {
			for _, in := range b.Instrs {
				for _, op := range in.Operands(nil) {
					if op == nil || *op == nil {
						continue
					}
					switch x := (*op).(type) {
					case *ssa.Function:
						if x.Pkg == a.P.SSAPkg || x.Parent() != nil {
							st = append(st, x)
						}
					case *ssa.MakeClosure:
						if g, ok := x.Fn.(*ssa.Function); ok {
							st = append(st, g)
						}
					}
				}
			}
		}
	}
	return seen
}

var sortFuncs = map[string]bool{"sort.Ints": true, "sort.Strings": true, "sort.Float64s": true, "sort.Slice": true, "sort.SliceStable": true,
	"sort.Sort": true, "sort.Stable": true, "slices.Sort": true, "slices.SortFunc": true, "slices.SortStableFunc": true}

func (a *A) mapIterationDeterminism() {
	const rule = "S7"
	reach := a.reachableFuncs(a.P.Func("Demuxer.NextData"), a.P.Func("Demuxer.NextPacket"), a.P.Func("Demuxer.Rewind"))
	toPAT := a.P.Func("programMap.toPATDataUnlocked")
	n := 0
	for _, f := range a.funcs {
		if !reach[f] && f != toPAT {
			continue
		}
		k := 0
		for _, b := range f.Blocks {
			for _, in := range b.Instrs {
				rg, ok := in.(*ssa.Range)
				if !ok {
					continue
				}
				if _, isMap := rg.X.Type().Underlying().(*types.Map); !isMap {
					continue
				}
				k++
				n++
				key := fmt.Sprintf("%s/map-range#%d-order-independent", bare(f), k)
				if f == toPAT && !reach[f] {
					a.singleEntryMuxerMap(rule, key, rg)
					continue
				}
				a.sortedRange(rule, key, f, rg)
			}
		}
	}
	a.R.Floor(rule, "map ranges on the demux path and in toPATDataUnlocked", n, 2)
}

func (a *A) sortedRange(rule, key string, f *ssa.Function, rg *ssa.Range) {
	pos := a.ipos(rg)
	// loop header: the block of the Next instruction
	var next *ssa.Next
	for _, r := range *rg.Referrers() {
		if nx, ok := r.(*ssa.Next); ok {
			if next != nil {
				a.R.Unknown(rule, key, pos, "the map iterator is advanced at several places")
				return
			}
			next = nx
		}
	}
	if next == nil {
		a.R.Unknown(rule, key, pos, "range without a next instruction")
		return
	}
	hdr := next.Block()
	iff := blockIf(hdr)
	if iff == nil {
		a.R.Unknown(rule, key, pos, "the range loop header does not end in the ok-test")
		return
	}
	body := hdr.Succs[0]
	inBody := func(b *ssa.BasicBlock) bool { return body.Dominates(b) }
	// effects of the body
	var collected []*ssa.Phi
	var collectedVars []*ssa.Alloc
	var bad []string
	for _, b := range f.Blocks {
		if !inBody(b) {
			continue
		}
		for _, in := range b.Instrs {
			switch x := in.(type) {
			case *ssa.Store:
				if al, ok := x.Addr.(*ssa.IndexAddr); ok {
					if arr, ok := al.X.(*ssa.Alloc); ok && arr.Comment == "varargs" {
						continue
					}
				}
				// keys = append(keys, k) on a local that is captured by a closure (sort.Slice's less function)
				if al, ok := x.Addr.(*ssa.Alloc); ok {
					if ap := callOf(x.Val); ap != nil && isBuiltin(&ap.Call, "append") {
						if ld, ok := ap.Call.Args[0].(*ssa.UnOp); ok && ld.Op == token.MUL && ld.X == ssa.Value(al) {
							collectedVars = append(collectedVars, al)
							continue
						}
					}
				}
				bad = append(bad, "the loop body stores to memory ("+instrText(in)+"): the effect order follows the map order")
			case *ssa.MapUpdate:
				bad = append(bad, "the loop body updates a map")
			case *ssa.Return:
				bad = append(bad, "the loop body returns (first match depends on the map order)")
			case *ssa.Call:
				if isBuiltin(&x.Call, "append") {
					// must feed a loop-carried slice
					fed := false
					for _, r := range *x.Referrers() {
						if ph, ok := r.(*ssa.Phi); ok && ph.Block() == hdr {
							collected = append(collected, ph)
							fed = true
						}
						if st, ok := r.(*ssa.Store); ok && st.Val == ssa.Value(x) {
							if _, isLocal := st.Addr.(*ssa.Alloc); isLocal {
								fed = true // classified at the store
							}
						}
					}
					if !fed {
						bad = append(bad, "an append in the loop body does not feed a loop-carried local slice ("+instrText(in)+")")
					}
					continue
				}
				if _, ok := x.Call.Value.(*ssa.Builtin); ok {
					if isBuiltin(&x.Call, "delete") {
						bad = append(bad, "the loop body deletes from a map")
					}
					continue
				}
				bad = append(bad, "the loop body calls "+ssau.CalleeName(&x.Call)+" (order of side effects follows the map order)")
			case *ssa.Defer, *ssa.Go, *ssa.Send:
				bad = append(bad, "the loop body has an ordered effect: "+instrText(in))
			}
		}
	}
	if len(bad) > 0 {
		a.R.Unknown(rule, key, pos, "range over a map whose body is not of the collect-then-sort form: "+strings.Join(bad, "; "))
		return
	}
	if len(collected) == 0 && len(collectedVars) == 0 {
		a.R.OK(rule, key, pos, "the loop body has no order-dependent effect")
		return
	}
	// collected into an address-taken local (captured by the comparison closure of sort.Slice)
	for _, al := range collectedVars {
		var sorts []ssa.Instruction
		isSortOf := func(c *ssa.Call) bool {
			if !sortFuncs[ssau.CalleeName(&c.Call)] || len(c.Call.Args) == 0 {
				return false
			}
			ld, ok := stripIfaceVal(c.Call.Args[0]).(*ssa.UnOp)
			return ok && ld.Op == token.MUL && ld.X == ssa.Value(al)
		}
		for _, b := range f.Blocks {
			for _, in := range b.Instrs {
				if c, ok := in.(*ssa.Call); ok && isSortOf(c) && !inBody(b) && b != hdr {
					sorts = append(sorts, c)
				}
			}
		}
		for _, r := range *al.Referrers() {
			if inBody(r.Block()) {
				continue
			}
			switch x := r.(type) {
			case *ssa.DebugRef:
				continue
			case *ssa.Store:
				if x.Addr == ssa.Value(al) && ssau.InstrBefore(x, rg) {
					continue // initialisation before the loop
				}
			case *ssa.MakeClosure:
				// only as the comparison function of one of the sorts
				only := true
				for _, rr := range *x.Referrers() {
					c, ok := rr.(*ssa.Call)
					if !ok || !sortFuncs[ssau.CalleeName(&c.Call)] {
						only = false
					}
				}
				if only {
					continue
				}
			case *ssa.UnOp:
				feedsSort := false
				for _, rr := range *x.Referrers() {
					if mi, ok := rr.(*ssa.MakeInterface); ok {
						for _, r3 := range *mi.Referrers() {
							if c, ok := r3.(*ssa.Call); ok && isSortOf(c) {
								feedsSort = true
							}
						}
					}
					if c, ok := rr.(*ssa.Call); ok && isSortOf(c) {
						feedsSort = true
					}
				}
				if feedsSort {
					continue
				}
			}
			ordered := false
			for _, s := range sorts {
				if ssau.InstrBefore(s, r) {
					ordered = true
				}
			}
			if !ordered {
				bad = append(bad, fmt.Sprintf("the collected slice %s is used by %s at %s without a dominating sort", al.Comment, instrText(r), a.ipos(r)))
			}
		}
	}
	for _, ph := range collected {
		var sorts []ssa.Instruction
		for _, r := range *ph.Referrers() {
			if c, ok := r.(*ssa.Call); ok && sortFuncs[ssau.CalleeName(&c.Call)] && len(c.Call.Args) > 0 && stripIfaceVal(c.Call.Args[0]) == ssa.Value(ph) && !inBody(c.Block()) && c.Block() != hdr {
				sorts = append(sorts, c)
			}
		}
		for _, r := range *ph.Referrers() {
			if inBody(r.Block()) {
				continue
			}
			if _, isDbg := r.(*ssa.DebugRef); isDbg {
				continue
			}
			isSort := false
			for _, s := range sorts {
				if s == r {
					isSort = true
				}
			}
			if isSort {
				continue
			}
			if mi, ok := r.(*ssa.MakeInterface); ok {
				// sort.Slice(x, less): the interface wrapper itself
				onlySort := true
				for _, rr := range *mi.Referrers() {
					if c, ok := rr.(*ssa.Call); !ok || !sortFuncs[ssau.CalleeName(&c.Call)] {
						onlySort = false
					}
				}
				if onlySort {
					continue
				}
			}
			ordered := false
			for _, s := range sorts {
				if ssau.InstrBefore(s, r) {
					ordered = true
				}
			}
			if !ordered {
				bad = append(bad, fmt.Sprintf("the collected slice %s is used by %s at %s without a dominating sort", ph.Comment, instrText(r), a.ipos(r)))
			}
		}
	}
	a.R.Check(len(bad) == 0, rule, key, pos, "the body only appends the keys to a local slice, and a sort of that slice dominates every later use: the iteration order of the map cannot influence the result",
		strings.Join(bad, "; "))
}

func stripIfaceVal(v ssa.Value) ssa.Value {
	if mi, ok := v.(*ssa.MakeInterface); ok {
		return mi.X
	}
	return v
}

// singleEntryMuxerMap: the muxer's program map has exactly one entry, so its iteration order is irrelevant.
func (a *A) singleEntryMuxerMap(rule, key string, rg *ssa.Range) {
	pos := a.ipos(rg)
	set, unset := a.P.Func("programMap.setUnlocked"), a.P.Func("programMap.unsetUnlocked")
	newMuxer := a.P.Func("NewMuxer")
	toPAT := rg.Parent()
	if set == nil || unset == nil || newMuxer == nil {
		a.R.Unknown(rule, key, pos, "anchors setUnlocked/unsetUnlocked/NewMuxer not found")
		return
	}
	var bad []string
	// toPATDataUnlocked is called on Muxer.pm only
	sites, other := a.callSites(toPAT)
	if len(other) > 0 {
		bad = append(bad, "toPATDataUnlocked is used as a function value")
	}
	for _, s := range sites {
		root, fs := fieldChain(s.In.Common().Args[0])
		if !(ssau.IsNamed(root.Type(), load.RootPath, "Muxer") && len(fs) == 1 && fs[0] == "pm") {
			bad = append(bad, "toPATDataUnlocked is called on "+describe(s.In.Common().Args[0])+" in "+short(s.Fn)+" (a map with several entries)")
		}
	}
	// exactly one setUnlocked on Muxer.pm, in NewMuxer, outside any loop
	nset := 0
	for _, m := range []*ssa.Function{set, unset} {
		ss, _ := a.callSites(m)
		for _, s := range ss {
			root, fs := fieldChain(s.In.Common().Args[0])
			if !(ssau.IsNamed(root.Type(), load.RootPath, "Muxer") && len(fs) == 1 && fs[0] == "pm") &&
				!(len(fs) == 0 && ssau.StoredInField(root, load.RootPath, "Muxer", "pm") != nil) {
				continue
			}
			if m == unset {
				bad = append(bad, "unsetUnlocked is called on Muxer.pm in "+short(s.Fn))
				continue
			}
			nset++
			if s.Fn != newMuxer {
				bad = append(bad, "setUnlocked is called on Muxer.pm in "+short(s.Fn))
			}
			if inCycle(s.In.Block()) {
				bad = append(bad, "setUnlocked on Muxer.pm is inside a loop")
			}
		}
	}
	if nset != 1 {
		bad = append(bad, fmt.Sprintf("%d setUnlocked call sites on Muxer.pm (expected exactly 1)", nset))
	}
	// Muxer.pm itself is assigned once, from newProgramMap(), and its pointer goes nowhere else
	for _, f := range a.funcs {
		for _, b := range f.Blocks {
			for _, in := range b.Instrs {
				fa, ok := in.(*ssa.FieldAddr)
				if !ok {
					continue
				}
				if _, isPm := a.fieldAddrOf(fa, "Muxer", "pm"); !isPm {
					continue
				}
				for _, r := range *fa.Referrers() {
					switch x := r.(type) {
					case *ssa.Store:
						c := callOf(x.Val)
						if f != newMuxer || c == nil || c.Call.StaticCallee() != a.P.Func("newProgramMap") {
							bad = append(bad, "Muxer.pm is assigned in "+short(f)+" with "+x.Val.String())
						}
					case *ssa.UnOp:
						for _, rr := range *x.Referrers() {
							if d, ok := rr.(*ssa.UnOp); ok && d.Op == token.MUL {
								continue // value-receiver method call operand, checked via call sites above
							}
							if _, ok := rr.(*ssa.DebugRef); ok {
								continue
							}
							bad = append(bad, "the *programMap held in Muxer.pm is used by "+instrText(rr)+" in "+short(f))
						}
					case *ssa.DebugRef:
					default:
						bad = append(bad, "the address of Muxer.pm is used by "+instrText(r)+" in "+short(f))
					}
				}
			}
		}
	}
	a.R.Check(len(bad) == 0, rule, key, pos,
		"who-may-write shows exactly one setUnlocked call site on Muxer.pm (in NewMuxer, outside any loop), no unsetUnlocked, Muxer.pm assigned once from newProgramMap() and not aliased: the ranged map has a single entry, its order is irrelevant",
		strings.Join(bad, "; "))
}

// ---------------------------------------------------------------------------------------------
// I5 pid and FirstPacket come from ps[0] of the group

func (a *A) firstPacketIdentity() {
	const rule = "I5"
	pd := a.anchor(rule, "parseData")
	if pd == nil {
		return
	}
	pd = a.defaultProcess(pd) // parseData itself, or the default process it tail-calls with its packet group
	if len(pd.Params) < 1 {
		a.R.Unknown(rule, "anchor/parseData", a.fpos(pd), "parseData has no parameters")
		return
	}
	ps := pd.Params[0]
	isFirst := func(v ssa.Value) bool {
		return a.isIndexLoad(v, func(x ssa.Value) bool { return x == ssa.Value(ps) }, 0)
	}
	fromFirst := func(v ssa.Value, fields ...string) bool {
		root, fs := fieldChain(v)
		if !isFirst(root) || len(fs) != len(fields) {
			return false
		}
		for i := range fs {
			if fs[i] != fields[i] {
				return false
			}
		}
		return true
	}
	var bad []string
	npid, nfp := 0, 0
	// constant indices into ps
	for _, r := range *ps.Referrers() {
		if ia, ok := r.(*ssa.IndexAddr); ok {
			if k, isC := ssau.ConstInt(ia.Index); isC && k != 0 {
				bad = append(bad, fmt.Sprintf("parseData reads ps[%d] at %s", k, a.ipos(ia)))
			}
		}
	}
	firstPacketOK := func(v ssa.Value) (bool, string) {
		al, ok := v.(*ssa.Alloc)
		if !ok || !ssau.IsNamed(al.Type(), load.RootPath, "Packet") {
			if isFirst(v) {
				return true, "" // ps[0] itself
			}
			return false, "FirstPacket is " + describe(v) + ", not a copy of ps[0]'s header and adaptation field"
		}
		hdr, af := false, false
		for _, r := range *al.Referrers() {
			fa, ok := r.(*ssa.FieldAddr)
			if !ok {
				continue
			}
			n, _ := ssau.FieldName(fa)
			for _, rr := range *fa.Referrers() {
				st, ok := rr.(*ssa.Store)
				if !ok || st.Addr != ssa.Value(fa) {
					continue
				}
				switch n {
				case "Header":
					if !fromFirst(st.Val, "Header") {
						return false, "FirstPacket.Header is " + describe(st.Val) + ", not ps[0].Header"
					}
					hdr = true
				case "AdaptationField":
					if !fromFirst(st.Val, "AdaptationField") {
						return false, "FirstPacket.AdaptationField is " + describe(st.Val) + ", not ps[0].AdaptationField"
					}
					af = true
				}
			}
		}
		if !hdr || !af {
			return false, "the FirstPacket copy does not take both Header and AdaptationField from ps[0]"
		}
		return true, ""
	}
	for _, b := range pd.Blocks {
		for _, in := range b.Instrs {
			switch x := in.(type) {
			case *ssa.Store:
				if _, ok := a.fieldAddrOf(x.Addr, "DemuxerData", "PID"); ok {
					npid++
					for _, l := range ssau.Leaves(x.Val) {
						if l == nil || !fromFirst(l, "Header", "PID") {
							bad = append(bad, "DemuxerData.PID is set to "+describe(l)+" at "+a.ipos(x)+", not ps[0].Header.PID")
						}
					}
				}
				if _, ok := a.fieldAddrOf(x.Addr, "DemuxerData", "FirstPacket"); ok {
					nfp++
					for _, l := range ssau.Leaves(x.Val) {
						if l == nil {
							bad = append(bad, "DemuxerData.FirstPacket may be nil")
						} else if ok, why := firstPacketOK(l); !ok {
							bad = append(bad, why+" at "+a.ipos(x))
						}
					}
				}
			case *ssa.Call:
				cal := x.Call.StaticCallee()
				if cal == nil || cal.Pkg != a.P.SSAPkg {
					continue
				}
				// callees receiving a pid (uint16 named pid) or a first packet
				sig := cal.Signature
				off := 0
				if sig.Recv() != nil {
					off = 1
				}
				for i := 0; i < sig.Params().Len(); i++ {
					prm := sig.Params().At(i)
					arg := x.Call.Args[i+off]
					switch {
					case prm.Name() == "pid" && types.Identical(prm.Type(), types.Typ[types.Uint16]):
						npid++
						for _, l := range ssau.Leaves(arg) {
							if l == nil || !fromFirst(l, "Header", "PID") {
								bad = append(bad, "the pid passed to "+short(cal)+" is "+describe(l)+", not ps[0].Header.PID")
							}
						}
					case prm.Name() == "firstPacket":
						nfp++
						for _, l := range ssau.Leaves(arg) {
							if l == nil {
								bad = append(bad, "the first packet passed to "+short(cal)+" may be nil")
							} else if ok, why := firstPacketOK(l); !ok {
								bad = append(bad, why+" (argument of "+short(cal)+")")
							}
						}
					}
				}
			}
		}
	}
	a.R.Floor(rule, "uses of the unit's pid in parseData", npid, 2)
	a.R.Floor(rule, "uses of the unit's first packet in parseData", nfp, 2)
	a.R.Check(len(bad) == 0, rule, "parseData/pid-and-first-packet-from-ps0", a.fpos(pd),
		fmt.Sprintf("all %d pid uses are loads of ps[0].Header.PID and all %d FirstPacket values copy ps[0].Header/AdaptationField; no other constant index into ps: what is attributed to a unit comes from the group it was handed (groups are single-accumulator by S6/I1)", npid, nfp),
		strings.Join(bad, "; "))
}

// retSite lets a Return stand where the rule expects the instruction that consumes the accumulator (only its block is used).
type retSite struct{ *ssa.Return }

func (r retSite) Common() *ssa.CallCommon { return nil }
func (r retSite) Value() *ssa.Call        { return nil }
