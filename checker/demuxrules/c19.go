package demuxrules

import (
	"fmt"
	"sort"
	"strings"

	"golang.org/x/tools/go/ssa"

	"astverif/load"
	"astverif/ssau"
)

// C19 runs the clauses (a)–(f) of property C19.
func (a *A) C19() {
	sk := a.skipperOrdering()
	a.skipEdge(sk)
	a.skippedNeverPooled()
	prs := a.parserFirst()
	a.parserResult(prs)
	// "each assembled unit exactly once": the accumulator that receives a packet is the one the pool's map holds under the
	// packet's PID (I1 of C07) — a cached accumulator outlives the drain that already handed its packets to the parser
	a.keyedByPID()
	// the only packets that never reach an accumulator (and so never the parser) are those with the transport error
	// indicator or without payload (S5 of C06/C07): no PID is exempt
	a.filtersFirst()
}

func (a *A) global(name string) *ssa.Global {
	g, _ := a.P.SSAPkg.Members[name].(*ssa.Global)
	return g
}

// ---------------------------------------------------------------------------------------------
// (a) the skipper is consulted once per packet, after header and adaptation field, before the payload

func (a *A) skipperOrdering() *ssa.Call {
	const rule = "S5"
	pp := a.anchor(rule, "parsePacket")
	hdr := a.anchor(rule, "parsePacketHeader")
	af := a.anchor(rule, "parsePacketAdaptationField")
	if pp == nil || hdr == nil || af == nil {
		return nil
	}
	for _, in := range a.retypedValuesOf("PacketSkipper") {
		a.R.Unknown(rule, "skipper/retyped/"+bare(in.Parent()), a.ipos(in), "a PacketSkipper value is converted to another type: calls through the converted value are not enumerated")
	}
	sites := a.dynCallsOfType("PacketSkipper")
	a.R.Floor(rule, "call sites of a PacketSkipper value", len(sites), 1)
	var sk *ssa.Call
	var pktVal ssa.Value // the packet handed to the skipper, as a value of parsePacket
	{
		const key = "parsePacket/skipper-called-once"
		var bad []string
		if len(sites) != 1 {
			bad = append(bad, fmt.Sprintf("%d call sites of a PacketSkipper value in the package (expected exactly 1)", len(sites)))
		}
		for _, s := range sites {
			if s.Fn != pp {
				// the consultation moved into a helper `func(s PacketSkipper, p *Packet) bool { return s != nil && s(p) }`
				if hc, hp, why := a.skipperHelper(pp, s); hc != nil {
					sk, pktVal = hc, hp
					if inCycle(hc.Block()) {
						bad = append(bad, "the skipper helper is called inside a loop of parsePacket")
					}
				} else {
					bad = append(bad, "a PacketSkipper is called in "+short(s.Fn)+" at "+a.ipos(s.In)+" ("+why+")")
				}
				continue
			}
			c, ok := s.In.(*ssa.Call)
			if !ok {
				bad = append(bad, "the skipper is deferred or started as a goroutine")
				continue
			}
			if sk == nil {
				sk = c
				if len(c.Call.Args) > 0 {
					pktVal = c.Call.Args[0]
				}
			}
			if inCycle(c.Block()) {
				bad = append(bad, "the skipper call is inside a loop of parsePacket")
			}
			if c.Call.Value != ssa.Value(pp.Params[len(pp.Params)-1]) && !isParam(pp, c.Call.Value) {
				bad = append(bad, "the called skipper is not parsePacket's parameter")
			}
		}
		pos := a.fpos(pp)
		if sk != nil {
			pos = a.ipos(sk)
		}
		if len(sites) == 0 {
			a.R.Bad(rule, key, pos, "no PacketSkipper value is ever called: the option has no effect")
			return nil
		}
		a.R.Check(len(bad) == 0, rule, key, pos, "exactly one call site of a PacketSkipper value in the package, in parsePacket, outside any loop: the predicate is consulted once per parsed packet, in stream order", strings.Join(bad, "; "))
	}
	if sk == nil {
		return nil
	}
	pkt := pktVal
	pos := a.ipos(sk)
	// header first
	{
		const key = "parsePacket/skipper-after-header"
		var bad []string
		hs := callsTo(pp, hdr)
		if len(hs) == 0 {
			bad = append(bad, "parsePacket does not call parsePacketHeader")
		}
		for _, h := range hs {
			hc, ok := h.(*ssa.Call)
			if !ok || !ssau.InstrBefore(hc, sk) {
				bad = append(bad, "parsePacketHeader at "+a.ipos(h)+" does not dominate the skipper call")
				continue
			}
			stored := false
			for _, r := range *pktRefs(pkt) {
				fa, ok := r.(*ssa.FieldAddr)
				if !ok {
					continue
				}
				if n, _ := ssau.FieldName(fa); n != "Header" {
					continue
				}
				for _, rr := range *fa.Referrers() {
					if st, ok := rr.(*ssa.Store); ok && st.Addr == ssa.Value(fa) && st.Val == extractOf(hc, 0) && ssau.InstrBefore(st, sk) {
						stored = true
					}
				}
			}
			if !stored {
				bad = append(bad, "the parsed header is not stored in the packet handed to the skipper before the call")
			}
		}
		a.R.Check(len(bad) == 0, rule, key, pos, "parsePacketHeader dominates the skipper call and its result is stored in p.Header before it", strings.Join(bad, "; "))
	}
	// adaptation field first (when flagged)
	{
		const key = "parsePacket/skipper-after-adaptation-field"
		var bad []string
		afs := callsTo(pp, af)
		ifs := ifsOn(pp, func(v ssa.Value) bool { return isFieldLoad(v, pkt, "Header", "HasAdaptationField") })
		switch {
		case len(afs) == 0:
			bad = append(bad, "parsePacket does not call parsePacketAdaptationField")
		case len(ifs) != 1:
			bad = append(bad, fmt.Sprintf("%d tests of p.Header.HasAdaptationField (expected 1)", len(ifs)))
		default:
			T, excl := ifs[0].when(true)
			if !excl {
				bad = append(bad, "the adaptation-field edge is shared with other paths")
			}
			if !ifs[0].If.Block().Dominates(sk.Block()) {
				bad = append(bad, "the HasAdaptationField test does not dominate the skipper call")
			}
			via := map[*ssa.BasicBlock]bool{}
			for _, f := range afs {
				fc, ok := f.(*ssa.Call)
				if !ok {
					bad = append(bad, "parsePacketAdaptationField is deferred")
					continue
				}
				if canFollow(sk, fc) {
					bad = append(bad, "parsePacketAdaptationField at "+a.ipos(fc)+" can execute after the skipper was consulted: the predicate sees a packet without its adaptation field")
				}
				if !T.Dominates(fc.Block()) {
					bad = append(bad, "parsePacketAdaptationField is not on the HasAdaptationField edge")
				}
				// the result must be in p.AdaptationField
				stored := false
				for _, r := range *pktRefs(pkt) {
					fa, ok := r.(*ssa.FieldAddr)
					if !ok {
						continue
					}
					if n, _ := ssau.FieldName(fa); n != "AdaptationField" {
						continue
					}
					for _, rr := range *fa.Referrers() {
						if st, ok := rr.(*ssa.Store); ok && st.Addr == ssa.Value(fa) && st.Val == extractOf(fc, 0) && !canFollow(sk, st) {
							stored = true
						}
					}
				}
				if !stored {
					bad = append(bad, "the parsed adaptation field is not stored in the packet before the skipper call")
				}
				via[fc.Block()] = true
			}
			if T.Dominates(sk.Block()) {
				bad = append(bad, "the skipper is only consulted for packets with an adaptation field")
			} else if esc := escapesWithout(T, via, func(b *ssa.BasicBlock) bool { return b == sk.Block() }); esc != nil {
				bad = append(bad, "a path from the HasAdaptationField edge reaches the skipper call without parsing the adaptation field")
			}
		}
		a.R.Check(len(bad) == 0, rule, key, pos,
			"the HasAdaptationField test dominates the skipper call, every path from its true edge to the call passes parsePacketAdaptationField (result stored in p.AdaptationField), and the parse cannot follow the call: the predicate sees header and adaptation field fully parsed",
			strings.Join(bad, "; "))
	}
	// payload after
	{
		const key = "parsePacket/skipper-before-payload"
		var bad []string
		var extr []ssa.Instruction
		for _, b := range pp.Blocks {
			for _, in := range b.Instrs {
				switch x := in.(type) {
				case *ssa.Call:
					n := ssau.CalleeName(&x.Call)
					if n == "(*"+load.AstikitPath+".BytesIterator).Dump" || n == "(*"+load.AstikitPath+".BytesIterator).NextBytes" || n == "(*"+load.AstikitPath+".BytesIterator).NextBytesNoCopy" {
						extr = append(extr, in)
					}
					if cal := x.Call.StaticCallee(); cal != nil && cal.Pkg == a.P.SSAPkg && cal.Name() == "payloadOffset" {
						extr = append(extr, in)
					}
				case *ssa.Store:
					if _, ok := a.fieldAddrOf(x.Addr, "Packet", "Payload"); ok {
						extr = append(extr, in)
					}
				}
			}
		}
		a.R.Floor(rule, "payload extraction sites in parsePacket (payloadOffset, Dump, store to Payload)", len(extr), 2)
		// nil guard of the skipper value
		var guardBlk, nonNil *ssa.BasicBlock
		for _, ed := range ssau.DominatingEdges(sk.Block()) {
			if nc, ok := ssau.AsNilCompare(ed.If.Cond); ok && nc.X == sk.Call.Value && (ed.Succ == 0) == nc.Ne {
				guardBlk, nonNil = ed.If.Block(), ed.If.Block().Succs[ed.Succ]
			}
		}
		for _, e := range extr {
			if canFollow(e, sk) {
				bad = append(bad, fmt.Sprintf("%s at %s can execute before the skipper is consulted", instrText(e), a.ipos(e)))
				continue
			}
			switch {
			case sk.Block() == e.Block() || sk.Block().Dominates(e.Block()):
			case guardBlk != nil && guardBlk.Dominates(e.Block()) &&
				escapesWithout(nonNil, map[*ssa.BasicBlock]bool{sk.Block(): true}, func(b *ssa.BasicBlock) bool { return b == e.Block() }) == nil:
			default:
				bad = append(bad, fmt.Sprintf("%s at %s is reachable without consulting a configured skipper", instrText(e), a.ipos(e)))
			}
		}
		a.R.Check(len(bad) == 0, rule, key, pos,
			fmt.Sprintf("all %d payload extraction sites (payloadOffset, Dump, store to p.Payload) come after the skipper: none can precede the call, and with a non-nil skipper every path to them passes the call", len(extr)),
			strings.Join(bad, "; "))
	}
	return sk
}

// skipperHelper: s is the package's PacketSkipper call site and lives in a helper h. The helper form is accepted when h calls its own
// skipper parameter on its own packet parameter, outside any loop; every return of h yields either the constant false on the
// skipper == nil edge or the call's result itself; and parsePacket calls h exactly once with its skipper parameter. It returns that
// call of h in parsePacket and the packet argument (values of parsePacket).
func (a *A) skipperHelper(pp *ssa.Function, s site) (*ssa.Call, ssa.Value, string) {
	h := s.Fn
	c, ok := s.In.(*ssa.Call)
	if !ok || len(c.Call.Args) != 1 {
		return nil, nil, "not a plain call with one argument"
	}
	si, pi := -1, -1
	for i, prm := range h.Params {
		if c.Call.Value == ssa.Value(prm) {
			si = i
		}
		if c.Call.Args[0] == ssa.Value(prm) {
			pi = i
		}
	}
	if si < 0 || pi < 0 {
		return nil, nil, "the helper does not call its own skipper parameter on its own packet parameter"
	}
	if inCycle(c.Block()) {
		return nil, nil, "the call is inside a loop of the helper"
	}
	for _, ret := range ssau.Returns(h) {
		if len(ret.Results) != 1 {
			return nil, nil, "the helper does not return one boolean"
		}
		for _, l := range ssau.Leaves(ret.Results[0]) {
			if l == ssa.Value(c) {
				continue
			}
			if b, isB := ssau.ConstBool(l); isB && !b {
				continue
			}
			return nil, nil, "the helper returns something other than the skipper's answer or false"
		}
	}
	// the call is made whenever the skipper is non-nil: from the non-nil edge of the nil test every return passes the call
	guarded := false
	for _, ed := range ssau.DominatingEdges(c.Block()) {
		if nc, ok := ssau.AsNilCompare(ed.If.Cond); ok && nc.X == c.Call.Value && (ed.Succ == 0) == nc.Ne {
			nonNil := ed.If.Block().Succs[ed.Succ]
			if escapesWithout(nonNil, map[*ssa.BasicBlock]bool{c.Block(): true}, isExit) == nil {
				guarded = true
			}
		}
	}
	if !guarded {
		return nil, nil, "a non-nil skipper is not consulted on every path of the helper"
	}
	sites, other := a.callSites(h)
	if len(other) > 0 || len(sites) != 1 || sites[0].Fn != pp {
		return nil, nil, "the helper is not called exactly once, from parsePacket"
	}
	hc, ok := sites[0].In.(*ssa.Call)
	if !ok || !isParam(pp, hc.Call.Args[si]) {
		return nil, nil, "parsePacket does not hand its own skipper parameter to the helper"
	}
	return hc, hc.Call.Args[pi], ""
}

func isParam(f *ssa.Function, v ssa.Value) bool {
	for _, p := range f.Params {
		if ssa.Value(p) == v {
			return true
		}
	}
	return false
}

func pktRefs(v ssa.Value) *[]ssa.Instruction {
	if r := v.Referrers(); r != nil {
		return r
	}
	return &[]ssa.Instruction{}
}

// ---------------------------------------------------------------------------------------------
// (b) the skip edge returns (nil, errSkippedPacket); only that error continues the read loop

func (a *A) skipEdge(sk *ssa.Call) {
	const rule = "S5"
	g := a.global("errSkippedPacket")
	pp := a.P.Func("parsePacket")
	next := a.anchor(rule, "packetBuffer.next")
	if g == nil {
		a.R.Unknown(rule, "anchor/errSkippedPacket", "-", "package variable errSkippedPacket not found")
		return
	}
	region := map[*ssa.BasicBlock]bool{}
	if sk != nil {
		const key = "parsePacket/skip-edge-returns-nil-and-sentinel"
		ifs := ifsOn(pp, func(v ssa.Value) bool { return v == ssa.Value(sk) })
		if len(ifs) != 1 {
			a.R.Bad(rule, key, a.ipos(sk), fmt.Sprintf("the skipper's answer is branched on %d times (expected once): a skipped packet is not dropped", len(ifs)))
		} else {
			T, excl := ifs[0].when(true)
			region = reachableFrom(T, nil)
			var bad []string
			if !excl {
				bad = append(bad, "the skip edge is shared with other paths")
			}
			nret := 0
			for b := range region {
				ret := blockReturn(b)
				if ret == nil {
					continue
				}
				nret++
				if len(ret.Results) != 2 {
					bad = append(bad, "unexpected result arity")
					continue
				}
				for _, l := range pathVals(ret.Results[0], b, nil, T) {
					if l == nil || ssau.IsNilConst(l) {
						continue
					}
					bad = append(bad, "the skip edge returns the packet "+l.Name()+" = "+l.String()+" (a skipped packet must never be returned)")
				}
				ls := pathVals(ret.Results[1], b, nil, T)
				if len(ls) != 1 || ls[0] == nil || ssau.GlobalOf(ls[0]) != g {
					bad = append(bad, "the skip edge returns the error "+valList(ls)+" instead of errSkippedPacket")
				}
			}
			if nret == 0 {
				bad = append(bad, "the skip edge does not return")
			}
			a.R.Check(len(bad) == 0, rule, key, a.ipos(ifs[0].If), "every return reachable from the skip-true edge is (nil, errSkippedPacket)", strings.Join(bad, "; "))
		}
	}
	// who may use the sentinel
	var isCalls []*ssa.Call
	users := map[*ssa.Function][]string{}
	userPos := map[*ssa.Function]ssa.Instruction{}
	for _, f := range a.funcs {
		for _, b := range f.Blocks {
			for _, in := range b.Instrs {
				uses := false
				for _, op := range in.Operands(nil) {
					if op != nil && *op == ssa.Value(g) {
						uses = true
					}
				}
				if !uses {
					continue
				}
				if userPos[f] == nil {
					userPos[f] = in
					users[f] = nil
				}
				ld, ok := in.(*ssa.UnOp)
				if !ok {
					users[f] = append(users[f], "errSkippedPacket is used by "+instrText(in))
					continue
				}
				for _, r := range *ld.Referrers() {
					switch x := r.(type) {
					case *ssa.DebugRef:
					case *ssa.Return:
						if !(f == pp && region[x.Block()]) {
							users[f] = append(users[f], "errSkippedPacket is returned outside the skip edge at "+a.ipos(x))
						}
					case *ssa.Call:
						if ssau.CalleeName(&x.Call) == "errors.Is" && len(x.Call.Args) == 2 && x.Call.Args[1] == ssa.Value(ld) && f == next {
							isCalls = append(isCalls, x)
						} else {
							users[f] = append(users[f], "errSkippedPacket is passed to "+instrText(x))
						}
					case *ssa.Phi:
						// a phi that only feeds returns of the skip region
						okPhi := f == pp
						for _, rr := range *x.Referrers() {
							if ret, isRet := rr.(*ssa.Return); !isRet || !region[ret.Block()] {
								okPhi = false
							}
						}
						if !okPhi {
							users[f] = append(users[f], "errSkippedPacket flows into "+instrText(x))
						}
					default:
						users[f] = append(users[f], "errSkippedPacket is used by "+instrText(r))
					}
				}
			}
		}
	}
	for f, bad := range users {
		a.R.Check(len(bad) == 0, rule, "errSkippedPacket/used-by/"+bare(f), a.ipos(userPos[f]),
			"the sentinel is only returned on the skip edge of parsePacket and compared with errors.Is in (*packetBuffer).next", strings.Join(bad, "; "))
	}
	a.R.Floor(rule, "functions using errSkippedPacket", len(users), 2)
	// the read loop
	if next == nil || pp == nil {
		return
	}
	const key = "next/only-skipped-packets-continue"
	pcs := callsTo(next, pp)
	if len(pcs) != 1 {
		a.R.Unknown(rule, key, a.fpos(next), fmt.Sprintf("%d parsePacket call sites in (*packetBuffer).next (expected 1)", len(pcs)))
		return
	}
	pc, _ := pcs[0].(*ssa.Call)
	if pc == nil {
		a.R.Unknown(rule, key, a.ipos(pcs[0]), "parsePacket is deferred")
		return
	}
	pos := a.ipos(pc)
	perr, ppkt := extractOf(pc, 1), extractOf(pc, 0)
	reads := map[*ssa.BasicBlock]bool{}
	for _, c := range ssau.Calls(next) {
		if a.isReaderTouch(c) {
			reads[c.Block()] = true
		}
	}
	if len(reads) == 0 || perr == nil {
		a.R.Unknown(rule, key, pos, "no read from the input reader / no error result of parsePacket found in (*packetBuffer).next")
		return
	}
	errIfs := ifsOn(next, func(v ssa.Value) bool { nc, ok := ssau.AsNilCompare(v); return ok && nc.X == perr })
	if len(errIfs) == 0 {
		a.R.Bad(rule, key, pos, "the error of parsePacket is not tested: every failure (not only a skipped packet) lets the loop go on to the next packet")
		return
	}
	var bad []string
	var theIs *ssa.Call
	for _, c := range isCalls {
		if c.Call.Args[0] == perr {
			theIs = c
		}
	}
	var isIf *condIf
	if theIs != nil {
		if ifs := ifsOn(next, func(v ssa.Value) bool { return v == ssa.Value(theIs) }); len(ifs) == 1 {
			isIf = &ifs[0]
		}
	}
	if isIf == nil {
		bad = append(bad, "there is no single branch on errors.Is(err, errSkippedPacket) for parsePacket's error")
	}
	// (i) any other error leaves the loop: from the non-nil edge, without taking the errors.Is-true edge, no read is reachable
	var skipFrom, skipTo *ssa.BasicBlock
	if isIf != nil {
		skipFrom = isIf.If.Block()
		skipTo, _ = isIf.when(true)
	}
	for _, ei := range errIfs {
		nc, _ := ssau.AsNilCompare(ei.V)
		E, _ := ei.when(nc.Ne)
		seen := map[*ssa.BasicBlock]bool{}
		st := []*ssa.BasicBlock{E}
		for len(st) > 0 {
			b := st[len(st)-1]
			st = st[:len(st)-1]
			if seen[b] {
				continue
			}
			seen[b] = true
			if reads[b] {
				bad = append(bad, "an error of parsePacket other than errSkippedPacket continues with the next read (block reached: "+a.ipos(lastInstr(b))+"): a malformed packet is silently dropped")
				break
			}
			for _, s := range b.Succs {
				if b == skipFrom && s == skipTo && b.Succs[0] != b.Succs[1] {
					continue
				}
				st = append(st, s)
			}
		}
	}
	// (ii) a skipped packet continues with the next read and is not returned
	if isIf != nil {
		start := skipTo
		if iff := blockIf(start); iff != nil {
			if nc, ok := ssau.AsNilCompare(iff.Cond); ok {
				// `for p == nil`: on the edge from the errors.Is test p is parsePacket's packet, nil by obligation (b)
				v := nc.X
				if ph, isPhi := v.(*ssa.Phi); isPhi && ph.Block() == start {
					for i, p := range start.Preds {
						if p == skipFrom {
							v = ph.Edges[i]
						}
					}
				}
				if ppkt != nil && v == ppkt {
					i := 0
					if nc.Ne {
						i = 1
					}
					start = start.Succs[i]
				}
			}
		}
		if esc := escapesWithout(start, reads, isExit); esc != nil {
			bad = append(bad, "after a skipped packet the function can return ("+a.ipos(lastInstr(esc))+") without reading the next packet")
		}
	}
	a.R.Check(len(bad) == 0, rule, key, pos,
		"on the errors.Is(err, errSkippedPacket) edge control returns to the next ReadFull before any return (the packet is nil there by the skip-edge obligation); from the error edge no other path reaches a read: every other error leaves the loop",
		strings.Join(bad, "; "))
}

// ---------------------------------------------------------------------------------------------
// (c) nothing about a skipped packet reaches the pool

func (a *A) skippedNeverPooled() {
	const rule = "S2"
	nd := a.anchor(rule, "Demuxer.NextData")
	np := a.anchor(rule, "Demuxer.NextPacket")
	au := a.anchor(rule, "packetPool.addUnlocked")
	add := a.anchor(rule, "packetAccumulator.add")
	if nd == nil || np == nil || au == nil || add == nil {
		return
	}
	sites, other := a.callSites(au)
	for _, o := range other {
		a.R.Unknown(rule, "addUnlocked/used-as-value/"+bare(o.Parent()), a.ipos(o), "addUnlocked is used as a function value")
	}
	a.R.Floor(rule, "addUnlocked call sites", len(sites), 1)
	for _, s := range sites {
		key := "addUnlocked/called-from/" + bare(s.Fn)
		if s.Fn != nd {
			a.R.Bad(rule, key, a.ipos(s.In), "addUnlocked is called outside (*Demuxer).NextData: packets enter the pool on a path that does not go through NextPacket's skipper")
			continue
		}
		arg := s.In.Common().Args[1]
		c, idx := tupleSource(arg)
		switch {
		case c == nil || idx != 0 || c.Call.StaticCallee() != np:
			a.R.Bad(rule, key, a.ipos(s.In), "the packet added to the pool is "+arg.String()+", not the result of dmx.NextPacket()")
		default:
			e := extractOf(c, 1)
			nilEdge := false
			for _, ed := range ssau.DominatingEdges(s.In.Block()) {
				if nc, ok := ssau.AsNilCompare(ed.If.Cond); ok && nc.X == e && (ed.Succ == 1) == nc.Ne {
					nilEdge = true
				}
			}
			a.R.Check(nilEdge, rule, key, a.ipos(s.In), "the packet added to the pool is NextPacket's result on the err == nil edge: only unskipped, successfully parsed packets are pooled",
				"the packet of NextPacket is added to the pool without being on the err == nil edge (a skipped or failed packet may be pooled)")
		}
	}
	asites, aother := a.callSites(add)
	for _, o := range aother {
		a.R.Unknown(rule, "add/used-as-value/"+bare(o.Parent()), a.ipos(o), "(*packetAccumulator).add is used as a function value")
	}
	for _, s := range asites {
		a.R.Check(s.Fn == au, rule, "add/called-from/"+bare(s.Fn), a.ipos(s.In), "accumulators are fed by addUnlocked only", "(*packetAccumulator).add is called from "+short(s.Fn)+", bypassing addUnlocked's filters")
	}
}

// ---------------------------------------------------------------------------------------------
// (d) the custom parser is called first, once per group; parseData once per non-empty group

func (a *A) parserFirst() *ssa.Call {
	const rule = "S5"
	pd := a.anchor(rule, "parseData")
	nd := a.anchor(rule, "Demuxer.NextData")
	if pd == nil || nd == nil {
		return nil
	}
	for _, in := range a.retypedValuesOf("PacketsParser") {
		a.R.Unknown(rule, "parser/retyped/"+bare(in.Parent()), a.ipos(in), "a PacketsParser value is converted to another type: calls through the converted value are not enumerated")
	}
	sites := a.dynCallsOfType("PacketsParser")
	a.R.Floor(rule, "call sites of a PacketsParser value", len(sites), 1)
	var prs *ssa.Call
	{
		const key = "parseData/parser-called-once"
		var bad []string
		if len(sites) != 1 {
			bad = append(bad, fmt.Sprintf("%d call sites of a PacketsParser value in the package (expected exactly 1)", len(sites)))
		}
		for _, s := range sites {
			if s.Fn != pd {
				bad = append(bad, "a PacketsParser is called in "+short(s.Fn))
				continue
			}
			c, ok := s.In.(*ssa.Call)
			if !ok {
				bad = append(bad, "the parser is deferred or started as a goroutine")
				continue
			}
			if prs == nil {
				prs = c
			}
			if inCycle(c.Block()) {
				bad = append(bad, "the parser call is inside a loop")
			}
			if !isParam(pd, c.Call.Value) {
				bad = append(bad, "the called parser is not parseData's parameter")
			}
		}
		pos := a.fpos(pd)
		if prs != nil {
			pos = a.ipos(prs)
		}
		if len(sites) == 0 {
			a.R.Bad(rule, key, pos, "no PacketsParser value is ever called: the option has no effect")
		} else {
			a.R.Check(len(bad) == 0, rule, key, pos, "exactly one call site of a PacketsParser value in the package, in parseData, outside any loop: at most one call per parseData activation", strings.Join(bad, "; "))
		}
	}
	if prs != nil {
		pos := a.ipos(prs)
		a.R.Check(ssau.NonNilAt(prs.Call.Value, prs.Block()), rule, "parseData/parser-guarded-non-nil", pos, "the call is dominated by the non-nil edge of `prs != nil`", "the parser is called without a dominating prs != nil test")
		ps := pd.Params[0]
		var bad []string
		if len(prs.Call.Args) != 1 || prs.Call.Args[0] != ssa.Value(ps) {
			bad = append(bad, "the parser is not handed the group ps itself")
		}
		n := 0
		for _, r := range *ps.Referrers() {
			if r == ssa.Instruction(prs) {
				continue
			}
			if _, ok := r.(*ssa.DebugRef); ok {
				continue
			}
			n++
			if canFollow(r, prs) {
				bad = append(bad, fmt.Sprintf("%s at %s can execute before the custom parser is called", instrText(r), a.ipos(r)))
			}
		}
		a.R.Check(len(bad) == 0, rule, "parseData/parser-first", pos,
			fmt.Sprintf("none of the %d other uses of ps (len, range loops, ps[0]) can precede prs(ps): the custom parser sees the group before the default processing touches it", n), strings.Join(bad, "; "))
	}
	// parseData call sites
	sites2, other := a.callSites(pd)
	for _, o := range other {
		a.R.Unknown(rule, "parseData/used-as-value/"+bare(o.Parent()), a.ipos(o), "parseData is used as a function value")
	}
	{
		// one parseData call per group source: the group handed to parseData is the direct result of an addUnlocked/dumpUnlocked call
		// of the same function (checked per site below), and no such call feeds two parseData sites. Where the sites live — NextData
		// itself or a helper its drain loop has been moved into — does not matter.
		var bad []string
		perSrc := map[ssa.Value][]string{}
		kinds := map[string]bool{}
		for _, s := range sites2 {
			if len(s.In.Common().Args) == 0 {
				continue
			}
			arg := s.In.Common().Args[0]
			perSrc[arg] = append(perSrc[arg], a.ipos(s.In))
			if g := callOf(arg); g != nil && g.Call.StaticCallee() != nil {
				kinds[g.Call.StaticCallee().Name()] = true
			}
		}
		for v, at := range perSrc {
			if len(at) > 1 {
				sort.Strings(at)
				bad = append(bad, fmt.Sprintf("the group %s is passed to parseData at %d sites (%s): the custom parser sees it more than once", v.Name(), len(at), strings.Join(at, ", ")))
			}
		}
		for _, k := range []string{"addUnlocked", "dumpUnlocked"} {
			if !kinds[k] {
				bad = append(bad, "no parseData call site takes the result of "+k)
			}
		}
		sort.Strings(bad)
		a.R.Check(len(bad) == 0, rule, "parseData/one-call-site-per-group-source", a.fpos(pd), fmt.Sprintf("parseData has %d call sites, each fed by its own addUnlocked/dumpUnlocked call, both kinds present", len(sites2)), strings.Join(bad, "; "))
	}
	for _, s := range sites2 {
		nd := s.Fn
		arg := s.In.Common().Args[0]
		g := callOf(arg)
		src := "unknown-source"
		if g != nil && g.Call.StaticCallee() != nil {
			src = g.Call.StaticCallee().Name()
		}
		key := "parseData/call-site/after-" + src
		if g == nil || (src != "addUnlocked" && src != "dumpUnlocked") {
			a.R.Bad(rule, key, a.ipos(s.In), "the group passed to parseData is "+arg.String()+", not the direct result of addUnlocked/dumpUnlocked")
			continue
		}
		ifs := ifsOn(nd, func(v ssa.Value) bool { x, _, ok := lenTest(v); return ok && x == ssa.Value(g) })
		ok := false
		escapes := ""
		for _, ci := range ifs {
			_, tWhenEmpty, _ := lenTest(ci.V)
			nb, excl := ci.when(!tWhenEmpty)
			if excl && nb.Dominates(s.In.Block()) {
				ok = true
				// every non-empty group reaches parseData: from the non-empty edge no path leaves (returns, or goes round to
				// the next addUnlocked/dumpUnlocked) without passing the call
				if nb != s.In.Block() {
					for b := range reachableFrom(nb, map[*ssa.BasicBlock]bool{s.In.Block(): true}) {
						if b == g.Block() {
							escapes = "a non-empty group can be dropped: from the non-empty edge the next " + src + " is reached without parseData (and so without the custom parser) having seen the group"
						} else if blockReturn(b) != nil && escapes == "" {
							escapes = "a non-empty group can be dropped: from the non-empty edge a return is reached without parseData having seen the group"
						}
					}
				}
			}
		}
		if escapes != "" {
			a.R.Bad(rule, "parseData/call-site/every-group-parsed/after-"+src, a.ipos(s.In), escapes)
		} else if ok {
			a.R.OK(rule, "parseData/call-site/every-group-parsed/after-"+src, a.ipos(s.In), "every path from the non-empty edge of the "+src+" result passes the parseData call: no assembled unit is withheld from the parser")
		}
		once := !canFollowSameActivation(g, s.In)
		a.R.Check(ok && once, rule, key, a.ipos(s.In), "parseData("+src+" result) is dominated by the non-empty edge of that result and executes at most once per result: each non-empty group is parsed exactly once (R1 shows it is parsed at least once in the drain)",
			"parseData is not guarded by the non-empty edge of the "+src+" result, or can run twice on the same group")
	}
	return prs
}

// canFollowSameActivation: can `use` execute twice without `def` executing in between?
func canFollowSameActivation(def *ssa.Call, use ssa.CallInstruction) bool {
	// a second execution of use needs a cycle through use's block that avoids def's block
	ub, db := use.Block(), def.Block()
	if ub == db {
		return false
	}
	for _, s := range ub.Succs {
		if reachableFrom(s, map[*ssa.BasicBlock]bool{db: true})[ub] {
			return true
		}
	}
	return false
}

// ---------------------------------------------------------------------------------------------
// (e)/(f) what parseData returns after the custom parser

func (a *A) parserResult(prs *ssa.Call) {
	const rule = "S3"
	if prs == nil {
		return
	}
	pd := prs.Parent()
	pos := a.ipos(prs)
	pds, skip, perr := extractOf(prs, 0), extractOf(prs, 1), extractOf(prs, 2)
	if pds == nil || skip == nil {
		a.R.Bad(rule, "parseData/skip-true/returns-parser-data", pos, "the data or the skip flag returned by the custom parser is discarded")
		return
	}
	_ = perr
	ifs := ifsOn(pd, func(v ssa.Value) bool { return containsVal(ssau.Leaves(v), skip) && len(ssau.Leaves(v)) == 1 })
	if len(ifs) != 1 {
		a.R.Bad(rule, "parseData/skip-true/returns-parser-data", pos, fmt.Sprintf("the parser's skip flag is branched on %d times (expected once): skip=true does not substitute the parser's data", len(ifs)))
		return
	}
	dsIdx := 0
	errIdx := ssau.ErrorResultIndex(pd.Signature)
	// (e)
	{
		T, excl := ifs[0].when(true)
		var bad []string
		if !excl {
			bad = append(bad, "the skip edge is shared with other paths")
		}
		nret := 0
		for b := range reachableFrom(T, nil) {
			ret := blockReturn(b)
			if ret == nil {
				continue
			}
			nret++
			ls := pathVals(ret.Results[dsIdx], b, nil, T)
			if len(ls) != 1 || ls[0] != pds {
				bad = append(bad, "on the skip=true edge parseData returns "+valList(ls)+" instead of exactly the parser's ds")
			}
		}
		if nret == 0 {
			bad = append(bad, "the skip=true edge does not return")
		}
		// no default processing on that edge
		for b := range reachableFrom(T, nil) {
			for _, in := range b.Instrs {
				if c, ok := in.(*ssa.Call); ok {
					if cal := c.Call.StaticCallee(); cal != nil && cal.Pkg == a.P.SSAPkg {
						bad = append(bad, "the skip=true edge still calls "+short(cal))
					}
				}
			}
		}
		a.R.Check(len(bad) == 0, rule, "parseData/skip-true/returns-parser-data", a.ipos(ifs[0].If), "every return reachable from the skip=true edge carries exactly extract #0 of prs(ps), and no default parsing runs on that edge", strings.Join(bad, "; "))
	}
	// (f)
	F, _ := ifs[0].when(false)
	n := 0
	seenKey := map[string]int{}
	var rets []*ssa.Return
	for _, ret := range ssau.Returns(pd) {
		if reachableFrom(F, nil)[ret.Block()] {
			rets = append(rets, ret)
		}
	}
	for _, ret := range rets {
		rb := ret.Block()
		preds := []*ssa.BasicBlock{nil}
		if len(rb.Preds) > 1 {
			preds = preds[:0]
			for _, p := range rb.Preds {
				if p == F || ssau.Reaches(F, p) {
					preds = append(preds, p)
				}
			}
		}
		for _, last := range preds {
			// error returns are exempt: the caller discards ds
			if errIdx >= 0 {
				evs := pathVals(ret.Results[errIdx], rb, last, F)
				nonNil := len(evs) > 0
				for _, e := range evs {
					if e == nil || !(ssau.IsErrorConstructor(e) || ssau.IsSentinelLoad(e)) {
						nonNil = false
					}
				}
				if nonNil {
					continue
				}
			}
			label := ""
			if last != nil {
				if iff := blockIf(last); iff != nil && !isErrCheckIf(iff) {
					label = a.edgeLabel(iff, last.Succs[0] == rb)
				} else {
					label = a.branchLabel(last, isErrCheckIf)
				}
			} else {
				label = a.branchLabel(rb, isErrCheckIf)
			}
			key := "parseData/skip-false/return@" + label
			seenKey[key]++
			if seenKey[key] > 1 {
				key = fmt.Sprintf("%s~%d", key, seenKey[key])
			}
			n++
			ls := pathVals(ret.Results[dsIdx], rb, last, F)
			derived := false
			for _, l := range ls {
				if derivesFrom(l, pds) {
					derived = true
				}
			}
			where := a.ipos(ret)
			if last != nil {
				where = a.ipos(lastInstr(last))
			}
			a.R.Check(!derived, rule, key, where,
				"on this return after skip=false the returned ds is "+valList(ls)+": the default output, not the parser's data",
				"skip=false, yet on the branch ["+label+"] parseData returns with a nil error and ds still holding the custom parser's data (extract #0 of prs(ps) reaches the return without an intervening assignment): the default output (nothing) is replaced by the parser's data")
		}
	}
	// when the default process is a function of its own that parseData tail-calls, its returns are the returns meant here
	if dp := a.defaultProcess(pd); dp != pd {
		n += len(ssau.Returns(dp))
	}
	a.R.Floor(rule, "nil-error returns of parseData after the skip=false edge", n, 2)
}

// derivesFrom: v is src or is built from it by append, slicing, phi or conversion (shares its elements).
func derivesFrom(v, src ssa.Value) bool {
	seen := map[ssa.Value]bool{}
	var rec func(v ssa.Value) bool
	rec = func(v ssa.Value) bool {
		if v == nil || seen[v] {
			return false
		}
		seen[v] = true
		if v == src {
			return true
		}
		switch x := v.(type) {
		case *ssa.Phi:
			for _, e := range x.Edges {
				if rec(e) {
					return true
				}
			}
		case *ssa.Slice:
			return rec(x.X)
		case *ssa.ChangeType:
			return rec(x.X)
		case *ssa.Convert:
			return rec(x.X)
		case *ssa.MakeInterface:
			return rec(x.X)
		case *ssa.UnOp:
			for _, l := range ssau.Leaves(x) {
				if l != nil && l != ssa.Value(x) && rec(l) {
					return true
				}
			}
		case *ssa.Call:
			if isBuiltin(&x.Call, "append") {
				for _, arg := range x.Call.Args {
					if rec(arg) {
						return true
					}
				}
			}
		}
		return false
	}
	return rec(v)
}
