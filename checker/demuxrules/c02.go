package demuxrules

import (
	"fmt"
	"go/token"
	"go/types"
	"sort"
	"strings"

	"golang.org/x/tools/go/ssa"

	"astverif/load"
	"astverif/ssau"
)

// C02 runs the structural clauses R1–R8 of property C02 (R6–R8 live in extra.go).
func (a *A) C02() {
	rd := a.readerAccess()
	a.drainBeforeEnd()
	a.bufferedFirst()
	a.appendOnlyQueue()
	a.emptiedOnlyAtGap()
	a.pusiReturnsPrevious()
	a.noReadAhead(rd)
	a.earlyFlush()
	a.whoMayRead(rd)
	a.exactFitComplete()
	a.sectionSeenBeforeComplete()
	a.failedFetchIncomplete()
	a.psiTestLive()
	// the PMT PIDs learned from PATs stay registered: the program map is only ever extended, by updateData (rule I2 of C07);
	// emptying it per PAT section would unregister the programs of the other sections of a multi-section PAT
	a.programMapWriters()
	// every assembled (non-empty) group is handed to parseData exactly once, whatever its first packet looks like (the
	// call-site rules of C19): nothing between the pool and the parser may withhold a unit
	a.parserFirst()
	a.assembledPayload()
	// a unit is made of the payload-carrying packets of its own PID: packets without payload never enter an accumulator
	// (S5 of C06/C07 — an adaptation-field-only packet queued on an empty PSI queue is flushed as a unit of its own) and the
	// accumulator that receives a packet is the one the map holds under the packet's PID (I1 of C07 — a cached accumulator
	// survives the end-of-stream drain that removed it from the map)
	a.filtersFirst()
	a.keyedByPID()
	// a unit that decodes is delivered whatever it contains (D2)
	a.NoContentFilter()
}

// AssembledPayload runs R8 alone (every payload of the group is copied into the pooled buffer, in order, completely).
func (a *A) AssembledPayload() { a.assembledPayload() }

// R1 (contract of dumpUnlocked that NextData's drain relies on): an empty result means the pool is empty. The function
// removes accumulators in a loop and leaves it early only with a non-empty queue: every `delete` on the pool's map sits in
// a cycle of the control flow graph (one removal per call would report "empty" as soon as the lowest PID holds an emptied
// accumulator, while other PIDs still hold packets: ErrNoMorePackets would be followed by more data), and a return reached
// from inside that cycle is guarded by the non-empty test of the queue it returns.
func (a *A) drainScansWholePool(dump *ssa.Function) {
	const rule, key = "R1", "dumpUnlocked/empty-result-means-empty-pool"
	n := 0
	var bad []string
	for _, b := range dump.Blocks {
		for _, in := range b.Instrs {
			c, ok := in.(ssa.CallInstruction)
			if !ok || !isBuiltin(c.Common(), "delete") || len(c.Common().Args) == 0 {
				continue
			}
			if _, isPool := a.fieldLoadOf(c.Common().Args[0], "packetPool", "b"); !isPool {
				continue
			}
			n++
			if !inCycle(b) {
				bad = append(bad, "the accumulator removed at "+a.ipos(in)+" is the only one examined by the call: an emptied accumulator makes dumpUnlocked report an empty pool although other PIDs still hold packets")
			}
		}
	}
	// returns inside the scan are guarded by a non-empty test
	for _, ret := range ssau.Returns(dump) {
		rb := ret.Block()
		// a return whose block is reached from a block in a cycle without leaving the loop through its exit condition:
		// approximated by "its immediate dominator chain contains a cycle block that is not the loop header's exit"
		for d := rb.Idom(); d != nil; d = d.Idom() {
			if !inCycle(d) {
				continue
			}
			// d is inside the loop; the edge d -> ... -> rb must be a len()>0 guard or the loop's own exit (range done)
			guarded := false
			for _, ci := range ifsOn(dump, func(v ssa.Value) bool { _, _, ok := lenTest(v); return ok }) {
				_, tWhenEmpty, _ := lenTest(ci.V)
				if nb, excl := ci.when(!tWhenEmpty); excl && (nb == rb || nb.Dominates(rb)) {
					guarded = true
				}
			}
			exitsLoop := false
			if iff := blockIf(d); iff != nil {
				if _, isNext := iff.Cond.(*ssa.Extract); isNext {
					exitsLoop = true // range loop: "ok" of the next() tuple
				}
				if bo, isB := iff.Cond.(*ssa.BinOp); isB {
					if _, _, isLen := lenTest(bo); !isLen {
						exitsLoop = true // index loop condition i < len(keys)
					}
				}
			}
			if !guarded && !exitsLoop && len(ret.Results) > 0 {
				bad = append(bad, "the return at "+a.ipos(ret)+" leaves the scan without a non-empty test of the queue it returns")
			}
			break
		}
	}
	switch {
	case n == 0:
		a.R.Unknown(rule, key, a.fpos(dump), "no removal from the pool's map found in dumpUnlocked")
	case len(bad) > 0:
		a.R.Bad(rule, key, a.fpos(dump), strings.Join(bad, "; "))
	default:
		a.R.OK(rule, key, a.fpos(dump), fmt.Sprintf("%d removal site(s), each inside the scan loop; the scan is left early only with a non-empty queue", n))
	}
}

// DrainRules runs the end-of-stream rules only (R1).
func (a *A) DrainRules() { a.drainBeforeEnd() }

// PSICompleteRules runs the rules about isPSIComplete only (R6, R9, R10).
func (a *A) PSICompleteRules() {
	a.exactFitComplete()
	a.sectionSeenBeforeComplete()
	a.failedFetchIncomplete()
}

// ---------------------------------------------------------------------------------------------
// reader access sets (shared by R4 and R5)

type readerSets struct {
	direct map[*ssa.Function][]ssa.CallInstruction // functions that call methods of / pass the reader to library code
	reach  map[*ssa.Function]bool                  // closed under "calls or references a function of the set"
}

func (a *A) ioIface(name string) *types.Interface {
	imp := a.P.Pkg.Imports["io"]
	if imp == nil || imp.Types == nil {
		return nil
	}
	o := imp.Types.Scope().Lookup(name)
	if o == nil {
		return nil
	}
	it, _ := o.Type().Underlying().(*types.Interface)
	return it
}

// readerTyped: the static type can hold the demuxer's input (implements io.Reader or io.Seeker).
func (a *A) readerTyped(t types.Type) bool {
	for _, n := range []string{"Reader", "Seeker"} {
		if it := a.ioIface(n); it != nil && types.Implements(t, it) {
			return true
		}
	}
	return false
}

// readerValue: v is (or was type-asserted from) an interface value that can hold the demuxer's input:
// its static type is an interface implementing io.Reader or io.Seeker, or it is the result of a type
// assertion on such a value (r.(*bufio.Reader), r.(io.Seeker)). Concrete values that merely implement
// io.Reader (the muxer's bytes.Buffer) are not the input.
func (a *A) readerValue(v ssa.Value) bool {
	seen := map[ssa.Value]bool{}
	var rec func(v ssa.Value) bool
	rec = func(v ssa.Value) bool {
		if v == nil || seen[v] {
			return false
		}
		seen[v] = true
		if types.IsInterface(v.Type()) && a.readerTyped(v.Type()) {
			return true
		}
		switch x := v.(type) {
		case *ssa.TypeAssert:
			return rec(x.X)
		case *ssa.Extract:
			if ta, ok := x.Tuple.(*ssa.TypeAssert); ok && x.Index == 0 {
				return rec(ta.X)
			}
		case *ssa.Phi:
			for _, e := range x.Edges {
				if rec(e) {
					return true
				}
			}
		case *ssa.ChangeType:
			return rec(x.X)
		}
		return false
	}
	return rec(v)
}

// isReaderTouch: the call hands the input reader to code outside the package or invokes a method on it.
func (a *A) isReaderTouch(c ssa.CallInstruction) bool {
	cc := c.Common()
	if cc.IsInvoke() {
		return a.readerValue(cc.Value)
	}
	if _, ok := cc.Value.(*ssa.Builtin); ok {
		return false
	}
	if cal := cc.StaticCallee(); cal != nil && cal.Pkg == a.P.SSAPkg {
		return false // analysed itself
	}
	if cal := cc.StaticCallee(); cal != nil && cal.Parent() != nil && cal.Parent().Pkg == a.P.SSAPkg {
		return false
	}
	for _, arg := range cc.Args {
		if a.readerValue(arg) {
			return true
		}
	}
	return false
}

func (a *A) readerAccess() readerSets {
	rs := readerSets{direct: map[*ssa.Function][]ssa.CallInstruction{}, reach: map[*ssa.Function]bool{}}
	for _, f := range a.funcs {
		for _, c := range ssau.Calls(f) {
			if a.isReaderTouch(c) {
				rs.direct[f] = append(rs.direct[f], c)
				rs.reach[f] = true
			}
		}
	}
	for changed := true; changed; {
		changed = false
		for _, f := range a.funcs {
			if rs.reach[f] {
				continue
			}
			hit := false
			for _, b := range f.Blocks {
				for _, in := range b.Instrs {
					for _, op := range in.Operands(nil) {
						if op == nil || *op == nil {
							continue
						}
						var g *ssa.Function
						switch x := (*op).(type) {
						case *ssa.Function:
							g = x
						case *ssa.MakeClosure:
							g, _ = x.Fn.(*ssa.Function)
						}
						if g == nil {
							continue
						}
						if rs.reach[g] {
							hit = true
						} else if g.Synthetic != "" && g.Object() != nil {
							// bound-method wrapper / thunk: look at the wrapped method
							if fn, ok := g.Object().(*types.Func); ok {
								if w := a.P.FuncOf(fn); w != nil && rs.reach[w] {
									hit = true
								}
							}
						}
					}
				}
			}
			if hit {
				rs.reach[f] = true
				changed = true
			}
		}
	}
	return rs
}

// ---------------------------------------------------------------------------------------------
// R1 drain before end

// maySentinel: can result #idx of ret be the sentinel global g?
func (a *A) maySentinel(ret *ssa.Return, idx int, g *ssa.Global) (bool, string) {
	return a.maySentinelAt(ret.Results[idx], ret.Block(), g)
}

// maySentinelAt: can the error value e, as seen in block at, be the sentinel g?
func (a *A) maySentinelAt(e ssa.Value, at *ssa.BasicBlock, g *ssa.Global) (bool, string) {
	for _, l := range ssau.Leaves(e) {
		if l == nil || ssau.IsNilConst(l) || ssau.IsErrorConstructor(l) {
			continue
		}
		if gl := ssau.GlobalOf(l); gl != nil {
			if gl == g {
				return true, "returns the sentinel itself"
			}
			continue
		}
		// an error obtained from a callee: excluded only by a dominating comparison
		excluded := false
		for _, ed := range ssau.DominatingEdges(at) {
			if nc, ok := ssau.AsNilCompare(ed.If.Cond); ok && nc.X == l {
				isNilEdge := (ed.Succ == 1) == nc.Ne
				if isNilEdge {
					excluded = true
				}
				continue
			}
			if b, ok := ed.If.Cond.(*ssa.BinOp); ok {
				var other ssa.Value
				if b.X == l {
					other = b.Y
				} else if b.Y == l {
					other = b.X
				}
				if other != nil && ssau.GlobalOf(other) == g && (b.Op == token.EQL || b.Op == token.NEQ) {
					eqEdge := (ed.Succ == 0) == (b.Op == token.EQL)
					if !eqEdge {
						excluded = true
					}
				}
			}
		}
		if !excluded {
			return true, "may return " + l.Name() + " (" + l.String() + ") which can be the sentinel"
		}
	}
	return false, ""
}

func (a *A) drainBeforeEnd() {
	const rule = "R1"
	nd := a.anchor(rule, "Demuxer.NextData")
	dump := a.anchor(rule, "packetPool.dumpUnlocked")
	pd := a.anchor(rule, "parseData")
	if nd == nil || dump == nil || pd == nil {
		return
	}
	a.drainScansWholePool(dump)
	var sentinel *ssa.Global
	if m, ok := a.P.SSAPkg.Members["ErrNoMorePackets"].(*ssa.Global); ok {
		sentinel = m
	}
	if sentinel == nil {
		a.R.Unknown(rule, "anchor/ErrNoMorePackets", "-", "package variable ErrNoMorePackets not found")
		return
	}
	errIdx := ssau.ErrorResultIndex(nd.Signature)
	if errIdx < 0 {
		a.R.Unknown(rule, "anchor/Demuxer.NextData", a.fpos(nd), "NextData has no error result")
		return
	}
	// The functions that call dumpUnlocked: NextData itself, or helpers its drain loop has been moved into. In each of them every
	// non-empty dump is parsed; the edges on which "the pool has just been found empty" are the empty edge of the len test of a dump
	// and, in a caller, the nil edge of the result of a helper that returns nil only behind such an edge.
	sites, other := a.callSites(dump)
	for _, o := range other {
		a.R.Unknown(rule, "dumpUnlocked/used-as-value/"+bare(o.Parent()), a.ipos(o), "dumpUnlocked is used as a function value")
	}
	if !a.R.Floor(rule, "dumpUnlocked call sites in the package", len(sites), 1) {
		return
	}
	var fns []*ssa.Function
	seenFn := map[*ssa.Function]bool{}
	for _, s := range sites {
		if !seenFn[s.Fn] {
			seenFn[s.Fn] = true
			fns = append(fns, s.Fn)
		}
	}
	evidence := map[*ssa.Function]map[cfgEdge]bool{}
	for _, f := range fns {
		evidence[f] = map[cfgEdge]bool{}
		for i, d := range callsTo(f, dump) {
			dc, _ := d.(*ssa.Call)
			key := fmt.Sprintf("%s/drain-parses-every-group/dumpUnlocked#%d", bare(f), i+1)
			if dc == nil {
				a.R.Unknown(rule, key, a.ipos(d), "dumpUnlocked is deferred or started as a goroutine")
				continue
			}
			ifs := ifsOn(f, func(v ssa.Value) bool { x, _, ok := lenTest(v); return ok && x == ssa.Value(dc) })
			if len(ifs) != 1 {
				a.R.Unknown(rule, key, a.ipos(d), "the result of dumpUnlocked is not tested for emptiness by exactly one len comparison")
				continue
			}
			_, tWhenEmpty, _ := lenTest(ifs[0].V)
			eb, _ := ifs[0].when(tWhenEmpty)
			nb, e2 := ifs[0].when(!tWhenEmpty)
			if eb != nb {
				evidence[f][cfgEdge{ifs[0].If.Block(), eb}] = true
			}
			// every non-empty dump is parsed
			var parse *ssa.Call
			for _, c := range callsTo(f, pd) {
				if pc, ok := c.(*ssa.Call); ok && len(pc.Call.Args) > 0 && pc.Call.Args[0] == ssa.Value(dc) {
					parse = pc
				}
			}
			switch {
			case parse == nil:
				a.R.Bad(rule, key, a.ipos(d), "the group returned by dumpUnlocked is never passed to parseData")
			case !e2:
				a.R.Unknown(rule, key, a.ipos(d), "the non-empty edge of the emptiness test is shared with other paths")
			case !nb.Dominates(parse.Block()):
				a.R.Bad(rule, key, a.ipos(parse), "parseData(dump) is not on the non-empty edge of the dump")
			default:
				esc := escapesWithout(nb, map[*ssa.BasicBlock]bool{parse.Block(): true}, func(b *ssa.BasicBlock) bool { return isExit(b) || b == dc.Block() })
				if esc != nil {
					a.R.Bad(rule, key, a.ipos(parse), fmt.Sprintf("a path from the non-empty edge reaches block %d (%s) without calling parseData on the group: the group is lost", esc.Index, a.ipos(lastInstr(esc))))
				} else {
					a.R.OK(rule, key, a.ipos(parse), "parseData(dump) is dominated by the non-empty edge and lies on every path from it to a return or to the next dump")
				}
			}
		}
	}
	// helpers whose nil result means "drained": every return either yields a value that is non-nil there or is cut off from the entry
	// once the evidence edges are removed. A helper may itself rely on another helper: iterate.
	nilMeansDrained := map[*ssa.Function]bool{}
	addHelperEdges := func(f *ssa.Function) {
		if evidence[f] == nil {
			evidence[f] = map[cfgEdge]bool{}
		}
		for _, c := range ssau.Calls(f) {
			hc, ok := c.(*ssa.Call)
			if !ok || !nilMeansDrained[hc.Call.StaticCallee()] {
				continue
			}
			for _, ci := range ifsOn(f, func(v ssa.Value) bool {
				if nc, ok := ssau.AsNilCompare(v); ok && nc.X == ssa.Value(hc) {
					return true
				}
				x, _, ok := lenTest(v)
				return ok && x == ssa.Value(hc)
			}) {
				var nilWhen bool
				if nc, ok := ssau.AsNilCompare(ci.V); ok {
					nilWhen = !nc.Ne
				} else {
					_, nilWhen, _ = lenTest(ci.V)
				}
				eb, _ := ci.when(nilWhen)
				nb, _ := ci.when(!nilWhen)
				if eb != nb {
					evidence[f][cfgEdge{ci.If.Block(), eb}] = true
				}
			}
		}
	}
	callers := func(set map[*ssa.Function]bool) []*ssa.Function {
		var out []*ssa.Function
		for _, f := range a.funcs {
			for _, c := range ssau.Calls(f) {
				if set[c.Common().StaticCallee()] {
					out = append(out, f)
					break
				}
			}
		}
		return out
	}
	cands := append([]*ssa.Function{}, fns...)
	for round := 0; round < 4; round++ {
		changed := false
		for _, h := range cands {
			if h == nd || nilMeansDrained[h] || h.Signature.Results().Len() == 0 {
				continue
			}
			switch h.Signature.Results().At(0).Type().Underlying().(type) {
			case *types.Pointer, *types.Slice, *types.Map, *types.Interface:
			default:
				continue
			}
			addHelperEdges(h)
			open := reachWithoutEdges(h, evidence[h])
			ok, nret := true, 0
			for _, ret := range ssau.Returns(h) {
				nret++
				if !open[ret.Block()] || ssau.NonNilAt(ret.Results[0], ret.Block()) {
					continue
				}
				ok = false
			}
			if ok && nret > 0 {
				nilMeansDrained[h] = true
				changed = true
				a.R.OK(rule, bare(h)+"/nil-result-means-drained", a.fpos(h), fmt.Sprintf("%d returns: each yields a value on the non-nil edge of its own nil test, or is only reachable over an edge on which dumpUnlocked (or a helper with this same summary) has just come back empty", nret))
			}
		}
		if !changed {
			break
		}
		for _, f := range callers(nilMeansDrained) {
			known := false
			for _, c := range cands {
				if c == f {
					known = true
				}
			}
			if !known {
				cands = append(cands, f)
			}
		}
	}
	addHelperEdges(nd)
	if !a.R.Floor(rule, "edges of NextData on which the pool has just been found empty (dumpUnlocked / draining helper)", len(evidence[nd]), 1) {
		return
	}
	open := reachWithoutEdges(nd, evidence[nd])
	n := 0
	for _, ret := range ssau.Returns(nd) {
		e := ret.Results[errIdx]
		may, why := false, ""
		covered := true
		if phi, isPhi := e.(*ssa.Phi); isPhi && phi.Block() == ret.Block() {
			for i, pe := range phi.Edges {
				p := ret.Block().Preds[i]
				m, w := a.maySentinelAt(pe, p, sentinel)
				if !m {
					continue
				}
				may, why = true, w
				if open[p] && !evidence[nd][cfgEdge{p, ret.Block()}] {
					covered = false
				}
			}
		} else {
			may, why = a.maySentinelAt(e, ret.Block(), sentinel)
			covered = !open[ret.Block()]
		}
		if !may {
			continue
		}
		n++
		key := fmt.Sprintf("NextData/end-only-after-empty-dump/return#%d", n)
		a.R.Check(covered, rule, key, a.ipos(ret),
			"this return ("+why+") is only reached with the sentinel over an edge on which the pool has just been found empty (len(dumpUnlocked()) == 0, or the nil result of a helper that returns nil only behind that edge): the pool is drained before the end of stream is reported",
			"this return "+why+" but can be reached with it without passing the empty-result edge of dumpUnlocked(): the end of stream can be reported while accumulated units are still in the pool")
	}
	a.R.Floor(rule, "returns of NextData that may carry ErrNoMorePackets", n, 1)
}

// cfgEdge is one control-flow edge.
type cfgEdge struct{ from, to *ssa.BasicBlock }

// reachWithoutEdges: the blocks of f reachable from its entry when the given edges are removed.
func reachWithoutEdges(f *ssa.Function, cut map[cfgEdge]bool) map[*ssa.BasicBlock]bool {
	seen := map[*ssa.BasicBlock]bool{}
	if len(f.Blocks) == 0 {
		return seen
	}
	st := []*ssa.BasicBlock{f.Blocks[0]}
	for len(st) > 0 {
		b := st[len(st)-1]
		st = st[:len(st)-1]
		if seen[b] {
			continue
		}
		seen[b] = true
		for _, s := range b.Succs {
			if !cut[cfgEdge{b, s}] && !seen[s] {
				st = append(st, s)
			}
		}
	}
	return seen
}

// ---------------------------------------------------------------------------------------------
// R2 buffered sections first, none dropped

func (a *A) bufferedFirst() {
	const rule = "R2"
	nd := a.anchor(rule, "Demuxer.NextData")
	ud := a.anchor(rule, "Demuxer.updateData")
	np := a.anchor(rule, "Demuxer.NextPacket")
	if nd == nil || ud == nil || np == nil {
		return
	}
	recv := nd.Params[0]
	isBufLoad := func(v ssa.Value, recv ssa.Value) bool {
		base, ok := a.fieldLoadOf(v, "Demuxer", "dataBuffer")
		return ok && base == recv
	}
	// (i) the buffer test dominates the first NextPacket
	ifs := ifsOn(nd, func(v ssa.Value) bool { x, _, ok := lenTest(v); return ok && isBufLoad(x, recv) })
	const k1 = "NextData/buffer-test-before-first-read"
	if len(ifs) == 0 {
		a.R.Bad(rule, k1, a.fpos(nd), "NextData does not test len(dmx.dataBuffer): buffered sections are not handed out before new packets are read")
	} else {
		_, tWhenEmpty, _ := lenTest(ifs[0].V)
		empty, e1 := ifs[0].when(tWhenEmpty)
		nonEmpty, e2 := ifs[0].when(!tWhenEmpty)
		var bad []string
		if !e1 || !e2 {
			bad = append(bad, "the buffer test's edges are shared with other paths")
		}
		producers := 0
		for _, c := range ssau.Calls(nd) {
			cal := c.Common().StaticCallee()
			if cal == nil || (cal != np && cal.Name() != "dumpUnlocked" && cal.Name() != "addUnlocked") {
				continue
			}
			producers++
			if !empty.Dominates(c.Block()) {
				bad = append(bad, fmt.Sprintf("%s at %s is not dominated by the empty-buffer edge", short(cal), a.ipos(c)))
			}
		}
		a.R.Floor(rule, "NextPacket/addUnlocked/dumpUnlocked calls in NextData", producers, 2)
		a.R.Check(len(bad) == 0, rule, k1, a.ipos(ifs[0].If),
			"every NextPacket/addUnlocked/dumpUnlocked call is dominated by the empty edge of the len(dmx.dataBuffer) test", strings.Join(bad, "; "))
		// (ii) the non-empty edge returns the head and keeps the tail
		const k2 = "NextData/buffered-head-returned-tail-kept"
		bad = nil
		nret, nst := 0, 0
		for b := range reachableFrom(nonEmpty, nil) {
			for _, in := range b.Instrs {
				switch v := in.(type) {
				case *ssa.Return:
					nret++
					for _, l := range pathVals(v.Results[0], b, nil, nonEmpty) {
						if l == nil || !a.isIndexLoad(l, func(x ssa.Value) bool { return isBufLoad(x, recv) }, 0) {
							bad = append(bad, "the non-empty edge returns "+valList([]ssa.Value{l})+" instead of dmx.dataBuffer[0]")
						}
					}
				case *ssa.Store:
					if base, ok := a.fieldAddrOf(v.Addr, "Demuxer", "dataBuffer"); ok && base == ssa.Value(recv) {
						nst++
						sl, isSl := v.Val.(*ssa.Slice)
						low := int64(-1)
						if isSl && sl.Low != nil {
							low, _ = ssau.ConstInt(sl.Low)
						}
						if !isSl || !isBufLoad(sl.X, recv) || low != 1 || sl.High != nil || sl.Max != nil {
							bad = append(bad, "the buffer is replaced by "+v.Val.String()+" instead of dmx.dataBuffer[1:]")
						}
					}
				case ssa.CallInstruction:
					if _, isB := v.Common().Value.(*ssa.Builtin); !isB {
						bad = append(bad, "unexpected call on the buffered path: "+instrText(in))
					}
				}
			}
		}
		if nret == 0 || nst != 1 {
			bad = append(bad, fmt.Sprintf("expected one store to dmx.dataBuffer and a return on the non-empty edge, found %d store(s), %d return(s)", nst, nret))
		}
		a.R.Check(len(bad) == 0, rule, k2, a.ipos(ifs[0].If), "the non-empty edge returns dmx.dataBuffer[0] and stores dmx.dataBuffer[1:]: buffered sections leave in order, one per call", strings.Join(bad, "; "))
	}
	// (iii) updateData: ds[0] returned, ds[1:] appended, nothing else stored
	if len(ud.Params) != 2 {
		a.R.Unknown(rule, "anchor/Demuxer.updateData", a.fpos(ud), "updateData no longer has the shape (dmx *Demuxer) updateData(ds []*DemuxerData)")
		return
	}
	urecv, ds := ud.Params[0], ud.Params[1]
	const k3 = "updateData/rest-buffered"
	var stores []*ssa.Store
	for _, b := range ud.Blocks {
		for _, in := range b.Instrs {
			if st, ok := in.(*ssa.Store); ok {
				if _, ok := a.fieldAddrOf(st.Addr, "Demuxer", "dataBuffer"); ok {
					stores = append(stores, st)
				}
			}
		}
	}
	if len(stores) == 0 {
		a.R.Bad(rule, k3, a.fpos(ud), "updateData never stores to dmx.dataBuffer: the sections ds[1:] of a multi-section unit are dropped")
	} else {
		var bad []string
		for _, st := range stores {
			ap := callOf(st.Val)
			if ap == nil || !isBuiltin(&ap.Call, "append") || len(ap.Call.Args) != 2 {
				bad = append(bad, "dataBuffer is assigned "+st.Val.String()+", not append(dmx.dataBuffer, ds[1:]...)")
				continue
			}
			if !isBufLoad(ap.Call.Args[0], urecv) {
				bad = append(bad, "the append does not extend dmx.dataBuffer but "+ap.Call.Args[0].String())
			}
			sl, isSl := ap.Call.Args[1].(*ssa.Slice)
			low := int64(-1)
			if isSl && sl.Low != nil {
				low, _ = ssau.ConstInt(sl.Low)
			}
			if !isSl || sl.X != ssa.Value(ds) || low != 1 || sl.High != nil || sl.Max != nil {
				bad = append(bad, "the appended elements are "+ap.Call.Args[1].String()+", not ds[1:]")
			}
			// what is returned on the paths through this store must be ds[0]
			for _, ret := range ssau.Returns(ud) {
				if !(ret.Block() == st.Block() || ssau.Reaches(st.Block(), ret.Block())) {
					continue
				}
				for _, l := range pathVals(ret.Results[0], ret.Block(), nil, st.Block()) {
					if l == nil || !a.isIndexLoad(l, func(x ssa.Value) bool { return x == ssa.Value(ds) }, 0) {
						bad = append(bad, "on a path that buffers ds[1:] the function returns "+valList([]ssa.Value{l})+" instead of ds[0]")
					}
				}
			}
		}
		a.R.Check(len(bad) == 0, rule, k3, a.ipos(stores[0]),
			"every store to dmx.dataBuffer is append(dmx.dataBuffer, ds[1:]...) and the same paths return ds[0]: each element of ds is delivered exactly once", strings.Join(bad, "; "))
	}
	// (iv) who may write dataBuffer
	allowed := map[string]bool{"NextData": true, "updateData": true, "Rewind": true}
	writers := map[*ssa.Function]ssa.Instruction{}
	for _, f := range a.funcs {
		for _, b := range f.Blocks {
			for _, in := range b.Instrs {
				if st, ok := in.(*ssa.Store); ok {
					if _, ok := a.fieldAddrOf(st.Addr, "Demuxer", "dataBuffer"); ok && writers[f] == nil {
						writers[f] = in
					}
				}
			}
		}
	}
	for f, in := range writers {
		ok := allowed[f.Name()] && ssau.IsNamed(recvType(f), load.RootPath, "Demuxer")
		a.R.Check(ok, rule, "dataBuffer/written-by/"+bare(f), a.ipos(in), short(f)+" is one of the three functions that own dmx.dataBuffer (pop in NextData, append in updateData, reset in Rewind)",
			short(f)+" stores to dmx.dataBuffer; only NextData, updateData and Rewind may")
	}
}

func recvType(f *ssa.Function) types.Type {
	if f.Signature.Recv() == nil {
		return types.Typ[types.Invalid]
	}
	return f.Signature.Recv().Type()
}

// isIndexLoad: v = *(&x[k]) with x satisfying isX and k the constant idx.
func (a *A) isIndexLoad(v ssa.Value, isX func(ssa.Value) bool, idx int64) bool {
	u, ok := v.(*ssa.UnOp)
	if !ok || u.Op != token.MUL {
		return false
	}
	ia, ok := u.X.(*ssa.IndexAddr)
	if !ok {
		return false
	}
	k, ok := ssau.ConstInt(ia.Index)
	return ok && k == idx && isX(ia.X)
}

// ---------------------------------------------------------------------------------------------
// R3 / S6 append-only queue

type qform int

const (
	qBad  qform = iota
	qPrev       // built without append: loaded q, x[:0], make(…,0,…), nil
	qApp        // append(<qPrev>, p)
)

// queueForm classifies v by the S6 grammar. base is the accumulator the queue belongs to, pkts the
// *Packet parameters of the enclosing function.
func (a *A) queueForm(v ssa.Value, base ssa.Value, pkts map[ssa.Value]bool, memo map[ssa.Value]qform, why *[]string) qform {
	if f, ok := memo[v]; ok {
		return f
	}
	fail := func(msg string) qform {
		*why = append(*why, msg)
		memo[v] = qBad
		return qBad
	}
	switch x := v.(type) {
	case *ssa.Const:
		if x.Value == nil {
			return qPrev
		}
	case *ssa.Phi:
		memo[v] = qPrev // coinductive: a cycle through phis adds nothing
		res := qPrev
		for _, e := range x.Edges {
			f := a.queueForm(e, base, pkts, memo, why)
			if f == qBad {
				memo[v] = qBad
				return qBad
			}
			if f > res {
				res = f
			}
		}
		memo[v] = res
		return res
	case *ssa.MakeSlice:
		if freshEmpty(x) {
			return qPrev
		}
		return fail("make with a non-zero length: " + x.String())
	case *ssa.Slice:
		if freshEmpty(x) {
			return qPrev
		}
		if !sliceHighZero(x) {
			return fail(x.Name() + " = " + x.String() + " keeps or drops elements of the queue (only x[:0] is allowed)")
		}
		if a.queueForm(x.X, base, pkts, memo, why) == qBad {
			return fail("x[:0] of a value that is not the queue")
		}
		memo[v] = qPrev
		return qPrev
	case *ssa.UnOp:
		if lb, ok := a.fieldLoadOf(x, "packetAccumulator", "q"); ok {
			if sameObject(lb, base) {
				return qPrev
			}
			return fail("the queue of a different accumulator (" + lb.String() + ")")
		}
	case *ssa.Call:
		if isBuiltin(&x.Call, "append") && len(x.Call.Args) == 2 {
			vs, ok := varargOf(x.Call.Args[1])
			if !ok || len(vs) != 1 || !pkts[vs[0]] {
				return fail(x.Name() + " = " + x.String() + " does not append exactly the arriving packet")
			}
			if a.queueForm(x.Call.Args[0], base, pkts, memo, why) != qPrev {
				return fail(x.Name() + " = " + x.String() + " appends to something that is not the previous queue (loaded q, x[:0], make(…,0,…) or nil)")
			}
			memo[v] = qApp
			return qApp
		}
	}
	return fail(v.Name() + " = " + v.String() + " is outside the append-only grammar")
}

func packetParams(f *ssa.Function) map[ssa.Value]bool {
	m := map[ssa.Value]bool{}
	for _, p := range f.Params {
		if ssau.IsNamed(p.Type(), load.RootPath, "Packet") {
			if _, isPtr := p.Type().(*types.Pointer); isPtr {
				m[p] = true
			}
		}
	}
	return m
}

func (a *A) appendOnlyQueue() {
	const rule = "S6"
	nst := 0
	for _, f := range a.funcs {
		k := 0
		for _, b := range f.Blocks {
			for _, in := range b.Instrs {
				switch v := in.(type) {
				case *ssa.Store:
					if base, ok := a.fieldAddrOf(v.Addr, "packetAccumulator", "q"); ok {
						nst++
						k++
						var why []string
						form := a.queueForm(v.Val, base, packetParams(f), map[ssa.Value]qform{}, &why)
						a.R.Check(form != qBad, rule, fmt.Sprintf("%s/store-q#%d", bare(f), k), a.ipos(v),
							"the stored value is built only from the loaded q, x[:0], make(…,0,…), nil and append(<one of these>, p): the queue grows at the tail by the arriving packet or is emptied",
							"the value stored to packetAccumulator.q is not append-only: "+strings.Join(why, "; "))
					}
					// element writes into the queue
					if ia, ok := v.Addr.(*ssa.IndexAddr); ok && a.derivesFromQ(ia.X) {
						nst++
						a.R.Bad(rule, fmt.Sprintf("%s/element-write-q", bare(f)), a.ipos(v), "an element of the queue is overwritten in place: "+instrText(v))
					}
				case *ssa.Call:
					if isBuiltin(&v.Call, "copy") && a.derivesFromQ(v.Call.Args[0]) {
						nst++
						a.R.Bad(rule, fmt.Sprintf("%s/copy-into-q", bare(f)), a.ipos(v), "copy into the queue: "+instrText(v))
					}
				}
			}
		}
	}
	a.R.Floor(rule, "stores to packetAccumulator.q", nst, 1)
	// what add returns is a whole queue value, never a part of it
	x := a.accumulator(rule)
	if x == nil {
		return
	}
	for i, ret := range ssau.Returns(x.add) {
		var why []string
		form := a.queueForm(ret.Results[0], x.recv, packetParams(x.add), map[ssa.Value]qform{}, &why)
		a.R.Check(form != qBad, rule, fmt.Sprintf("add/returns-whole-queue/return#%d", i+1), a.ipos(ret),
			"the returned group is nil or a complete queue value (never a truncated, re-ordered or merged slice)", "add returns "+strings.Join(why, "; "))
	}
}

// S6b: the queue is emptied only where the unit is given up for a reason the stream states. Every reset of the queue
// value in add — x[:0] of a queue value, a fresh make, nil — sits under the true edge of hasDiscontinuity (a gap: what was
// gathered cannot be completed), of payload_unit_start_indicator (the old queue is returned, rule R3) or of isPSIComplete
// (returned, rule R4). A reset under any other condition (a size limit, a timer, a PID test) silently discards the
// packets of a unit that is still being assembled.
func (a *A) emptiedOnlyAtGap() {
	const rule = "S6"
	x := a.accumulator(rule)
	if x == nil {
		return
	}
	f := x.add
	var allowed []*ssa.BasicBlock
	var names []string
	addEdge := func(ci *condIf, name string) {
		if ci == nil {
			return
		}
		if b, excl := ci.when(true); excl {
			allowed = append(allowed, b)
			names = append(names, name)
		}
	}
	addEdge(x.discIf, "hasDiscontinuity")
	addEdge(x.pusiIf, "payload_unit_start_indicator")
	if pc := a.P.Func("isPSIComplete"); pc != nil {
		for _, ci := range ifsOn(f, func(v ssa.Value) bool {
			c := callOf(v)
			return c != nil && c.Call.StaticCallee() == pc
		}) {
			ci := ci
			addEdge(&ci, "isPSIComplete")
		}
	}
	if len(allowed) < 2 {
		a.R.Unknown(rule, "add/emptied-only-at-gap", a.fpos(f), "the discontinuity / unit start / completeness edges of add could not be identified")
		return
	}
	under := func(b *ssa.BasicBlock) bool {
		for _, t := range allowed {
			if t == b || t.Dominates(b) {
				return true
			}
		}
		return false
	}
	isQueueType := func(t types.Type) bool {
		sl, ok := t.Underlying().(*types.Slice)
		if !ok {
			return false
		}
		pt, ok := sl.Elem().Underlying().(*types.Pointer)
		if !ok {
			return false
		}
		n, ok := pt.Elem().(*types.Named)
		return ok && n.Obj().Name() == "Packet"
	}
	n := 0
	var bad []string
	_ = isQueueType
	// the values that can reach a store to q, backwards through phis and append(x, p)
	seen := map[ssa.Value]bool{}
	var visit func(v ssa.Value, at *ssa.BasicBlock)
	visit = func(v ssa.Value, at *ssa.BasicBlock) {
		if v == nil {
			return
		}
		if ssau.IsNilConst(v) {
			n++
			if !under(at) {
				bad = append(bad, fmt.Sprintf("the queue becomes nil on the path through block %d, outside the discontinuity / unit start / completeness edges", at.Index))
			}
			return
		}
		if seen[v] {
			return
		}
		seen[v] = true
		switch x := v.(type) {
		case *ssa.Phi:
			for i, e := range x.Edges {
				visit(e, x.Block().Preds[i])
			}
		case *ssa.Call:
			if isBuiltin(&x.Call, "append") && len(x.Call.Args) > 0 {
				visit(x.Call.Args[0], x.Block())
				return
			}
			n++
			bad = append(bad, fmt.Sprintf("the queue is replaced by the result of %s at %s", instrText(x), a.ipos(x)))
		case *ssa.Slice:
			if k, ok := ssau.ConstInt(x.High); x.High != nil && ok && k == 0 {
				n++
				if !under(x.Block()) {
					bad = append(bad, fmt.Sprintf("%s at %s truncates the queue outside the discontinuity / unit start / completeness edges", instrText(x), a.ipos(x)))
				}
				return
			}
			if x.High == nil && x.Low == nil {
				visit(x.X, x.Block())
				return
			}
			n++
			bad = append(bad, fmt.Sprintf("%s at %s keeps only a part of the queue", instrText(x), a.ipos(x)))
		case *ssa.MakeSlice:
			n++
			if !under(x.Block()) {
				bad = append(bad, fmt.Sprintf("a fresh queue is made at %s outside the discontinuity / unit start / completeness edges", a.ipos(x)))
			}
		case *ssa.UnOp:
			if _, ok := a.fieldLoadOf(x, "packetAccumulator", "q"); !ok {
				n++
				bad = append(bad, fmt.Sprintf("the queue is replaced by %s at %s", instrText(x), a.ipos(x)))
			}
		default:
			n++
			bad = append(bad, fmt.Sprintf("the queue is replaced by %s", v.String()))
		}
	}
	for _, st := range x.qStores {
		visit(st.Val, st.Block())
	}
	switch {
	case len(bad) > 0:
		a.R.Bad(rule, "add/emptied-only-at-gap", a.fpos(f), strings.Join(bad, "; ")+": packets of a unit that is still being assembled are silently discarded")
	case n == 0:
		a.R.Unknown(rule, "add/emptied-only-at-gap", a.fpos(f), "no reset of the queue found in add")
	default:
		a.R.OK(rule, "add/emptied-only-at-gap", a.fpos(f), fmt.Sprintf("%d resets of the queue value (x[:0], make, nil), each under the true edge of %s", n, strings.Join(names, " / ")))
	}
}

func (a *A) derivesFromQ(v ssa.Value) bool {
	seen := map[ssa.Value]bool{}
	var rec func(v ssa.Value) bool
	rec = func(v ssa.Value) bool {
		if v == nil || seen[v] {
			return false
		}
		seen[v] = true
		switch x := v.(type) {
		case *ssa.Phi:
			for _, e := range x.Edges {
				if rec(e) {
					return true
				}
			}
		case *ssa.Slice:
			return rec(x.X)
		case *ssa.Call:
			if isBuiltin(&x.Call, "append") && len(x.Call.Args) > 0 {
				return rec(x.Call.Args[0])
			}
		case *ssa.UnOp:
			_, ok := a.fieldLoadOf(x, "packetAccumulator", "q")
			return ok
		}
		return false
	}
	return rec(v)
}

// R3: on the PayloadUnitStartIndicator-true edge the previous queue is returned and a fresh one is kept.
func (a *A) pusiReturnsPrevious() {
	const rule, key = "R3", "add/pusi-returns-previous-queue-keeps-fresh"
	x := a.accumulator(rule)
	if x == nil {
		return
	}
	if x.pusiIf == nil {
		a.R.Bad(rule, key, a.fpos(x.add), "add does not branch (exactly once) on p.Header.PayloadUnitStartIndicator: a new unit start does not flush the previous unit")
		return
	}
	pos := a.ipos(x.pusiIf.If)
	T, excl := x.pusiIf.when(true)
	var bad []string
	if !excl {
		bad = append(bad, "the PUSI edge is shared with other paths")
	}
	pk := packetParams(x.add)
	// the queue that receives p on this path is fresh
	napp := 0
	for _, ap := range x.appendP {
		if !(ap.Block() == T || ssau.Reaches(T, ap.Block())) {
			continue
		}
		napp++
		for _, l := range pathVals(ap.Call.Args[0], ap.Block(), nil, T) {
			if l == nil || ssau.IsNilConst(l) || freshEmpty(l) {
				continue
			}
			bad = append(bad, "on the PUSI path the packet is appended to "+l.Name()+" = "+l.String()+", not to a fresh make(…, 0, …): the kept queue shares elements or storage with the returned one")
		}
	}
	if napp == 0 {
		bad = append(bad, "no append(queue, p) after the PUSI edge")
	}
	// the value returned on this path is the previous queue
	nret := 0
	prev := 0 // over all returns behind the edge: the early flush may have a return of its own
	for _, ret := range ssau.Returns(x.add) {
		if !(ret.Block() == T || ssau.Reaches(T, ret.Block())) {
			continue
		}
		nret++
		for _, l := range pathValsRaw(ret.Results[0], ret.Block(), nil, T) {
			if l == nil || ssau.IsNilConst(l) {
				bad = append(bad, "on a PUSI path add returns nil: the previous unit is not handed out")
				continue
			}
			var why []string
			switch a.queueForm(l, x.recv, pk, map[ssa.Value]qform{}, &why) {
			case qPrev:
				prev++
			case qApp:
				// early flush of a single-packet PSI unit (see R4/add/early-flush)
			default:
				bad = append(bad, "on a PUSI path add returns "+strings.Join(why, "; "))
			}
		}
	}
	if nret > 0 && prev == 0 {
		bad = append(bad, "no PUSI path returns the pre-append queue value")
	}
	if nret == 0 {
		bad = append(bad, "no return after the PUSI edge")
	}
	a.R.Check(len(bad) == 0, rule, key, pos,
		"on every path through the PUSI-true edge the returned group is the queue as it was before the append (or, on the early-flush edge, the new complete queue) and p is appended to a fresh make(…, 0, …)",
		strings.Join(bad, "; "))
}

// ---------------------------------------------------------------------------------------------
// R4 no read-ahead

func (a *A) noReadAhead(rd readerSets) {
	const rule = "R4"
	nd := a.anchor(rule, "Demuxer.NextData")
	ud := a.anchor(rule, "Demuxer.updateData")
	pd := a.anchor(rule, "parseData")
	if nd == nil || ud == nil || pd == nil {
		return
	}
	for _, f := range []*ssa.Function{pd, ud} {
		a.R.Check(!rd.reach[f], rule, bare(f)+"/reader-free", a.fpos(f),
			short(f)+" and everything it calls (static call graph of the package, function values included) never calls a method of an io.Reader/io.Seeker nor passes one to library code",
			short(f)+" can reach the input reader: a unit is not delivered without consuming further input")
	}
	sites := callsTo(nd, ud)
	if !a.R.Floor(rule, "updateData call sites in NextData", len(sites), 1) {
		return
	}
	for _, s := range sites {
		uc, _ := s.(*ssa.Call)
		if uc == nil {
			a.R.Unknown(rule, "NextData/no-read-ahead/updateData-deferred", a.ipos(s), "updateData is deferred or started as a goroutine")
			continue
		}
		// group source
		src := "unknown-source"
		var group *ssa.Call
		if pc, idx := tupleSource(uc.Call.Args[1]); pc != nil && idx == 0 && pc.Call.StaticCallee() == pd && len(pc.Call.Args) > 0 {
			if g := callOf(pc.Call.Args[0]); g != nil && g.Call.StaticCallee() != nil {
				group = g
				src = g.Call.StaticCallee().Name()
			}
		}
		key := "NextData/no-read-ahead/after-" + src
		if group == nil {
			a.R.Unknown(rule, key, a.ipos(uc), "the data passed to updateData does not come from parseData(<addUnlocked/dumpUnlocked result>)")
			continue
		}
		// delivery returns: dominated by the non-nil edge of the updateData result and returning it
		ifs := ifsOn(nd, func(v ssa.Value) bool { nc, ok := ssau.AsNilCompare(v); return ok && nc.X == ssa.Value(uc) })
		var rets []*ssa.Return
		for _, ci := range ifs {
			nc, _ := ssau.AsNilCompare(ci.V)
			nn, excl := ci.when(nc.Ne)
			if !excl {
				continue
			}
			for _, ret := range ssau.Returns(nd) {
				if nn.Dominates(ret.Block()) && containsVal(pathVals(ret.Results[0], ret.Block(), nil, nn), uc) {
					rets = append(rets, ret)
				}
			}
		}
		if len(rets) == 0 {
			a.R.Unknown(rule, key, a.ipos(uc), "no return of the non-nil updateData result found")
			continue
		}
		stop := map[*ssa.BasicBlock]bool{group.Block(): true}
		var bad []string
		ncalls := 0
		for _, ret := range rets {
			fw := map[*ssa.BasicBlock]bool{}
			for _, sc := range group.Block().Succs {
				for b := range reachableFrom(sc, stop) {
					fw[b] = true
				}
			}
			bw := reachingBackward(ret.Block(), stop)
			check := func(in ssa.Instruction) {
				c, ok := in.(ssa.CallInstruction)
				if !ok {
					return
				}
				ncalls++
				if a.isReaderTouch(c) {
					bad = append(bad, fmt.Sprintf("%s at %s accesses the reader", instrText(in), a.ipos(in)))
				}
				if cal := c.Common().StaticCallee(); cal != nil && rd.reach[cal] {
					bad = append(bad, fmt.Sprintf("%s at %s can reach the reader", short(cal), a.ipos(in)))
				}
			}
			gi := ssau.IndexOf(group)
			for _, in := range group.Block().Instrs[gi+1:] {
				check(in)
			}
			for b := range fw {
				if !bw[b] {
					continue
				}
				for _, in := range b.Instrs {
					check(in)
				}
			}
		}
		sort.Strings(bad)
		a.R.Check(len(bad) == 0, rule, key, a.ipos(uc),
			fmt.Sprintf("on every path from the %s result to the return of its data (%d call(s) inspected) no call can reach the input reader: the unit is returned by the call that read its last packet", src, ncalls),
			"between the group and the return of its data: "+strings.Join(uniq(bad), "; "))
	}
}

func uniq(s []string) []string {
	var out []string
	for i, x := range s {
		if i == 0 || x != s[i-1] {
			out = append(out, x)
		}
	}
	return out
}

// earlyFlush: add() calls isPSIComplete on the current queue and on its true edge returns the queue and keeps nothing.
func (a *A) earlyFlush() {
	const rule, key = "R4", "add/early-flush-returns-queue"
	x := a.accumulator(rule)
	pc := a.anchor(rule, "isPSIComplete")
	if x == nil || pc == nil {
		return
	}
	calls := callsTo(x.add, pc)
	if len(calls) == 0 {
		a.R.Bad(rule, key, a.fpos(x.add), "add does not call isPSIComplete: a complete PAT/PMT stays in the queue until the next unit start, i.e. it is not returned by the call that reads its final packet")
		return
	}
	var bad []string
	for _, c := range calls {
		cc, _ := c.(*ssa.Call)
		if cc == nil {
			bad = append(bad, "isPSIComplete is deferred")
			continue
		}
		ifs := ifsOn(x.add, func(v ssa.Value) bool { return v == ssa.Value(cc) })
		if len(ifs) != 1 {
			bad = append(bad, "the result of isPSIComplete is not branched on exactly once")
			continue
		}
		T, excl := ifs[0].when(true)
		if !excl {
			bad = append(bad, "the complete edge is shared with other paths")
		}
		q := cc.Call.Args[0]
		if !containsApp(x.appendP, q) {
			bad = append(bad, "isPSIComplete is not evaluated on the queue including the arriving packet (append(queue, p)) but on "+q.String())
		}
		nret, nst := 0, 0
		for b := range reachableFrom(T, nil) {
			for _, in := range b.Instrs {
				switch v := in.(type) {
				case *ssa.Return:
					nret++
					ls := pathVals(v.Results[0], b, nil, T)
					if len(ls) != 1 || ls[0] != q {
						bad = append(bad, "on the complete edge add returns "+valList(ls)+" instead of the tested queue "+q.Name())
					}
				case *ssa.Store:
					if _, ok := a.fieldAddrOf(v.Addr, "packetAccumulator", "q"); ok {
						nst++
						for _, l := range pathVals(v.Val, b, nil, T) {
							if l == nil || ssau.IsNilConst(l) || freshEmpty(l) {
								continue
							}
							bad = append(bad, "on the complete edge the accumulator keeps "+l.Name()+" = "+l.String()+" (must be nil or a fresh empty slice: the flushed packets would be delivered twice or share storage)")
						}
					}
				}
			}
		}
		if nret == 0 || nst == 0 {
			bad = append(bad, fmt.Sprintf("the complete edge has %d return(s) and %d store(s) to q", nret, nst))
		}
	}
	a.R.Check(len(bad) == 0, rule, key, a.ipos(calls[0]),
		"add evaluates isPSIComplete on append(queue, p); on its true edge it returns exactly that queue and stores nil to q (which condition selects PSI PIDs is not constrained)",
		strings.Join(bad, "; "))
}

func containsApp(apps []*ssa.Call, v ssa.Value) bool {
	for _, c := range apps {
		if ssa.Value(c) == v {
			return true
		}
	}
	return false
}

// ---------------------------------------------------------------------------------------------
// R5 who may call the reader

func (a *A) whoMayRead(rd readerSets) {
	const rule = "R5"
	allowed := map[*ssa.Function]bool{}
	for _, k := range []string{"peek", "autoDetectPacketSize", "rewind", "packetBuffer.next"} {
		if f := a.P.Func(k); f != nil {
			allowed[f] = true
		}
	}
	var fs []*ssa.Function
	for f := range rd.direct {
		fs = append(fs, f)
	}
	sort.Slice(fs, func(i, j int) bool { return fs[i].Pos() < fs[j].Pos() })
	// a private helper of an owner: unexported, never used as a value, called (at least once) from owners only
	helperOf := map[*ssa.Function]string{}
	for changed := true; changed; {
		changed = false
		for _, f := range fs {
			if allowed[f] || f.Object() == nil || f.Object().Exported() || f.Signature.Recv() != nil {
				continue
			}
			sites, other := a.callSites(f)
			ok := len(sites) > 0 && len(other) == 0
			var owners []string
			for _, s := range sites {
				if _, plain := s.In.(*ssa.Call); !plain || !allowed[s.Fn] {
					ok = false
				}
				owners = append(owners, short(s.Fn))
			}
			if ok {
				allowed[f], helperOf[f], changed = true, strings.Join(uniq(owners), ", "), true
			}
		}
	}
	for _, f := range fs {
		var what []string
		for _, c := range rd.direct[f] {
			what = append(what, instrText(c))
		}
		if o := helperOf[f]; o != "" {
			a.R.OK(rule, bare(f)+"/reader-access", a.ipos(rd.direct[f][0]),
				short(f)+" is an unexported helper whose only references are plain calls from "+o+", an owner of the input reader: "+strings.Join(what, "; "))
			continue
		}
		a.R.Check(allowed[f], rule, bare(f)+"/reader-access", a.ipos(rd.direct[f][0]),
			short(f)+" is one of the four functions that own the input reader (peek, autoDetectPacketSize, rewind, (*packetBuffer).next): "+strings.Join(what, "; "),
			short(f)+" reads from / seeks the input reader ("+strings.Join(what, "; ")+"); only peek, autoDetectPacketSize, rewind and (*packetBuffer).next may: input consumed elsewhere is lost to the packet framing")
	}
	a.R.Floor(rule, "functions with direct reader access", len(fs), 2)
	a.R.Count("reader_reaching_funcs", len(rd.reach))
}
