package demuxrules

// Rules added after an independent review found property-breaking edits the first rule set missed:
//
//	C06 (f) S5/add/discontinuity-test-unconditional
//	C06 (g) S5/add/pusi-flush-follows-discontinuity-decision
//	C02 R6  isPSIComplete/exact-fit-complete
//	C02 R7  add/psi-test-reads-live-program-map
//	C02 R8  <fn>/isPESPayload-arg, <fn>/iterator-source, <fn>/concatenates-all-payloads
//
// (C07 I6 re-runs filtersFirst, C07 I7 is ownership.BorrowTaint, see props/c07.go.)
// Everything is decided on go/ssa: dominators, def-use, static callees, go/types constants.

import (
	"fmt"
	"go/constant"
	"go/token"
	"go/types"
	"sort"
	"strings"

	"golang.org/x/tools/go/ssa"

	"astverif/load"
	"astverif/ssau"
)

// strictlyBefore: the terminator of block g is executed before anything of block b on every path to b.
func strictlyBefore(g, b *ssa.BasicBlock) bool { return g != b && g.Dominates(b) }

// ---------------------------------------------------------------------------------------------
// C06 (f): the discontinuity test is evaluated, and branched on, for every non-duplicate packet

func (a *A) discTestUnconditional() {
	const rule, key = "S5", "add/discontinuity-test-unconditional"
	x := a.accumulator(rule)
	disc := a.anchor(rule, "hasDiscontinuity")
	if x == nil || disc == nil {
		return
	}
	var calls []*ssa.Call
	for _, c := range callsTo(x.add, disc) {
		if cc, ok := c.(*ssa.Call); ok {
			calls = append(calls, cc)
		}
	}
	if len(calls) == 0 {
		a.R.Bad(rule, key, a.fpos(x.add), "add never calls hasDiscontinuity: a gap in the continuity counter does not reset the queue")
		return
	}
	if x.sameIf == nil {
		a.R.Unknown(rule, key, a.fpos(x.add), "add does not branch exactly once on isSameAsPrevious: the duplicate edge, whose returns are exempt, cannot be identified")
		return
	}
	dup, excl := x.sameIf.when(true)
	if !excl {
		a.R.Unknown(rule, key, a.ipos(x.sameIf.If), "the duplicate edge is shared with other paths")
		return
	}
	// the branches on the result of the test
	var tests []*ssa.If
	for _, c := range calls {
		for _, ci := range ifsOn(x.add, func(v ssa.Value) bool { return v == ssa.Value(c) }) {
			tests = append(tests, ci.If)
		}
	}
	if len(tests) == 0 {
		a.R.Unknown(rule, key, a.ipos(calls[0]), "the result of hasDiscontinuity is never the condition of a branch: the discontinuity decision cannot be located")
		return
	}
	covered := func(b *ssa.BasicBlock) bool {
		for _, t := range tests {
			if strictlyBefore(t.Block(), b) {
				return true
			}
		}
		return false
	}
	var bad []string
	n := 0
	for _, st := range x.qStores {
		n++
		if !covered(st.Block()) {
			bad = append(bad, fmt.Sprintf("the store to q at %s can execute without the discontinuity test having been taken", a.ipos(st)))
		}
	}
	for _, ret := range ssau.Returns(x.add) {
		if dup.Dominates(ret.Block()) {
			continue // a discarded duplicate
		}
		n++
		if !covered(ret.Block()) {
			bad = append(bad, fmt.Sprintf("the return at %s can be reached by a non-duplicate packet without the discontinuity test having been taken", a.ipos(ret)))
		}
	}
	if n == 0 {
		a.R.Unknown(rule, key, a.fpos(x.add), "add has no store to q and no return outside the duplicate edge")
		return
	}
	a.R.Check(len(bad) == 0, rule, key, a.ipos(tests[0]),
		fmt.Sprintf("the branch on hasDiscontinuity(queue, p) strictly dominates all %d stores to q and returns of add outside the isSameAsPrevious-true edge: the gap test is taken for every packet that is not a discarded duplicate, whatever its PUSI flag", n),
		strings.Join(bad, "; ")+" (e.g. a gap followed by a unit start would flush a truncated unit)")
}

// ---------------------------------------------------------------------------------------------
// C06 (g): whatever add returns on a path through the discontinuity edge holds no packet from before the gap

func (a *A) flushAfterDiscontinuity() {
	const rule, key = "S5", "add/pusi-flush-follows-discontinuity-decision"
	x := a.accumulator(rule)
	if x == nil {
		return
	}
	if x.discIf == nil {
		a.R.Unknown(rule, key, a.fpos(x.add), "add does not branch exactly once on the result of hasDiscontinuity: the discontinuity edge cannot be identified")
		return
	}
	if x.pusiIf == nil {
		a.R.Unknown(rule, key, a.fpos(x.add), "add does not branch exactly once on p.Header.PayloadUnitStartIndicator: the flush edge cannot be identified")
		return
	}
	pos := a.ipos(x.discIf.If)
	D, excl := x.discIf.when(true)
	if !excl {
		a.R.Unknown(rule, key, pos, "the discontinuity edge is shared with other paths")
		return
	}
	T, _ := x.pusiIf.when(true)
	if !(T == D || ssau.Reaches(D, T)) {
		a.R.Bad(rule, key, pos, "the PUSI flush edge is not reachable from the discontinuity edge: the flush happens before (or instead of) the discontinuity decision")
		return
	}
	var bad []string
	seen := map[ssa.Value]bool{}
	nleaf := 0
	// group: the values v (used in block use) may hold on paths through D, looking through append(base, p)
	var group func(v ssa.Value, use *ssa.BasicBlock)
	group = func(v ssa.Value, use *ssa.BasicBlock) {
		for _, l := range pathValsRaw(v, use, nil, D) {
			if l == nil || seen[l] {
				continue
			}
			seen[l] = true
			if lenZero(l) {
				nleaf++
				continue
			}
			if c := callOf(l); c != nil && isBuiltin(&c.Call, "append") && len(c.Call.Args) == 2 {
				if vs, ok := varargOf(c.Call.Args[1]); ok && len(vs) == 1 && vs[0] == ssa.Value(x.pkt) {
					group(c.Call.Args[0], c.Block())
					continue
				}
			}
			bad = append(bad, fmt.Sprintf("on a path through the discontinuity edge add can return a group built from %s = %s, which is not known to be empty there", l.Name(), l.String()))
		}
	}
	nret := 0
	for _, ret := range ssau.Returns(x.add) {
		if !(ret.Block() == D || ssau.Reaches(D, ret.Block())) || len(ret.Results) == 0 {
			continue
		}
		nret++
		group(ret.Results[0], ret.Block())
	}
	if nret == 0 {
		a.R.Unknown(rule, key, pos, "no return is reachable from the discontinuity edge")
		return
	}
	a.R.Check(len(bad) == 0, rule, key, pos,
		fmt.Sprintf("the PUSI flush edge lies after the discontinuity decision, and every group add can return on a path through the hasDiscontinuity-true edge (phi edges restricted to such paths, %d leaves) is nil, x[:0], make(·,0,·) or append(<one of these>, p): what is flushed after a gap is the reset queue, never the queue as loaded", nleaf),
		strings.Join(bad, "; "))
}

// ---------------------------------------------------------------------------------------------
// C02 R6: exact fit is complete

func isIterType(t types.Type) bool { return ssau.IsNamed(t, load.AstikitPath, "BytesIterator") }

// iterMethod: v is a call of method name of *astikit.BytesIterator; returns the receiver value.
func iterMethod(v ssa.Value) (name string, recv ssa.Value, call *ssa.Call) {
	c := callOf(v)
	if c == nil {
		return "", nil, nil
	}
	cal := c.Call.StaticCallee()
	if cal == nil || cal.Signature.Recv() == nil || !isIterType(cal.Signature.Recv().Type()) || len(c.Call.Args) == 0 {
		return "", nil, nil
	}
	return cal.Name(), c.Call.Args[0], c
}

func isNewIterator(c *ssa.Call) bool {
	cal := c.Call.StaticCallee()
	return cal != nil && ssau.FuncQName(cal) == load.AstikitPath+".NewBytesIterator" && len(c.Call.Args) == 1
}

func cmpInts(op token.Token, x, y int) (bool, bool) {
	switch op {
	case token.EQL:
		return x == y, true
	case token.NEQ:
		return x != y, true
	case token.LSS:
		return x < y, true
	case token.LEQ:
		return x <= y, true
	case token.GTR:
		return x > y, true
	case token.GEQ:
		return x >= y, true
	}
	return false, false
}

// lenOffsetTable evaluates v, a (possibly negated) comparison between it.Len() and it.Offset(), for
// the three orderings Len<Offset, Len==Offset, Len>Offset.
func lenOffsetTable(v ssa.Value) (tbl [3]bool, it ssa.Value, lenCall, offCall *ssa.Call, ok bool) {
	v, neg := stripNot(v)
	b, isB := v.(*ssa.BinOp)
	if !isB {
		return
	}
	nx, rx, cx := iterMethod(b.X)
	ny, ry, cy := iterMethod(b.Y)
	if rx == nil || ry == nil || rx != ry {
		return
	}
	xIsLen := false
	switch {
	case nx == "Len" && ny == "Offset":
		xIsLen, lenCall, offCall = true, cx, cy
	case nx == "Offset" && ny == "Len":
		lenCall, offCall = cy, cx
	default:
		return
	}
	for i, lo := range [3][2]int{{1, 2}, {2, 2}, {3, 2}} {
		x, y := lo[0], lo[1]
		if !xIsLen {
			x, y = y, x
		}
		r, okc := cmpInts(b.Op, x, y)
		if !okc {
			return
		}
		tbl[i] = r != neg
	}
	return tbl, rx, lenCall, offCall, true
}

// psiScanFunc: the function that scans the sections of an assembled PSI payload: isPSIComplete itself, or — when the scan
// was extracted — the helper of the package whose boolean result isPSIComplete returns.
func (a *A) psiScanFunc(rule string) *ssa.Function {
	f := a.anchor(rule, "isPSIComplete")
	for depth := 0; f != nil && depth < 3; depth++ {
		hasFetch := false
		var delegate *ssa.Function
		for _, b := range f.Blocks {
			for _, in := range b.Instrs {
				c, ok := in.(*ssa.Call)
				if !ok {
					continue
				}
				if n, recv, _ := iterMethod(c); recv != nil && (n == "NextByte" || n == "NextBytes" || n == "NextBytesNoCopy") {
					hasFetch = true
				}
				cal := c.Call.StaticCallee()
				if cal == nil || cal.Pkg != a.P.SSAPkg || len(cal.Blocks) == 0 || cal.Signature.Results().Len() != 1 {
					continue
				}
				if bt, ok := cal.Signature.Results().At(0).Type().Underlying().(*types.Basic); !ok || bt.Info()&types.IsBoolean == 0 {
					continue
				}
				for _, ret := range ssau.Returns(f) {
					if len(ret.Results) == 1 {
						for _, l := range ssau.Leaves(ret.Results[0]) {
							if l == ssa.Value(c) {
								delegate = cal
							}
						}
					}
				}
			}
		}
		if hasFetch || delegate == nil {
			return f
		}
		f = delegate
	}
	return f
}

func (a *A) exactFitComplete() {
	const rule, key = "R6", "isPSIComplete/exact-fit-complete"
	f := a.psiScanFunc(rule)
	if f == nil {
		return
	}
	var bad, unk []string
	ncmp, nfalse := 0, 0
	pos := a.fpos(f)
	for _, ret := range ssau.Returns(f) {
		if ret.Block() == f.Recover || len(ret.Results) != 1 {
			continue
		}
		for _, l := range pathVals(ret.Results[0], ret.Block(), nil, f.Blocks[0]) {
			if l == nil {
				nfalse++
				continue
			}
			if cb, ok := ssau.ConstBool(l); ok {
				if cb {
					unk = append(unk, "the return at "+a.ipos(ret)+" reports 'complete' without comparing the iterator's Len and Offset")
				} else {
					nfalse++
				}
				continue
			}
			tbl, it, lenCall, offCall, ok := lenOffsetTable(l)
			if !ok {
				unk = append(unk, fmt.Sprintf("the return at %s yields %s = %s, which is not a comparison between Len() and Offset() of one iterator", a.ipos(ret), l.Name(), l.String()))
				continue
			}
			ncmp++
			pos = a.ipos(ret)
			if tbl != [3]bool{false, true, true} {
				var w []string
				if tbl[0] {
					w = append(w, "sections that end beyond the assembled payload (Len < Offset) are reported complete: a truncated PAT/PMT is flushed early")
				}
				if !tbl[1] {
					w = append(w, "sections that end exactly at the end of the assembled payload (Len == Offset) are reported incomplete: the PAT/PMT is delivered late or lost")
				}
				if !tbl[2] {
					w = append(w, "sections followed by stuffing (Len > Offset) are reported incomplete")
				}
				bad = append(bad, fmt.Sprintf("%s: truth table over Len<Offset, Len==Offset, Len>Offset is %v, want [false true true]: %s", a.condText(l), tbl, strings.Join(w, "; ")))
			}
			// measured on the iterator built in this function, after the last advance
			ic := callOf(it)
			if ic == nil || !isNewIterator(ic) {
				unk = append(unk, "Len/Offset are not called on the result of astikit.NewBytesIterator of this function")
				continue
			}
			for _, r := range *it.Referrers() {
				c, isCall := r.(*ssa.Call)
				if !isCall || c == lenCall || c == offCall {
					continue
				}
				if n, _, _ := iterMethod(c); n == "Len" || n == "Offset" || n == "HasBytesLeft" {
					continue
				}
				if canFollow(lenCall, c) || canFollow(offCall, c) {
					bad = append(bad, fmt.Sprintf("the iterator is used by %s at %s after Len/Offset were measured", instrText(c), a.ipos(c)))
				}
			}
		}
	}
	switch {
	case len(bad) > 0:
		a.R.Bad(rule, key, pos, strings.Join(bad, "; "))
	case len(unk) > 0:
		a.R.Unknown(rule, key, pos, strings.Join(unk, "; "))
	case ncmp == 0:
		a.R.Unknown(rule, key, pos, "no return of isPSIComplete yields a Len/Offset comparison")
	default:
		a.R.OK(rule, key, pos, fmt.Sprintf("%d return(s) yield a comparison of i.Len() with i.Offset() (same iterator, created in the function, not advanced afterwards) whose truth table over Len<Offset, Len==Offset, Len>Offset is [false true true]; the other %d return value(s) are false", ncmp, nfalse))
	}
}

// ---------------------------------------------------------------------------------------------
// C02 R9: a unit is never complete before the first byte of its first section has been seen

// sectionSeenBeforeComplete: in isPSIComplete, every path from the first fetch (the pointer_field) to a return that may
// be true passes a second successful fetch on the same iterator (the table_id of the first section). Otherwise a first
// chunk that only holds the pointer_field (and its filler bytes) is reported complete and the PAT/PMT is flushed before
// its sections arrive. The search is path-sensitive in one fact: two HasBytesLeft() calls with no cursor movement in
// between yield the same value.
func (a *A) sectionSeenBeforeComplete() {
	const rule, key = "R9", "isPSIComplete/section-seen-before-complete"
	f := a.psiScanFunc(rule)
	if f == nil {
		return
	}
	isFetch := func(n string) bool { return n == "NextByte" || n == "NextBytes" || n == "NextBytesNoCopy" }
	moves := func(n string) bool { return isFetch(n) || n == "Skip" || n == "Seek" || n == "Dump" }
	// the first fetch
	var first *ssa.Call
	var it ssa.Value
	for _, b := range f.DomPreorder() {
		for _, in := range b.Instrs {
			c, ok := in.(*ssa.Call)
			if !ok {
				continue
			}
			if n, recv, _ := iterMethod(c); recv != nil && isFetch(n) {
				first, it = c, recv
				break
			}
		}
		if first != nil {
			break
		}
	}
	if first == nil {
		a.R.Unknown(rule, key, a.fpos(f), "no fetch on a BytesIterator found in isPSIComplete")
		return
	}
	// the error of a fetch: the edge on which it is nil
	fetchErr := func(c *ssa.Call) ssa.Value {
		for _, r := range *c.Referrers() {
			if e, ok := r.(*ssa.Extract); ok && e.Index == 1 {
				return e
			}
		}
		return nil
	}
	type st struct {
		b     *ssa.BasicBlock
		idx   int
		known int // 0 unknown, 1 HasBytesLeft true, 2 false
	}
	seen := map[st]bool{}
	var bad []string
	var walk func(s st, hbl map[ssa.Value]bool)
	walk = func(s st, hbl map[ssa.Value]bool) {
		if seen[s] || len(bad) > 3 {
			return
		}
		seen[s] = true
		known := s.known
		for i := s.idx; i < len(s.b.Instrs); i++ {
			switch in := s.b.Instrs[i].(type) {
			case *ssa.Call:
				n, recv, _ := iterMethod(in)
				if recv == nil || recv != it {
					continue
				}
				if isFetch(n) {
					// a second fetch: the path is fine on its success edge; the failure edge must not report complete,
					// which the generic rule below checks too (returns reachable without a successful fetch)
					ev := fetchErr(in)
					// continue only along the failure edge: find the If on ev != nil
					failWalk(a, in, ev, func(nb *ssa.BasicBlock) { walk(st{nb, 0, 0}, hbl) }, func(msg string) { bad = append(bad, msg) })
					return
				}
				if moves(n) {
					known = 0
				}
				if n == "HasBytesLeft" {
					hbl[in] = true
				}
			case *ssa.Return:
				if len(in.Results) != 1 {
					continue
				}
				for _, l := range pathVals(in.Results[0], in.Block(), nil, f.Blocks[0]) {
					if l == nil {
						continue
					}
					if cb, ok := ssau.ConstBool(l); ok && !cb {
						continue
					}
					bad = append(bad, fmt.Sprintf("the return at %s can report 'complete' on a path on which nothing but the pointer_field (fetched at %s) and its filler bytes has been read", a.ipos(in), a.ipos(first)))
					break
				}
				return
			case *ssa.If:
				cv, neg := stripNot(in.Cond)
				if c := callOf(cv); c != nil && hbl[c] {
					// HasBytesLeft: true edge = succ 0 (xor neg)
					for side := 0; side < 2; side++ {
						val := (side == 0) != neg // value of HasBytesLeft on this edge
						k := 1
						if !val {
							k = 2
						}
						if known != 0 && known != k {
							continue
						}
						walk(st{s.b.Succs[side], 0, k}, hbl)
					}
					return
				}
				for _, nb := range s.b.Succs {
					walk(st{nb, 0, known}, hbl)
				}
				return
			case *ssa.Jump:
				walk(st{s.b.Succs[0], 0, known}, hbl)
				return
			}
		}
	}
	// start right after the first fetch, on its success edge
	started := false
	ev := fetchErr(first)
	hbl := map[ssa.Value]bool{}
	succWalk(first, ev, func(nb *ssa.BasicBlock) { started = true; walk(st{nb, 0, 0}, hbl) })
	switch {
	case !started:
		a.R.Unknown(rule, key, a.ipos(first), "the success edge of the pointer_field fetch could not be identified")
	case len(bad) > 0:
		a.R.Bad(rule, key, a.ipos(first), strings.Join(bad, "; "))
	default:
		a.R.OK(rule, key, a.ipos(first), fmt.Sprintf("every path from the pointer_field fetch to a return that may be true passes a second successful fetch on the same iterator (%d path states explored; HasBytesLeft() is re-evaluated consistently while the cursor does not move)", len(seen)))
	}
}

// C02 R10: a section header that cannot be read entirely means the unit is NOT complete. In isPSIComplete every return
// reachable from the failure edge of a fetch is the constant false (cut section headers at the end of the assembled
// payload belong to a section that is still arriving; judging the unit complete there hands the parser a cut section).
func (a *A) failedFetchIncomplete() {
	const rule, key = "R10", "isPSIComplete/failed-fetch-means-incomplete"
	f := a.psiScanFunc(rule)
	if f == nil {
		return
	}
	n := 0
	var bad []string
	for _, b := range f.Blocks {
		for _, in := range b.Instrs {
			c, ok := in.(*ssa.Call)
			if !ok {
				continue
			}
			name, recv, _ := iterMethod(c)
			if recv == nil || (name != "NextByte" && name != "NextBytes" && name != "NextBytesNoCopy") {
				continue
			}
			n++
			var ev ssa.Value
			for _, r := range *c.Referrers() {
				if e, ok := r.(*ssa.Extract); ok && e.Index == 1 {
					ev = e
				}
			}
			if ev == nil {
				bad = append(bad, "the error of the fetch at "+a.ipos(c)+" is discarded")
				continue
			}
			found := false
			edgeWalk(ev, false, func(nb *ssa.BasicBlock) {
				found = true
				for rb := range reachableFrom(nb, nil) {
					ret := blockReturn(rb)
					if ret == nil || len(ret.Results) != 1 {
						continue
					}
					for _, l := range pathVals(ret.Results[0], rb, nil, nb) {
						if l == nil {
							continue
						}
						if cb, ok := ssau.ConstBool(l); ok && !cb {
							continue
						}
						bad = append(bad, fmt.Sprintf("after the fetch at %s failed (a cut section header) the return at %s can still report 'complete'", a.ipos(c), a.ipos(ret)))
						return
					}
				}
			})
			if !found {
				bad = append(bad, "the error of the fetch at "+a.ipos(c)+" is not tested")
			}
		}
	}
	switch {
	case n == 0:
		a.R.Unknown(rule, key, a.fpos(f), "no fetch found in isPSIComplete")
	case len(bad) > 0:
		a.R.Bad(rule, key, a.fpos(f), strings.Join(bad, "; "))
	default:
		a.R.OK(rule, key, a.fpos(f), fmt.Sprintf("%d fetches: every return reachable from a failed fetch is the constant false", n))
	}
}

// succWalk calls f with the block entered when the error ev of fetch c is nil.
func succWalk(c *ssa.Call, ev ssa.Value, f func(*ssa.BasicBlock)) {
	edgeWalk(ev, true, f)
}

// failWalk continues along the edge on which the fetch failed.
func failWalk(a *A, c *ssa.Call, ev ssa.Value, f func(*ssa.BasicBlock), report func(string)) {
	if ev == nil {
		return
	}
	edgeWalk(ev, false, f)
}

// edgeWalk finds the If that tests ev against nil and calls f with the successor for ev == nil (wantNil) or ev != nil.
func edgeWalk(ev ssa.Value, wantNil bool, f func(*ssa.BasicBlock)) {
	if ev == nil {
		return
	}
	for _, r := range *ev.Referrers() {
		b, ok := r.(*ssa.BinOp)
		if !ok || (b.Op != token.NEQ && b.Op != token.EQL) {
			continue
		}
		for _, rr := range *b.Referrers() {
			iff, ok := rr.(*ssa.If)
			if !ok {
				continue
			}
			// NEQ: succ0 = non-nil, succ1 = nil
			nilSucc := 1
			if b.Op == token.EQL {
				nilSucc = 0
			}
			if wantNil {
				f(iff.Block().Succs[nilSucc])
			} else {
				f(iff.Block().Succs[1-nilSucc])
			}
		}
	}
}

// ---------------------------------------------------------------------------------------------
// C02 R7: the early-flush guard reads the live program map

type psiGuard struct {
	a        *A
	x        *accAnchors
	exists   *ssa.Function
	patVal   constant.Value
	withLive bool
	busyV    map[ssa.Value]bool
	busyB    map[*ssa.BasicBlock]bool
}

func (g *psiGuard) isPid(v ssa.Value) bool { return isFieldLoad(stripConvert(v), g.x.recv, "pid") }

// live: v is true iff the accumulator's pid is in the program map reached through b.programMap NOW.
func (g *psiGuard) live(v ssa.Value) bool {
	isChain := func(v ssa.Value, fields ...string) bool {
		root, fs := fieldChain(v)
		if root != ssa.Value(g.x.recv) || len(fs) != len(fields) {
			return false
		}
		for i := range fs {
			if fs[i] != fields[i] {
				return false
			}
		}
		return true
	}
	switch x := v.(type) {
	case *ssa.Call:
		if g.exists == nil || x.Call.StaticCallee() != g.exists || len(x.Call.Args) != 2 {
			return false
		}
		return isChain(x.Call.Args[0], "programMap") && g.isPid(x.Call.Args[1])
	case *ssa.Extract:
		lk, ok := x.Tuple.(*ssa.Lookup)
		if !ok || !lk.CommaOk || x.Index != 1 {
			return false
		}
		return isChain(lk.X, "programMap", "p") && g.isPid(lk.Index)
	}
	return false
}

// patCompare: v is pid == PIDPAT (eq=true) or pid != PIDPAT (eq=false).
func (g *psiGuard) patCompare(v ssa.Value) (eq, ok bool) {
	b, isB := v.(*ssa.BinOp)
	if !isB || (b.Op != token.EQL && b.Op != token.NEQ) || g.patVal == nil {
		return false, false
	}
	isPat := func(v ssa.Value) bool {
		c, ok := v.(*ssa.Const)
		return ok && c.Value != nil && c.Value.Kind() == constant.Int && constant.Compare(c.Value, token.EQL, g.patVal)
	}
	if (g.isPid(b.X) && isPat(b.Y)) || (g.isPid(b.Y) && isPat(b.X)) {
		return b.Op == token.EQL, true
	}
	return false, false
}

// implies: "v has truth value val" implies pid == PIDPAT or (withLive) the pid is in the live map.
func (g *psiGuard) implies(v ssa.Value, val bool) bool {
	switch x := v.(type) {
	case *ssa.UnOp:
		if x.Op == token.NOT {
			return g.implies(x.X, !val)
		}
	case *ssa.BinOp:
		if eq, ok := g.patCompare(x); ok {
			return eq == val
		}
	case *ssa.Const:
		cb, ok := ssau.ConstBool(x)
		return ok && cb != val // can never have that value
	case *ssa.Phi:
		if g.busyV[x] {
			return false
		}
		g.busyV[x] = true
		defer delete(g.busyV, x)
		for i, e := range x.Edges {
			p := x.Block().Preds[i]
			if g.implies(e, val) || g.edgeJustified(p, x.Block()) || g.guarded(p) {
				continue
			}
			return false
		}
		return true
	}
	if val && g.withLive && g.live(v) {
		return true
	}
	if c, ok := v.(*ssa.Call); ok {
		return g.helperImplies(c, val)
	}
	return false
}

// helperImplies: c calls a boolean predicate of the package on the same accumulator (a method or a function taking it first); the
// predicate returning val implies the PSI test when every return of the predicate either returns a value that cannot be val without
// the test holding, or is only reached over a justified edge of the predicate itself.
func (g *psiGuard) helperImplies(c *ssa.Call, val bool) bool {
	h := g.helper(c)
	if h == nil || g.busyV[c] {
		return false
	}
	g.busyV[c] = true
	defer delete(g.busyV, c)
	sub := g.sub(h)
	n := 0
	for _, b := range h.Blocks {
		ret, ok := b.Instrs[len(b.Instrs)-1].(*ssa.Return)
		if !ok {
			continue
		}
		n++
		if len(ret.Results) != 1 {
			return false
		}
		if sub.implies(ret.Results[0], val) || sub.guarded(b) {
			continue
		}
		return false
	}
	return n > 0
}

// helper resolves c to a package function with a body whose first argument is the accumulator and which returns one boolean.
func (g *psiGuard) helper(c *ssa.Call) *ssa.Function {
	h := c.Call.StaticCallee()
	if h == nil || h.Pkg != g.a.P.SSAPkg || len(h.Blocks) == 0 || len(c.Call.Args) == 0 || len(h.Params) == 0 || c.Call.Args[0] != ssa.Value(g.x.recv) {
		return nil
	}
	res := h.Signature.Results()
	if res.Len() != 1 {
		return nil
	}
	if bt, ok := res.At(0).Type().Underlying().(*types.Basic); !ok || bt.Info()&types.IsBoolean == 0 {
		return nil
	}
	return h
}

// sub is the guard analysis of helper h: the accumulator is h's first parameter.
func (g *psiGuard) sub(h *ssa.Function) *psiGuard {
	x := *g.x
	x.recv = h.Params[0]
	return &psiGuard{a: g.a, x: &x, exists: g.exists, patVal: g.patVal, withLive: g.withLive, busyV: map[ssa.Value]bool{}, busyB: map[*ssa.BasicBlock]bool{}}
}

// liveIn counts the live program-map tests in f and in the boolean accumulator predicates it calls.
func (g *psiGuard) liveIn(f *ssa.Function, seen map[*ssa.Function]bool) int {
	if seen[f] {
		return 0
	}
	seen[f] = true
	n := 0
	for _, b := range f.Blocks {
		for _, in := range b.Instrs {
			v, ok := in.(ssa.Value)
			if !ok {
				continue
			}
			if g.live(v) {
				n++
			} else if c, ok := v.(*ssa.Call); ok {
				if h := g.helper(c); h != nil {
					n += g.sub(h).liveIn(h, seen)
				}
			}
		}
	}
	return n
}

// edgeJustified: the CFG edge from→to is a conditional edge whose condition value implies the PSI test.
func (g *psiGuard) edgeJustified(from, to *ssa.BasicBlock) bool {
	iff := blockIf(from)
	if iff == nil || from.Succs[0] == from.Succs[1] {
		return false
	}
	if from.Succs[0] == to {
		return g.implies(iff.Cond, true)
	}
	if from.Succs[1] == to {
		return g.implies(iff.Cond, false)
	}
	return false
}

// guarded: every path from the entry to b passes a justified edge.
func (g *psiGuard) guarded(b *ssa.BasicBlock) bool {
	if g.busyB[b] {
		return false
	}
	g.busyB[b] = true
	defer delete(g.busyB, b)
	f := b.Parent()
	seen := map[*ssa.BasicBlock]bool{}
	st := []*ssa.BasicBlock{f.Blocks[0]}
	for len(st) > 0 {
		c := st[len(st)-1]
		st = st[:len(st)-1]
		if seen[c] {
			continue
		}
		seen[c] = true
		if c == b {
			return false
		}
		for _, s := range c.Succs {
			if !seen[s] && !g.edgeJustified(c, s) {
				st = append(st, s)
			}
		}
	}
	return true
}

func (a *A) psiTestLive() {
	const rule, key = "R7", "add/psi-test-reads-live-program-map"
	x := a.accumulator(rule)
	pc := a.anchor(rule, "isPSIComplete")
	if x == nil || pc == nil {
		return
	}
	var calls []*ssa.Call
	for _, c := range callsTo(x.add, pc) {
		if cc, ok := c.(*ssa.Call); ok {
			calls = append(calls, cc)
		}
	}
	if len(calls) == 0 {
		a.R.Unknown(rule, key, a.fpos(x.add), "add does not call isPSIComplete: there is no early-flush guard to inspect")
		return
	}
	mk := func(withLive bool) *psiGuard {
		g := &psiGuard{a: a, x: x, exists: a.P.Func("programMap.existsUnlocked"), withLive: withLive, busyV: map[ssa.Value]bool{}, busyB: map[*ssa.BasicBlock]bool{}}
		if k, ok := a.P.Types.Scope().Lookup("PIDPAT").(*types.Const); ok {
			g.patVal = k.Val()
		}
		return g
	}
	full, patOnly := mk(true), mk(false)
	if full.patVal == nil {
		a.R.Unknown(rule, key, a.fpos(x.add), "constant PIDPAT not found")
		return
	}
	// live tests present in add
	nlive := full.liveIn(x.add, map[*ssa.Function]bool{})
	var bad []string
	if nlive == 0 {
		bad = append(bad, "add contains no existsUnlocked(b.pid) call (or b.programMap.p[uint32(b.pid)] lookup) whose receiver is loaded from b.programMap in add itself")
	}
	for _, cc := range calls {
		B := cc.Block()
		if !full.guarded(B) {
			bad = append(bad, fmt.Sprintf("isPSIComplete at %s can be reached on a path that passes neither the edge pid == PIDPAT nor the true edge of an existsUnlocked(b.pid) evaluated on b.programMap in this invocation", a.ipos(cc)))
		} else if patOnly.guarded(B) {
			bad = append(bad, fmt.Sprintf("isPSIComplete at %s is only reached for pid == PIDPAT: the program map does not take part in the guard, PMT PIDs never flush early", a.ipos(cc)))
		}
		// (2) no cached boolean of the accumulator in the guard
		region := reachingBackward(B, nil)
		seen := map[ssa.Value]bool{}
		var walk func(v ssa.Value)
		walk = func(v ssa.Value) {
			if v == nil || seen[v] {
				return
			}
			seen[v] = true
			switch y := v.(type) {
			case *ssa.UnOp:
				if y.Op == token.MUL {
					if fa, ok := y.X.(*ssa.FieldAddr); ok && ssau.IsNamed(fa.X.Type(), load.RootPath, "packetAccumulator") {
						if bt, ok := y.Type().Underlying().(*types.Basic); ok && bt.Info()&types.IsBoolean != 0 {
							n, _ := ssau.FieldName(fa)
							bad = append(bad, fmt.Sprintf("the guard of isPSIComplete loads the boolean field packetAccumulator.%s at %s: a PSI decision cached in the accumulator does not see PMT PIDs learnt from a later PAT", n, a.ipos(y)))
						}
					}
					return
				}
				walk(y.X)
			case *ssa.BinOp:
				walk(y.X)
				walk(y.Y)
			case *ssa.Phi:
				for _, e := range y.Edges {
					walk(e)
				}
			case *ssa.Extract:
				walk(y.Tuple)
			case *ssa.Convert:
				walk(y.X)
			case *ssa.ChangeType:
				walk(y.X)
			case *ssa.Field:
				if ssau.IsNamed(y.X.Type(), load.RootPath, "packetAccumulator") {
					if bt, ok := y.Type().Underlying().(*types.Basic); ok && bt.Info()&types.IsBoolean != 0 {
						bad = append(bad, "the guard of isPSIComplete reads a boolean field of the accumulator at "+a.ipos(y))
					}
				}
			case *ssa.Call:
				for _, arg := range y.Call.Args {
					if bt, ok := arg.Type().Underlying().(*types.Basic); ok && bt.Info()&types.IsBoolean != 0 {
						walk(arg)
					}
				}
				// a predicate of the package: what its conditions and results read counts as read by the guard
				if h := y.Call.StaticCallee(); h != nil && h.Pkg == a.P.SSAPkg && len(h.Blocks) > 0 && h != pc {
					for _, hb := range h.Blocks {
						switch t := hb.Instrs[len(hb.Instrs)-1].(type) {
						case *ssa.If:
							walk(t.Cond)
						case *ssa.Return:
							for _, r := range t.Results {
								walk(r)
							}
						}
					}
				}
			}
		}
		for g := range region {
			if iff := blockIf(g); iff != nil && !(g == B && iff.Cond == ssa.Value(cc)) {
				walk(iff.Cond)
			}
		}
	}
	sort.Strings(bad)
	a.R.Check(len(bad) == 0, rule, key, a.ipos(calls[0]),
		fmt.Sprintf("with the true edges of pid == PIDPAT and of the %d live program-map test(s) (existsUnlocked / map lookup on the value loaded from b.programMap in add, argument b.pid) removed, isPSIComplete is unreachable from the entry of add, with only the PIDPAT edge removed it stays reachable, and no boolean field of packetAccumulator feeds a condition on the way: the PSI decision is taken on the current program map at every invocation", nlive),
		strings.Join(uniq(bad), "; "))
}

// ---------------------------------------------------------------------------------------------
// C02 R8: dispatch and completeness are decided on the assembled payload

type assembly struct {
	f     *ssa.Function
	ps    *ssa.Parameter
	item  *ssa.Call // bytesPool.get(size)
	size  ssa.Value
	done  *ssa.BasicBlock // block entered when the concatenation loop is left
	iters map[ssa.Value]bool
}

// sLoad: v is a load of item.s.
func (a *A) sLoad(as *assembly, v ssa.Value) bool {
	base, ok := a.fieldLoadOf(v, "bytesPoolItem", "s")
	return ok && base == ssa.Value(as.item)
}

// fromAssembled classifies v: 0 = derives from the load of item.s through whole/prefix slicing only,
// 1 = undecided re-slicing, 2 = something else.
func (a *A) fromAssembled(as *assembly, v ssa.Value) (int, string) {
	for {
		switch x := v.(type) {
		case *ssa.ChangeType:
			v = x.X
			continue
		case *ssa.Slice:
			if x.Low != nil {
				if k, ok := ssau.ConstInt(x.Low); !ok || k != 0 {
					return 1, "re-sliced with a lower bound (" + x.String() + "): the leading bytes of the unit are skipped"
				}
			}
			if x.Max != nil {
				return 1, "re-sliced with a capacity bound (" + x.String() + ")"
			}
			if x.High != nil && x.High != as.size {
				hiOK := false
				if c := callOf(x.High); c != nil && isBuiltin(&c.Call, "len") && a.sLoad(as, c.Call.Args[0]) {
					hiOK = true
				}
				if !hiOK {
					return 1, "re-sliced with an upper bound that is not the assembled length (" + x.String() + ")"
				}
			}
			v = x.X
			continue
		}
		break
	}
	if a.sLoad(as, v) {
		return 0, ""
	}
	return 2, describe(v)
}

func (a *A) assembledPayload() {
	const rule = "R8"
	for _, name := range []string{"parseData", "isPSIComplete"} {
		f := a.anchor(rule, name)
		if f == nil {
			continue
		}
		if name == "parseData" {
			f = a.defaultProcess(f)
		}
		a.assembledIn(rule, f, name == "parseData")
	}
}

// defaultProcess: the function that assembles and dispatches the unit — parseData itself, or, when parseData keeps only the
// custom-parser stage, the package function it tail-calls with its own packet group as first argument and that takes the
// concatenation buffer from the pool.
func (a *A) defaultProcess(pd *ssa.Function) *ssa.Function {
	usesPool := func(f *ssa.Function) bool {
		get := a.P.Func("bytesPooler.get")
		for _, c := range ssau.Calls(f) {
			if get != nil && c.Common().StaticCallee() == get {
				return true
			}
		}
		return false
	}
	if usesPool(pd) || len(pd.Params) == 0 {
		return pd
	}
	for _, ret := range ssau.Returns(pd) {
		if len(ret.Results) == 0 {
			continue
		}
		var call *ssa.Call
		switch x := ret.Results[0].(type) {
		case *ssa.Extract:
			call, _ = x.Tuple.(*ssa.Call)
		case *ssa.Call:
			call = x
		}
		if call == nil {
			continue
		}
		g := call.Call.StaticCallee()
		if g == nil || g.Pkg != a.P.SSAPkg || len(g.Blocks) == 0 || len(call.Call.Args) == 0 || call.Call.Args[0] != ssa.Value(pd.Params[0]) || !usesPool(g) {
			continue
		}
		tail := true
		for i, rv := range ret.Results {
			if ex, ok := rv.(*ssa.Extract); !ok || ex.Tuple != ssa.Value(call) || ex.Index != i {
				tail = false
			}
		}
		if tail {
			return g
		}
	}
	return pd
}

func (a *A) assembledIn(rule string, f *ssa.Function, dispatch bool) {
	fn := bare(f)
	kIter, kCat, kPES := fn+"/iterator-source", fn+"/concatenates-all-payloads", fn+"/isPESPayload-arg"
	keys := []string{kIter, kCat}
	if dispatch {
		keys = append(keys, kPES)
	}
	allUnknown := func(pos, why string) {
		for _, k := range keys {
			a.R.Unknown(rule, k, pos, why)
		}
	}
	if len(f.Params) == 0 {
		allUnknown(a.fpos(f), short(f)+" has no parameters")
		return
	}
	as := &assembly{f: f, ps: f.Params[0], iters: map[ssa.Value]bool{}}
	if sl, ok := as.ps.Type().Underlying().(*types.Slice); !ok || !ssau.IsNamed(sl.Elem(), load.RootPath, "Packet") {
		allUnknown(a.fpos(f), "the first parameter of "+short(f)+" is not the packet group []*Packet")
		return
	}
	get := a.P.Func("bytesPooler.get")
	var gets []*ssa.Call
	if get != nil {
		for _, c := range callsTo(f, get) {
			if cc, ok := c.(*ssa.Call); ok {
				gets = append(gets, cc)
			}
		}
	}
	if len(gets) != 1 || len(gets[0].Call.Args) != 2 {
		allUnknown(a.fpos(f), fmt.Sprintf("%s obtains %d buffers from bytesPool.get (expected exactly one concatenation buffer)", short(f), len(gets)))
		return
	}
	as.item, as.size = gets[0], gets[0].Call.Args[1]
	// the buffer is exactly as long as the unit: its size is the sum of the payload lengths of THIS packet group, computed
	// here — a length remembered elsewhere (a field of the accumulator, a parameter) can be stale, and every byte of the
	// pooled buffer beyond the copied payloads belongs to whoever used the pool item before (another PID, another demuxer)
	{
		kSize := fn + "/buffer-size-is-sum-of-payload-lengths"
		if ok, why := payloadLenSum(as.size); ok {
			a.R.OK(rule, kSize, a.ipos(gets[0]), "the size passed to bytesPool.get is a loop accumulator that starts at 0 and adds len(p.Payload) per packet")
		} else {
			a.R.Bad(rule, kSize, a.ipos(gets[0]), "the size passed to bytesPool.get is not the sum of the payload lengths computed in "+short(f)+" ("+why+"): if it is larger than what the copy loop fills, the parsers read bytes left in the pooled buffer by another unit")
		}
	}
	// the field s of the item is not reassigned here
	for _, r := range *as.item.Referrers() {
		if fa, ok := r.(*ssa.FieldAddr); ok {
			for _, rr := range *fa.Referrers() {
				if st, ok := rr.(*ssa.Store); ok && st.Addr == ssa.Value(fa) {
					allUnknown(a.ipos(st), "the pooled item's field s is reassigned in "+short(f)+": which buffer later loads see is not tracked")
					return
				}
			}
		}
	}
	a.concatenation(rule, kCat, as)

	afterLoop := func(c ssa.Instruction) string {
		if as.done != nil && !as.done.Dominates(c.Block()) {
			return fmt.Sprintf("%s at %s is not dominated by the exit of the concatenation loop: it can see a partially assembled buffer", instrText(c), a.ipos(c))
		}
		return ""
	}
	// iterator source
	var bad, unk []string
	var first ssa.Instruction
	for _, c := range ssau.Calls(f) {
		cc, ok := c.(*ssa.Call)
		if !ok {
			continue
		}
		if !isNewIterator(cc) {
			// a helper of the package that is handed the assembled buffer and builds the iterator over that parameter
			if cal := cc.Call.StaticCallee(); cal != nil && cal.Pkg == a.P.SSAPkg && len(cal.Blocks) > 0 {
				for i, arg := range cc.Call.Args {
					if i >= len(cal.Params) {
						continue
					}
					if st, _ := a.fromAssembled(as, arg); st != 0 {
						continue
					}
					for _, hc := range ssau.Calls(cal) {
						if h, ok := hc.(*ssa.Call); ok && isNewIterator(h) && h.Call.Args[0] == ssa.Value(cal.Params[i]) {
							if first == nil {
								first = cc
							}
							as.iters[cc] = true
							if w := afterLoop(cc); w != "" {
								bad = append(bad, w)
							}
						}
					}
				}
			}
			continue
		}
		if first == nil {
			first = cc
		}
		st, why := a.fromAssembled(as, cc.Call.Args[0])
		switch st {
		case 0:
			as.iters[cc] = true
			if w := afterLoop(cc); w != "" {
				bad = append(bad, w)
			}
		case 1:
			unk = append(unk, fmt.Sprintf("the iterator created at %s reads the pooled buffer %s", a.ipos(cc), why))
		default:
			bad = append(bad, fmt.Sprintf("the iterator created at %s reads %s, not the concatenation buffer payload.s obtained from bytesPool.get: bytes of the unit carried by the other packets are invisible to the parser", a.ipos(cc), why))
		}
	}
	nuse := 0
	for _, c := range ssau.Calls(f) {
		for _, arg := range c.Common().Args {
			if !isIterType(arg.Type()) {
				continue
			}
			nuse++
			for _, l := range ssau.Leaves(arg) {
				if l == nil || !as.iters[l] {
					if lc := callOf(l); lc != nil && isNewIterator(lc) {
						continue // reported at its creation
					}
					bad = append(bad, fmt.Sprintf("%s at %s uses an iterator (%s) that was not created in %s on payload.s", instrText(c), a.ipos(c), describe(l), short(f)))
				}
			}
		}
	}
	pos := a.fpos(f)
	if first != nil {
		pos = a.ipos(first)
	}
	switch {
	case first == nil:
		a.R.Unknown(rule, kIter, pos, short(f)+" does not call astikit.NewBytesIterator: the parsers' input cannot be located")
	case len(bad) > 0:
		a.R.Bad(rule, kIter, pos, strings.Join(uniq(bad), "; "))
	case len(unk) > 0:
		a.R.Unknown(rule, kIter, pos, strings.Join(unk, "; "))
	default:
		a.R.OK(rule, kIter, pos, fmt.Sprintf("every astikit.NewBytesIterator in %s is created, after the concatenation loop, on the load of the pooled item's field s (whole or length-preserving slice), and all %d iterator uses (methods, parse* arguments) take such an iterator", short(f), nuse))
	}
	if !dispatch {
		return
	}
	// isPESPayload argument
	isPES := a.P.Func("isPESPayload")
	var sites []*ssa.Call
	if isPES != nil {
		for _, c := range callsTo(f, isPES) {
			if cc, ok := c.(*ssa.Call); ok {
				sites = append(sites, cc)
			}
		}
	}
	if len(sites) == 0 {
		a.R.Unknown(rule, kPES, a.fpos(f), short(f)+" does not call isPESPayload: the PES dispatch test cannot be located")
		return
	}
	bad, unk = nil, nil
	for _, cc := range sites {
		st, why := a.fromAssembled(as, cc.Call.Args[0])
		switch st {
		case 0:
			if w := afterLoop(cc); w != "" {
				bad = append(bad, w)
			}
		case 1:
			unk = append(unk, fmt.Sprintf("isPESPayload at %s is applied to the pooled buffer %s", a.ipos(cc), why))
		default:
			bad = append(bad, fmt.Sprintf("isPESPayload at %s is applied to %s, not to the concatenation buffer payload.s: a start code prefix that straddles two packets is not recognised and the unit is dropped", a.ipos(cc), why))
		}
	}
	switch {
	case len(bad) > 0:
		a.R.Bad(rule, kPES, a.ipos(sites[0]), strings.Join(bad, "; "))
	case len(unk) > 0:
		a.R.Unknown(rule, kPES, a.ipos(sites[0]), strings.Join(unk, "; "))
	default:
		a.R.OK(rule, kPES, a.ipos(sites[0]), fmt.Sprintf("all %d isPESPayload calls take the load of the pooled item's field s (whole or length-preserving slice) after the concatenation loop", len(sites)))
	}
}

// concatenation: one loop `for k, p := range ps { c += copy(payload.s[c:], p.Payload) }` over the whole group.
func (a *A) concatenation(rule, key string, as *assembly) {
	f := as.f
	var copies []*ssa.Call
	for _, c := range ssau.Calls(f) {
		cc, ok := c.(*ssa.Call)
		if !ok || !isBuiltin(&cc.Call, "copy") {
			continue
		}
		d := cc.Call.Args[0]
		for {
			if sl, ok := d.(*ssa.Slice); ok {
				d = sl.X
				continue
			}
			break
		}
		if a.sLoad(as, d) {
			copies = append(copies, cc)
		}
	}
	if len(copies) != 1 {
		a.R.Unknown(rule, key, a.ipos(as.item), fmt.Sprintf("%d copy calls write into the pooled buffer of %s (expected exactly one, inside the concatenation loop)", len(copies), short(f)))
		return
	}
	cp := copies[0]
	pos := a.ipos(cp)
	B := cp.Block()
	unknown := func(why string) { a.R.Unknown(rule, key, pos, why) }
	// destination payload.s[c:]
	dst, ok := cp.Call.Args[0].(*ssa.Slice)
	if !ok || !a.sLoad(as, dst.X) || dst.High != nil || dst.Max != nil {
		unknown("the copy destination is not payload.s[c:]")
		return
	}
	var bad []string
	var hdr *ssa.BasicBlock
	outside := func(h, p *ssa.BasicBlock) bool { return !ssau.Reaches(h, p) }
	if dst.Low == nil {
		bad = append(bad, "every payload is copied to the start of the buffer (payload.s[:]): later packets overwrite earlier ones")
	} else {
		cphi, isPhi := dst.Low.(*ssa.Phi)
		if !isPhi || len(cphi.Edges) != 2 {
			if k, isC := ssau.ConstInt(dst.Low); isC {
				bad = append(bad, fmt.Sprintf("every payload is copied to the fixed offset %d", k))
			} else {
				unknown("the destination offset " + dst.Low.String() + " is not a loop-carried running sum")
				return
			}
		} else {
			hdr = cphi.Block()
			init, step := 0, 0
			for i, e := range cphi.Edges {
				p := hdr.Preds[i]
				if k, isC := ssau.ConstInt(e); isC && k == 0 && outside(hdr, p) {
					init++
					continue
				}
				if bo, isB := e.(*ssa.BinOp); isB && bo.Op == token.ADD && bo.Block() == B && !outside(hdr, p) &&
					((bo.X == ssa.Value(cphi) && bo.Y == ssa.Value(cp)) || (bo.X == ssa.Value(cp) && bo.Y == ssa.Value(cphi))) {
					step++
					continue
				}
				bad = append(bad, fmt.Sprintf("the destination offset takes the value %s on the edge from block %d: it is not the running sum of the copy results starting at 0", e.String(), p.Index))
			}
			if len(bad) == 0 && (init != 1 || step != 1) {
				unknown("the destination offset is not of the form c = 0; c += copy(…)")
				return
			}
		}
	}
	// source ps[k].Payload
	root, fs := fieldChain(cp.Call.Args[1])
	var ia *ssa.IndexAddr
	if u, isU := root.(*ssa.UnOp); isU && u.Op == token.MUL {
		ia, _ = u.X.(*ssa.IndexAddr)
	}
	if ia == nil || len(fs) != 1 || fs[0] != "Payload" {
		if len(fs) == 0 {
			unknown("the copy source " + describe(cp.Call.Args[1]) + " is not the Payload of an element of ps")
		} else {
			a.R.Bad(rule, key, pos, "the copy source is "+describe(cp.Call.Args[1])+", not the Payload field of the range element of ps")
		}
		return
	}
	if ia.X != ssa.Value(as.ps) {
		if derivesFromParam(ia.X, as.ps) {
			bad = append(bad, "the loop ranges over "+ia.X.Name()+" = "+ia.X.String()+", a part of ps: packets outside it are not copied")
		} else {
			bad = append(bad, "the loop ranges over "+describe(ia.X)+", not over the group ps")
		}
	}
	// induction k = 0, 1, 2, …
	var ih *ssa.BasicBlock
	idx := ia.Index
	isOne := func(v ssa.Value) bool { k, ok := ssau.ConstInt(v); return ok && k == 1 }
	incOf := func(v, of ssa.Value) bool {
		bo, ok := v.(*ssa.BinOp)
		return ok && bo.Op == token.ADD && ((bo.X == of && isOne(bo.Y)) || (bo.Y == of && isOne(bo.X)))
	}
	indOK := false
	switch x := idx.(type) {
	case *ssa.Phi: // k := 0; k++
		if len(x.Edges) == 2 {
			ih = x.Block()
			n0, n1 := 0, 0
			for i, e := range x.Edges {
				p := ih.Preds[i]
				if k, ok := ssau.ConstInt(e); ok && k == 0 && outside(ih, p) {
					n0++
				} else if incOf(e, x) && !outside(ih, p) {
					n1++
				}
			}
			indOK = n0 == 1 && n1 == 1
		}
	case *ssa.BinOp: // go/ssa's rangeindex: k = phi[-1, k] + 1
		for _, side := range []ssa.Value{x.X, x.Y} {
			ph, ok := side.(*ssa.Phi)
			if !ok || len(ph.Edges) != 2 || !incOf(x, ph) || x.Block() != ph.Block() {
				continue
			}
			ih = ph.Block()
			n0, n1 := 0, 0
			for i, e := range ph.Edges {
				p := ih.Preds[i]
				if k, ok := ssau.ConstInt(e); ok && k == -1 && outside(ih, p) {
					n0++
				} else if e == ssa.Value(x) && !outside(ih, p) {
					n1++
				}
			}
			indOK = n0 == 1 && n1 == 1
		}
	}
	if !indOK {
		if k, isC := ssau.ConstInt(idx); isC {
			a.R.Bad(rule, key, pos, fmt.Sprintf("only ps[%d].Payload is copied", k))
		} else {
			unknown("the index " + idx.String() + " of the copied packet is not an induction variable running 0, 1, 2, …")
		}
		return
	}
	if hdr == nil {
		hdr = ih
	}
	if ih != hdr {
		unknown("the packet index and the destination offset are carried by different loops")
		return
	}
	// loop bound k < len(ps)
	iff := blockIf(hdr)
	if iff == nil {
		unknown("the loop header does not end in the bound test")
		return
	}
	cond, neg := stripNot(iff.Cond)
	cb, isB := cond.(*ssa.BinOp)
	var bound ssa.Value
	if isB {
		switch {
		case cb.Op == token.LSS && cb.X == idx:
			bound = cb.Y
		case cb.Op == token.GTR && cb.Y == idx:
			bound = cb.X
		}
	}
	if bound == nil {
		unknown("the loop test " + a.condText(cond) + " is not k < len(ps)")
		return
	}
	if lc := callOf(bound); lc == nil || !isBuiltin(&lc.Call, "len") {
		bad = append(bad, "the loop bound is "+describe(bound)+", not len(ps)")
	} else if lc.Call.Args[0] != ssa.Value(as.ps) {
		if ia.X == ssa.Value(as.ps) || lc.Call.Args[0] != ia.X {
			bad = append(bad, "the loop bound is len("+describe(lc.Call.Args[0])+"), not len(ps)")
		}
	}
	body, done := hdr.Succs[0], hdr.Succs[1]
	if neg {
		body, done = done, body
	}
	as.done = done
	if !body.Dominates(B) {
		unknown("the copy is not inside the loop body")
		return
	}
	// every iteration copies, and the loop is left through its bound test only
	inLoop := reachableFrom(body, map[*ssa.BasicBlock]bool{hdr: true})
	for b := range inLoop {
		if b == done || isExit(b) {
			bad = append(bad, fmt.Sprintf("the loop can be left from block %d (%s) before all packets are copied", b.Index, a.ipos(lastInstr(b))))
			break
		}
	}
	for b := range reachableFrom(body, map[*ssa.BasicBlock]bool{hdr: true, B: true}) {
		for _, s := range b.Succs {
			if s == hdr {
				bad = append(bad, fmt.Sprintf("an iteration can skip the copy (block %d, %s)", b.Index, a.ipos(lastInstr(b))))
			}
		}
	}
	if !as.item.Block().Dominates(hdr) {
		bad = append(bad, "the buffer is obtained inside or after the loop")
	}
	sort.Strings(bad)
	a.R.Check(len(bad) == 0, rule, key, pos,
		"the single copy into the pooled buffer is c += copy(payload.s[c:], ps[k].Payload) with c a running sum from 0 and k an induction variable 0,1,2,… bounded by len(ps), ranging over the parameter ps itself; every iteration executes the copy and the loop is left only through its bound test: all payloads are concatenated in queue order (that the buffer length equals the sum of the payload lengths is not part of this rule)",
		strings.Join(uniq(bad), "; "))
}

func derivesFromParam(v ssa.Value, p *ssa.Parameter) bool {
	for i := 0; i < 8; i++ {
		if v == ssa.Value(p) {
			return true
		}
		sl, ok := v.(*ssa.Slice)
		if !ok {
			return false
		}
		v = sl.X
	}
	return false
}

// ---------------------------------------------------------------------------------------------
// I9 packets handed out are not written to afterwards
//
// A *Packet travels from parsePacket through the pool to the PacketsParser callback, to NextPacket's caller and into
// DemuxerData.FirstPacket; whoever received it may still hold it. In the code reachable from NextPacket/NextData/Rewind a
// store into a Packet, PacketAdaptationField or PacketAdaptationExtensionField is therefore legitimate only while the
// object is under construction: the address is rooted at an allocation of the storing function itself.
func (a *A) PacketsNotMutated() {
	const rule = "I9"
	var roots []*ssa.Function
	for _, n := range []string{"Demuxer.NextPacket", "Demuxer.NextData", "Demuxer.Rewind"} {
		if f := a.anchor(rule, n); f != nil {
			roots = append(roots, f)
		}
	}
	if len(roots) != 3 {
		return
	}
	tracked := map[string]bool{"Packet": true, "PacketAdaptationField": true, "PacketAdaptationExtensionField": true}
	reach := a.reachableFuncs(roots...)
	var fs []*ssa.Function
	for f := range reach {
		fs = append(fs, f)
	}
	sort.Slice(fs, func(i, j int) bool { return fs[i].Pos() < fs[j].Pos() })
	fresh, bad := 0, 0
	for _, f := range fs {
		n := 0
		for _, b := range f.Blocks {
			for _, in := range b.Instrs {
				st, ok := in.(*ssa.Store)
				if !ok {
					continue
				}
				fa, ok := st.Addr.(*ssa.FieldAddr)
				if !ok {
					continue
				}
				// innermost tracked owner on the address chain
				var owner ssa.Value
				ownerName := ""
				for cur := fa; cur != nil; {
					if pt, ok := cur.X.Type().Underlying().(*types.Pointer); ok {
						if nm, ok := pt.Elem().(*types.Named); ok && tracked[nm.Obj().Name()] && nm.Obj().Pkg() == a.P.Pkg.Types {
							owner, ownerName = cur.X, nm.Obj().Name()
						}
					}
					next, _ := cur.X.(*ssa.FieldAddr)
					cur = next
				}
				if owner == nil {
					continue
				}
				root := owner
				for {
					if x, ok := root.(*ssa.FieldAddr); ok {
						root = x.X
						continue
					}
					break
				}
				if freshObject(f, root, 0) || a.freshAtEveryCallSite(f, root, 0) {
					fresh++
					continue
				}
				n++
				bad++
				a.R.Bad(rule, fmt.Sprintf("%s/store-into-%s#%d", bare(f), ownerName, n), a.ipos(st),
					fmt.Sprintf("%s writes a field of a %s it did not allocate itself (%s): the object may already be in the hands of a PacketsParser, of NextPacket's caller or of a delivered DemuxerData, which sees it change afterwards", bare(f), ownerName, instrText(st)))
			}
		}
	}
	a.R.Check(bad == 0, rule, "packets-written-only-under-construction", "", fmt.Sprintf("%d stores into Packet/PacketAdaptationField/PacketAdaptationExtensionField objects in the %d functions reachable from NextPacket/NextData/Rewind, all rooted at an allocation of the storing function", fresh, len(fs)), fmt.Sprintf("%d stores into objects allocated elsewhere", bad))
	a.R.Floor(rule, "stores into packets under construction", fresh, 10)
}

// freshObject: v is an object allocated by f itself — an allocation of f, or the value loaded from a field of such an
// object when every store of f into that field (of that object) stores an allocation of f
// (`a.Ext = &Ext{}; a.Ext.X = …`).
func freshObject(f *ssa.Function, v ssa.Value, depth int) bool {
	if depth > 4 {
		return false
	}
	if al, ok := v.(*ssa.Alloc); ok {
		return al.Parent() == f
	}
	ld, ok := v.(*ssa.UnOp)
	if !ok || ld.Op != token.MUL {
		return false
	}
	fa, ok := ld.X.(*ssa.FieldAddr)
	if !ok {
		return false
	}
	base := fa.X
	for {
		if x, ok := base.(*ssa.FieldAddr); ok {
			base = x.X
			continue
		}
		break
	}
	if !freshObject(f, base, depth+1) {
		return false
	}
	n := 0
	for _, b := range f.Blocks {
		for _, in := range b.Instrs {
			st, ok := in.(*ssa.Store)
			if !ok {
				continue
			}
			sa, ok := st.Addr.(*ssa.FieldAddr)
			if !ok || sa.Field != fa.Field || sa.X != fa.X {
				continue
			}
			n++
			if al, ok := st.Val.(*ssa.Alloc); !ok || al.Parent() != f {
				return false
			}
		}
	}
	return n > 0
}

// ---------------------------------------------------------------------------------------------
// D2 what was decoded is delivered: no filter on decoded content
//
// "exactly the units the stream carries" / "every PES and table exactly once": once a unit has been decoded without
// error, whether it is delivered must not depend on what it contains. In parseData no branch condition reads a field of
// the decoded PES or PSI structure; in (*PSIData).toData the only section fields a branch condition may read are the
// nil-ness of Syntax / Syntax.Data (nothing was decoded) and Header.TableID (which DemuxerData field receives the table).
func (a *A) NoContentFilter() {
	const rule = "D2"
	ownerField := func(fa *ssa.FieldAddr) (string, string) {
		pt, ok := fa.X.Type().Underlying().(*types.Pointer)
		if !ok {
			return "", ""
		}
		st, ok := pt.Elem().Underlying().(*types.Struct)
		if !ok {
			return "", ""
		}
		owner := ""
		if nm, ok := pt.Elem().(*types.Named); ok {
			owner = nm.Obj().Name()
		}
		return owner, st.Field(fa.Field).Name()
	}
	// condLoads lists the field loads a branch condition depends on (through boolean/arithmetic operators, phis,
	// conversions and the arguments of calls)
	condLoads := func(cond ssa.Value) []*ssa.FieldAddr {
		var out []*ssa.FieldAddr
		seen := map[ssa.Value]bool{}
		var rec func(v ssa.Value, depth int)
		rec = func(v ssa.Value, depth int) {
			if v == nil || seen[v] || depth > 12 {
				return
			}
			seen[v] = true
			switch x := v.(type) {
			case *ssa.BinOp:
				rec(x.X, depth+1)
				rec(x.Y, depth+1)
			case *ssa.UnOp:
				if x.Op == token.MUL {
					if fa, ok := x.X.(*ssa.FieldAddr); ok {
						out = append(out, fa)
						return
					}
				}
				rec(x.X, depth+1)
			case *ssa.Phi:
				for _, e := range x.Edges {
					rec(e, depth+1)
				}
			case *ssa.Convert:
				rec(x.X, depth+1)
			case *ssa.ChangeType:
				rec(x.X, depth+1)
			case *ssa.Call:
				for _, arg := range x.Call.Args {
					rec(arg, depth+1)
				}
			case *ssa.Extract:
				rec(x.Tuple, depth+1)
			}
		}
		rec(cond, 0)
		return out
	}
	// chainOwners: named struct types on the address chain of a field load (p.A.B -> types of p, p.A)
	chainOwners := func(fa *ssa.FieldAddr) []string {
		var out []string
		var cur ssa.Value = fa
		for i := 0; i < 12 && cur != nil; i++ {
			switch x := cur.(type) {
			case *ssa.FieldAddr:
				o, _ := ownerField(x)
				out = append(out, o)
				cur = x.X
			case *ssa.UnOp:
				cur = x.X
			default:
				if pt, ok := cur.Type().Underlying().(*types.Pointer); ok {
					if nm, ok := pt.Elem().(*types.Named); ok {
						out = append(out, nm.Obj().Name())
					}
				}
				cur = nil
			}
		}
		return out
	}
	if pd := a.anchor(rule, "parseData"); pd != nil {
		pd = a.defaultProcess(pd)
		content := map[string]bool{"PESData": true, "PESHeader": true, "PESOptionalHeader": true, "PSIData": true, "PSISection": true, "PSISectionHeader": true, "PSISectionSyntax": true, "PSISectionSyntaxHeader": true, "PSISectionSyntaxData": true}
		var bad []string
		nif := 0
		for _, b := range pd.Blocks {
			iff, ok := b.Instrs[len(b.Instrs)-1].(*ssa.If)
			if !ok {
				continue
			}
			nif++
			for _, fa := range condLoads(iff.Cond) {
				for _, o := range chainOwners(fa) {
					if content[o] {
						_, fn := ownerField(fa)
						bad = append(bad, fmt.Sprintf("%s: the branch reads %s.%s of the decoded unit", a.ipos(iff), o, fn))
						break
					}
				}
			}
		}
		a.R.Check(len(bad) == 0, rule, bare(pd)+"/delivery-not-filtered-by-content", a.fpos(pd),
			fmt.Sprintf("none of the %d branch conditions reads a field of the decoded PES/PSI structure: a unit that decodes is delivered whatever it contains", nif),
			"whether a decoded unit is delivered depends on its content — "+strings.Join(bad, "; "))
		a.R.Floor(rule, "branch conditions in parseData", nif, 4)
	}
	if td := a.anchor(rule, "PSIData.toData"); td != nil {
		var bad []string
		nif := 0
		for _, b := range td.Blocks {
			iff, ok := b.Instrs[len(b.Instrs)-1].(*ssa.If)
			if !ok {
				continue
			}
			nif++
			for _, fa := range condLoads(iff.Cond) {
				o, fn := ownerField(fa)
				switch {
				case o == "PSISection" && fn == "Syntax", o == "PSISectionSyntax" && fn == "Data", o == "PSISectionHeader" && fn == "TableID", o == "PSIData" && fn == "Sections":
				default:
					bad = append(bad, fmt.Sprintf("%s: the branch reads %s.%s", a.ipos(iff), o, fn))
				}
			}
		}
		a.R.Check(len(bad) == 0, rule, "toData/every-decoded-section-delivered", a.fpos(td),
			fmt.Sprintf("the %d branch conditions read only Sections, Syntax, Syntax.Data (nil tests) and Header.TableID: every decoded section of a known table type becomes a DemuxerData", nif),
			"whether a decoded section is delivered depends on more than its table id — "+strings.Join(bad, "; "))
		a.R.Floor(rule, "branch conditions in toData", nif, 6)
	}
}

// payloadLenSum: v is a loop-header phi with one constant-0 edge and, on its back edges, v + len(<load of a Payload field>).
func payloadLenSum(v ssa.Value) (bool, string) {
	for {
		if c, ok := v.(*ssa.Convert); ok {
			v = c.X
			continue
		}
		break
	}
	phi, ok := v.(*ssa.Phi)
	if !ok {
		return false, "it is " + v.Name() + " = " + v.String() + ", not a loop accumulator"
	}
	zero, adds := 0, 0
	for i, e := range phi.Edges {
		back := phi.Block().Dominates(phi.Block().Preds[i])
		if k, isC := ssau.ConstInt(e); isC && k == 0 && !back {
			zero++
			continue
		}
		b, isB := e.(*ssa.BinOp)
		if !back || !isB || b.Op != token.ADD {
			return false, "an incoming value is neither 0 nor accumulator + len(payload)"
		}
		other := b.Y
		if b.Y == ssa.Value(phi) {
			other = b.X
		} else if b.X != ssa.Value(phi) {
			return false, "the back edge does not add to the accumulator itself"
		}
		call, isCall := other.(*ssa.Call)
		if !isCall {
			return false, "the added value is not len(…)"
		}
		if bi, isBuiltin := call.Call.Value.(*ssa.Builtin); !isBuiltin || bi.Name() != "len" || len(call.Call.Args) != 1 {
			return false, "the added value is not len(…)"
		}
		ld, isLoad := call.Call.Args[0].(*ssa.UnOp)
		if !isLoad || ld.Op != token.MUL {
			return false, "len is not taken of a loaded Payload field"
		}
		if n, okf := ssau.FieldName(ld.X); !okf || n != "Payload" {
			return false, "len is not taken of a Payload field"
		}
		adds++
	}
	if zero == 0 || adds == 0 {
		return false, "the accumulator does not start at 0 or never adds a payload length"
	}
	return true, ""
}

// freshAtEveryCallSite: v is a parameter of an unexported function that is only ever called (never used as a value), and at
// every call site the argument is an object under construction in the caller (or, one level up, in the caller's callers):
// a helper that fills in part of the object its caller is building.
func (a *A) freshAtEveryCallSite(f *ssa.Function, v ssa.Value, depth int) bool {
	par, ok := v.(*ssa.Parameter)
	if !ok || depth > 2 || token.IsExported(f.Name()) || f.Parent() != nil {
		return false
	}
	idx := -1
	for i, p := range f.Params {
		if p == par {
			idx = i
		}
	}
	if idx < 0 {
		return false
	}
	sites, other := a.callSites(f)
	if len(other) > 0 || len(sites) == 0 {
		return false
	}
	for _, s := range sites {
		args := s.In.Common().Args
		if idx >= len(args) {
			return false
		}
		if !freshObject(s.Fn, args[idx], 0) && !a.freshAtEveryCallSite(s.Fn, args[idx], depth+1) {
			return false
		}
	}
	return true
}
