// Command astverif decides the go-astits properties by static analysis of /repo's current tree.
package main

import (
	"flag"
	"fmt"
	"os"
	"runtime/pprof"
	"sort"

	"astverif/props"
)

func main() {
	if len(os.Args) < 2 {
		usage()
	}
	if pf := os.Getenv("ASTVERIF_CPUPROFILE"); pf != "" {
		if f, err := os.Create(pf); err == nil {
			_ = pprof.StartCPUProfile(f)
			defer pprof.StopCPUProfile()
		}
	}
	switch os.Args[1] {
	case "check":
		fs := flag.NewFlagSet("check", flag.ExitOnError)
		prop := fs.String("prop", "", "property id (C01..C20)")
		tier := fs.String("tier", "", "quick|thorough (default: $VERIF_TIER or quick)")
		only := fs.String("only", "", "print only obligations whose key contains this string (replay)")
		_ = fs.Parse(os.Args[2:])
		t := *tier
		if t == "" {
			t = os.Getenv("VERIF_TIER")
		}
		if t != "thorough" {
			t = "quick"
		}
		os.Exit(props.Run(*prop, t, *only))
	case "selftest":
		fs := flag.NewFlagSet("selftest", flag.ExitOnError)
		prop := fs.String("prop", "", "property id (default all)")
		_ = fs.Parse(os.Args[2:])
		res := props.SelfTest(*prop, true)
		fmt.Printf("selftest: applied=%d detected=%d missed=%d skipped=%d false_alarms=%d\n", res.Applied, res.Detected, len(res.Missed), len(res.Skipped), len(res.FalseFire))
		if len(res.Missed) > 0 || len(res.FalseFire) > 0 {
			os.Exit(1)
		}
	case "summary":
		props.DebugSummary(os.Args[2:])
	case "compose":
		if len(os.Args) < 5 {
			usage()
		}
		props.DebugCompose(os.Args[2], os.Args[3], os.Args[4], len(os.Args) > 5 && os.Args[5] == "ptr")
	case "list":
		ids := props.IDs()
		sort.Strings(ids)
		for _, id := range ids {
			fmt.Println(id)
		}
	case "explain":
		if len(os.Args) < 3 {
			usage()
		}
		b, err := os.ReadFile(os.Args[2])
		if err != nil {
			fmt.Fprintln(os.Stderr, err)
			os.Exit(2)
		}
		os.Stdout.Write(b)
		fmt.Println()
	default:
		usage()
	}
}

func usage() {
	fmt.Fprintln(os.Stderr, "usage: astverif check -prop C11 [-tier quick|thorough] [-only key] | list | explain <violation.json>")
	os.Exit(2)
}
