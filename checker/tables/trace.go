package tables

import (
	"fmt"
	"go/ast"
	"go/token"
	"go/types"

	"astverif/load"
)

// A tracer decides, for ONE value of a quantified variable, which statements of a dispatcher body may be
// reached. The quantified variable is a *types.Var: a parameter/receiver (matched as identifier) or a
// struct field (matched as the selected field of any selector, all of which must have the same base text
// inside the function). Conditions and switch tags that mention the quantified variable must be fully
// evaluable by the Machine (otherwise: unsupported); conditions that do not mention it are opaque and both
// outcomes are followed (may-reach).
type tracer struct {
	p       *load.Program
	m       *Machine
	q       *types.Var
	val     Value
	env     Env // q and the locals derived from it
	reached []ast.Node
}

type tflow uint8

// ordered by how much following code they keep reachable
const (
	tRet tflow = iota
	tCont
	tBrk
	tFall
)

func maxFlow(a, b tflow) tflow {
	if a > b {
		return a
	}
	return b
}

// mentions reports whether n reads the quantified variable (keys of struct literals do not count).
// curDerived: while a function is traced, the locals that are pure functions of the quantified variable — defined once, by
// `x := E` with E mentioning the variable (or an earlier such local), never reassigned, address never taken — with their defining
// expressions, in source order. A use of such a local counts as a use of the variable, and the tracer evaluates it from E.
var curDerived map[types.Object]ast.Expr
var curDerivedOrder []types.Object

// derivedLocals computes curDerived for fd.
func derivedLocals(p *load.Program, q *types.Var, fd *ast.FuncDecl) (map[types.Object]ast.Expr, []types.Object) {
	out := map[types.Object]ast.Expr{}
	var order []types.Object
	writes := map[types.Object]int{}
	addrTaken := map[types.Object]bool{}
	ast.Inspect(fd.Body, func(n ast.Node) bool {
		switch x := n.(type) {
		case *ast.AssignStmt:
			for _, l := range x.Lhs {
				if id, ok := unparen(l).(*ast.Ident); ok {
					if o := p.Info.Defs[id]; o != nil {
						writes[o]++
					} else if o := p.Info.Uses[id]; o != nil {
						writes[o]++
					}
				}
			}
		case *ast.IncDecStmt:
			if id, ok := unparen(x.X).(*ast.Ident); ok {
				writes[p.Info.Uses[id]] += 2
			}
		case *ast.UnaryExpr:
			if id, ok := unparen(x.X).(*ast.Ident); ok && x.Op == token.AND {
				addrTaken[p.Info.Uses[id]] = true
			}
		case *ast.RangeStmt:
			for _, e := range []ast.Expr{x.Key, x.Value} {
				if id, ok := e.(*ast.Ident); ok {
					if o := p.Info.Defs[id]; o != nil {
						writes[o] += 2
					}
				}
			}
		}
		return true
	})
	prev := curDerived
	defer func() { curDerived = prev }()
	curDerived = out
	ast.Inspect(fd.Body, func(n ast.Node) bool {
		a, ok := n.(*ast.AssignStmt)
		if !ok || a.Tok != token.DEFINE || len(a.Lhs) != 1 || len(a.Rhs) != 1 {
			return true
		}
		id, ok := a.Lhs[0].(*ast.Ident)
		if !ok {
			return true
		}
		o := p.Info.Defs[id]
		if o == nil || writes[o] != 1 || addrTaken[o] || !mentions(p, q, a.Rhs[0]) {
			return true
		}
		// only values (integers, booleans, named integer types): a copy, not an alias
		switch t := o.Type().Underlying().(type) {
		case *types.Basic:
			if t.Info()&(types.IsInteger|types.IsBoolean) == 0 {
				return true
			}
		default:
			return true
		}
		// a plain call of a non-predicate function (a length, a parsed object) is not a function of q alone
		if c, isCall := unparen(a.Rhs[0]).(*ast.CallExpr); isCall {
			if tv, okT := p.Info.Types[c.Fun]; !(okT && tv.IsType()) && !boolTyped(p, a.Rhs[0]) {
				return true
			}
		}
		out[o] = a.Rhs[0]
		order = append(order, o)
		return true
	})
	return out, order
}

func mentions(p *load.Program, q *types.Var, n ast.Node) bool {
	if n == nil {
		return false
	}
	found := false
	var visit func(n ast.Node) bool
	visit = func(n ast.Node) bool {
		if found || n == nil {
			return false
		}
		switch x := n.(type) {
		case *ast.CompositeLit:
			if x.Type != nil {
				ast.Inspect(x.Type, visit)
			}
			for _, el := range x.Elts {
				if kv, ok := el.(*ast.KeyValueExpr); ok {
					if _, isIdent := kv.Key.(*ast.Ident); !isIdent {
						ast.Inspect(kv.Key, visit)
					}
					ast.Inspect(kv.Value, visit)
				} else {
					ast.Inspect(el, visit)
				}
			}
			return false
		case *ast.Ident:
			if p.Info.Uses[x] == q {
				found = true
			} else if o := p.Info.Uses[x]; o != nil && curDerived[o] != nil {
				found = true
			}
		}
		return true
	}
	ast.Inspect(n, visit)
	return found
}

// checkQuantUse verifies the preconditions of tracing fd over q: q is never assigned inside fd, all reads of
// a field-q use the same base expression, and q does not flow into a local variable by direct assignment.
func checkQuantUse(p *load.Program, q *types.Var, fd *ast.FuncDecl) error {
	return checkQuantUseDef(p, q, fd, false)
}

// ifInitFlag recognises `if x = E; C { … }` / `if x := E; C { … }` where E is a boolean expression that mentions the quantified
// variable and x is a boolean variable: it returns x and E. The tracer evaluates C with x bound to the value of E.
func ifInitFlag(p *load.Program, q *types.Var, s *ast.IfStmt) (types.Object, ast.Expr) {
	a, ok := s.Init.(*ast.AssignStmt)
	if !ok || len(a.Lhs) != 1 || len(a.Rhs) != 1 || (a.Tok != token.ASSIGN && a.Tok != token.DEFINE) {
		return nil, nil
	}
	id, ok := unparen(a.Lhs[0]).(*ast.Ident)
	if !ok || !mentions(p, q, a.Rhs[0]) || !boolTyped(p, a.Rhs[0]) {
		return nil, nil
	}
	obj := p.Info.Defs[id]
	if obj == nil {
		obj = p.Info.Uses[id]
	}
	if obj == nil {
		return nil, nil
	}
	return obj, a.Rhs[0]
}

// flagReadOnlyIn: the variable x is read nowhere in body except inside cond (assignments to it do not count). A flag that is read
// elsewhere would make a later branch on it opaque, and an opaque branch over-approximates what an id reaches.
func flagReadOnlyIn(p *load.Program, x types.Object, body *ast.BlockStmt, cond ast.Expr) bool {
	ok := true
	var lhs = map[*ast.Ident]bool{}
	ast.Inspect(body, func(n ast.Node) bool {
		if a, isA := n.(*ast.AssignStmt); isA {
			for _, l := range a.Lhs {
				if id, isID := unparen(l).(*ast.Ident); isID {
					lhs[id] = true
				}
			}
		}
		return true
	})
	ast.Inspect(body, func(n ast.Node) bool {
		if n == ast.Node(cond) {
			return false
		}
		if id, isID := n.(*ast.Ident); isID && !lhs[id] && (p.Info.Uses[id] == x || p.Info.Defs[id] == x) && p.Info.Defs[id] == nil {
			ok = false
		}
		return true
	})
	return ok
}

// checkQuantUseDef is checkQuantUse; with allowDef the function may also DEFINE the quantified variable: one assignment, a statement
// of the function body itself (not nested in any branch), with no mention of the variable in the statements before it. Tracing with
// q = id then describes exactly the executions in which that assignment stored id.
func checkQuantUseDef(p *load.Program, q *types.Var, fd *ast.FuncDecl, allowDef bool) error {
	var err error
	base := ""
	var def *ast.AssignStmt
	derived, _ := derivedLocals(p, q, fd)
	prevD := curDerived
	curDerived = derived
	defer func() { curDerived = prevD }()
	// `if x = E(q); C(x)`: the flag is evaluated by the tracer, provided it is read nowhere else
	flagInit := map[*ast.AssignStmt]bool{}
	ast.Inspect(fd.Body, func(n ast.Node) bool {
		if is, ok := n.(*ast.IfStmt); ok {
			if x, _ := ifInitFlag(p, q, is); x != nil && flagReadOnlyIn(p, x, fd.Body, is.Cond) {
				flagInit[is.Init.(*ast.AssignStmt)] = true
			}
		}
		return true
	})
	if allowDef {
		ndef := 0
		ast.Inspect(fd.Body, func(n ast.Node) bool {
			if a, ok := n.(*ast.AssignStmt); ok {
				for _, l := range a.Lhs {
					switch x := unparen(l).(type) {
					case *ast.Ident:
						if p.Info.Uses[x] == q {
							ndef++
						}
					case *ast.SelectorExpr:
						if p.Info.Uses[x.Sel] == q {
							ndef++
						}
					}
				}
			}
			return true
		})
		if ndef == 1 {
			for i, s := range fd.Body.List {
				a, ok := s.(*ast.AssignStmt)
				if !ok || len(a.Lhs) != 1 || len(a.Rhs) != 1 || mentions(p, q, a.Rhs[0]) {
					continue
				}
				isDef := false
				switch x := unparen(a.Lhs[0]).(type) {
				case *ast.Ident:
					isDef = p.Info.Uses[x] == q
				case *ast.SelectorExpr:
					isDef = p.Info.Uses[x.Sel] == q
				}
				if !isDef {
					continue
				}
				clean := true
				for _, prev := range fd.Body.List[:i] {
					if mentions(p, q, prev) {
						clean = false
					}
				}
				if clean {
					def = a
				}
			}
		}
	}
	bad := func(n ast.Node, format string, a ...interface{}) {
		if err == nil {
			err = &Unsupported{Pos: n.Pos(), What: fmt.Sprintf(format, a...) + " at " + p.Pos(n.Pos())}
		}
	}
	isQ := func(e ast.Expr) bool {
		switch x := unparen(e).(type) {
		case *ast.Ident:
			return p.Info.Uses[x] == q
		case *ast.SelectorExpr:
			return p.Info.Uses[x.Sel] == q
		}
		return false
	}
	ast.Inspect(fd.Body, func(n ast.Node) bool {
		switch x := n.(type) {
		case *ast.SelectorExpr:
			if p.Info.Uses[x.Sel] == q {
				b := types.ExprString(x.X)
				if base == "" {
					base = b
				} else if b != base {
					bad(x, "quantified field %s read through two different objects (%s and %s)", q.Name(), base, b)
				}
			}
		case *ast.AssignStmt:
			for _, l := range x.Lhs {
				if isQ(l) && x != def {
					bad(x, "quantified variable %s is assigned inside %s", q.Name(), fd.Name.Name)
				}
			}
			for _, rhs := range x.Rhs {
				if mentions(p, q, rhs) && !flagInit[x] {
					for _, l := range x.Lhs {
						if id, ok := unparen(l).(*ast.Ident); ok && id.Name != "_" {
							if o := p.Info.Defs[id]; o != nil && derived[o] != nil {
								continue // a local that is a pure function of q: evaluated by the tracer
							}
							if c, isCall := unparen(rhs).(*ast.CallExpr); isCall {
								// a value produced by a real call that takes q as an argument (a length, a parsed
								// object, an error) is not a copy of q; conversions and predicates of q are
								if tv, ok := p.Info.Types[c.Fun]; !(ok && tv.IsType()) && !boolTyped(p, rhs) {
									continue
								}
							}
							bad(x, "quantified variable %s flows into local variable %s (not tracked)", q.Name(), id.Name)
						}
					}
				}
			}
		case *ast.IncDecStmt:
			if isQ(x.X) {
				bad(x, "quantified variable %s is modified inside %s", q.Name(), fd.Name.Name)
			}
		case *ast.UnaryExpr:
			if x.Op == token.AND && isQ(x.X) {
				bad(x, "address of quantified variable %s is taken", q.Name())
			}
		case *ast.ValueSpec:
			for _, v := range x.Values {
				if mentions(p, q, v) {
					bad(x, "quantified variable %s flows into a declared variable (not tracked)", q.Name())
				}
			}
		}
		return true
	})
	return err
}

func boolTyped(p *load.Program, e ast.Expr) bool {
	tv, ok := p.Info.Types[e]
	if !ok || tv.Type == nil {
		return false
	}
	b, ok := tv.Type.Underlying().(*types.Basic)
	return ok && b.Info()&types.IsBoolean != 0
}

// trace returns the nodes (simple statements, evaluated conditions, tags, loop headers) that may be
// reached in fd when the quantified variable has value v.
func trace(p *load.Program, m *Machine, fd *ast.FuncDecl, q *types.Var, v Value) (nodes []ast.Node, err error) {
	defer catch(&err)
	t := &tracer{p: p, m: m, q: q, val: v}
	derived, order := derivedLocals(p, q, fd)
	prevD, prevO := curDerived, curDerivedOrder
	curDerived, curDerivedOrder = derived, order
	defer func() { curDerived, curDerivedOrder = prevD, prevO }()
	t.env = Env{q: v}
	for _, o := range order {
		dv, e := m.Eval(derived[o], t.env)
		if e != nil {
			panic(e)
		}
		t.env[o] = dv
	}
	t.block(fd.Body.List)
	return t.reached, nil
}

func (t *tracer) fail(n ast.Node, format string, a ...interface{}) {
	panic(&Unsupported{Pos: n.Pos(), What: fmt.Sprintf(format, a...) + " at " + t.p.Pos(n.Pos())})
}

func (t *tracer) reach(n ast.Node) {
	if n != nil {
		t.reached = append(t.reached, n)
	}
}

func (t *tracer) has(n ast.Node) bool { return mentions(t.p, t.q, n) }

// mentionsObj: some identifier below n refers to x.
func mentionsObj(p *load.Program, x types.Object, n ast.Node) bool {
	found := false
	ast.Inspect(n, func(m ast.Node) bool {
		if id, ok := m.(*ast.Ident); ok && p.Info.Uses[id] == x {
			found = true
		}
		return !found
	})
	return found
}

func (t *tracer) evalBool(e ast.Expr) bool {
	b, err := t.m.EvalBool(e, t.env)
	if err != nil {
		panic(err)
	}
	return b
}

func (t *tracer) block(list []ast.Stmt) tflow {
	for _, s := range list {
		if f := t.stmt(s); f != tFall {
			return f
		}
	}
	return tFall
}

func (t *tracer) stmt(s ast.Stmt) tflow {
	switch s := s.(type) {
	case nil:
		return tFall
	case *ast.EmptyStmt:
		return tFall
	case *ast.BlockStmt:
		return t.block(s.List)
	case *ast.LabeledStmt:
		return t.stmt(s.Stmt)
	case *ast.ExprStmt, *ast.AssignStmt, *ast.DeclStmt, *ast.IncDecStmt, *ast.GoStmt, *ast.DeferStmt, *ast.SendStmt:
		t.reach(s)
		return tFall
	case *ast.ReturnStmt:
		t.reach(s)
		return tRet
	case *ast.BranchStmt:
		if s.Label != nil {
			t.fail(s, "labelled %s is not supported", s.Tok)
		}
		switch s.Tok {
		case token.BREAK:
			return tBrk
		case token.CONTINUE:
			return tCont
		}
		t.fail(s, "%s is not supported", s.Tok)
	case *ast.IfStmt:
		t.reach(s.Init)
		t.reach(s.Cond)
		if x, e := ifInitFlag(t.p, t.q, s); x != nil && !t.has(s.Cond) && mentionsObj(t.p, x, s.Cond) {
			// the condition reads a flag computed from the quantified variable in the init statement
			v, err := t.m.Eval(e, t.env)
			if err != nil {
				panic(err)
			}
			env2 := Env{}
			for k, ev := range t.env {
				env2[k] = ev
			}
			env2[x] = v
			b, err := t.m.EvalBool(s.Cond, env2)
			if err != nil {
				panic(err)
			}
			if b {
				return t.block(s.Body.List)
			}
			return t.stmt(s.Else)
		}
		if t.has(s.Cond) {
			if t.evalBool(s.Cond) {
				return t.block(s.Body.List)
			}
			return t.stmt(s.Else) // nil => falls through
		}
		f1 := t.block(s.Body.List)
		f2 := tFall
		if s.Else != nil {
			f2 = t.stmt(s.Else)
		}
		return maxFlow(f1, f2)
	case *ast.ForStmt:
		t.reach(s.Init)
		if s.Cond != nil {
			if t.has(s.Cond) {
				t.fail(s.Cond, "loop condition depends on the quantified variable")
			}
			t.reach(s.Cond)
		}
		t.reach(s.Post)
		t.block(s.Body.List)
		return tFall
	case *ast.RangeStmt:
		if t.has(s.X) {
			t.fail(s.X, "range expression depends on the quantified variable")
		}
		t.reach(s.X)
		t.block(s.Body.List)
		return tFall
	case *ast.SwitchStmt:
		return t.switchStmt(s)
	case *ast.TypeSwitchStmt:
		if t.has(s.Assign) || t.has(s.Init) {
			t.fail(s, "type switch on the quantified variable")
		}
		t.reach(s.Init)
		t.reach(s.Assign)
		return t.opaqueClauses(s.Body.List)
	case *ast.SelectStmt:
		out := tRet
		for _, c := range s.Body.List {
			cc := c.(*ast.CommClause)
			t.reach(cc.Comm)
			f := t.block(cc.Body)
			if f == tBrk {
				f = tFall
			}
			out = maxFlow(out, f)
		}
		return out
	}
	t.fail(s, "statement form %T is not supported by the dispatcher tracer", s)
	return tFall
}

func (t *tracer) opaqueClauses(list []ast.Stmt) tflow {
	out := tRet
	hasDefault := false
	for _, c := range list {
		cc := c.(*ast.CaseClause)
		if cc.List == nil {
			hasDefault = true
		}
		for _, e := range cc.List {
			if t.has(e) {
				t.fail(e, "case expression depends on the quantified variable but the switch tag does not")
			}
			t.reach(e)
		}
		f := t.clauseBody(cc)
		out = maxFlow(out, f)
	}
	if !hasDefault {
		out = tFall
	}
	return out
}

func (t *tracer) clauseBody(cc *ast.CaseClause) tflow {
	for _, st := range cc.Body {
		if b, ok := st.(*ast.BranchStmt); ok && b.Tok == token.FALLTHROUGH {
			t.fail(b, "fallthrough is not supported")
		}
	}
	f := t.block(cc.Body)
	if f == tBrk {
		f = tFall
	}
	return f
}

// definesDerived: st is the defining assignment of a local that is a pure function of the quantified variable.
func definesDerived(p *load.Program, st ast.Stmt) bool {
	a, ok := st.(*ast.AssignStmt)
	if !ok || len(a.Lhs) != 1 {
		return false
	}
	id, ok := a.Lhs[0].(*ast.Ident)
	return ok && p.Info.Defs[id] != nil && curDerived[p.Info.Defs[id]] != nil
}

func (t *tracer) switchStmt(s *ast.SwitchStmt) tflow {
	t.reach(s.Init)
	if s.Init != nil && t.has(s.Init) && !definesDerived(t.p, s.Init) {
		t.fail(s.Init, "switch init depends on the quantified variable")
	}
	env := Env{}
	for k, ev := range t.env {
		env[k] = ev
	}
	if s.Tag != nil {
		t.reach(s.Tag)
		if !t.has(s.Tag) {
			return t.opaqueClauses(s.Body.List)
		}
		tag, err := t.m.Eval(s.Tag, env)
		if err != nil {
			panic(err)
		}
		var chosen, dflt *ast.CaseClause
	outer:
		for _, c := range s.Body.List {
			cc := c.(*ast.CaseClause)
			if cc.List == nil {
				dflt = cc
				continue
			}
			for _, e := range cc.List {
				v, err := t.m.Eval(e, env)
				if err != nil {
					panic(err)
				}
				eq, err := t.m.Equal(e, tag, v)
				if err != nil {
					panic(err)
				}
				if eq {
					chosen = cc
					break outer
				}
			}
		}
		if chosen == nil {
			chosen = dflt
		}
		if chosen == nil {
			return tFall
		}
		return t.clauseBody(chosen)
	}
	// tagless switch: clauses in order; decided conditions select, opaque ones may be taken
	out := tRet
	sawOpaque := false
	var dflt *ast.CaseClause
	for _, c := range s.Body.List {
		cc := c.(*ast.CaseClause)
		if cc.List == nil {
			dflt = cc
			continue
		}
		decidedTrue := false
		opaque := false
		for _, e := range cc.List {
			t.reach(e)
			if t.has(e) {
				if t.evalBool(e) {
					decidedTrue = true
					break
				}
			} else {
				opaque = true
			}
		}
		if decidedTrue {
			f := t.clauseBody(cc)
			if !sawOpaque {
				return f
			}
			return maxFlow(out, f)
		}
		if opaque {
			sawOpaque = true
			out = maxFlow(out, t.clauseBody(cc))
		}
	}
	if dflt != nil {
		f := t.clauseBody(dflt)
		if !sawOpaque {
			return f
		}
		return maxFlow(out, f)
	}
	return tFall
}

// ---------------------------------------------------------------------------------------------
// helpers over reached nodes

// calleeOf resolves the statically called function of a call expression (nil for builtins, conversions,
// function values).
func calleeOf(p *load.Program, c *ast.CallExpr) *types.Func {
	switch f := unparen(c.Fun).(type) {
	case *ast.Ident:
		fn, _ := p.Info.Uses[f].(*types.Func)
		return fn
	case *ast.SelectorExpr:
		fn, _ := p.Info.Uses[f.Sel].(*types.Func)
		return fn
	}
	return nil
}

// reachedCalls lists the call expressions inside the reached nodes.
func reachedCalls(nodes []ast.Node) []*ast.CallExpr {
	var out []*ast.CallExpr
	for _, n := range nodes {
		ast.Inspect(n, func(x ast.Node) bool {
			if c, ok := x.(*ast.CallExpr); ok {
				out = append(out, c)
			}
			return true
		})
	}
	return out
}

// fieldOf returns the struct field selected by e (nil if e is not a field selection).
func fieldOf(p *load.Program, e ast.Expr) *types.Var {
	s, ok := unparen(e).(*ast.SelectorExpr)
	if !ok {
		return nil
	}
	v, ok := p.Info.Uses[s.Sel].(*types.Var)
	if !ok || !v.IsField() {
		return nil
	}
	return v
}

// structField looks up a field of a named struct type of the root package.
func structField(p *load.Program, typeName, field string) *types.Var {
	obj := p.Types.Scope().Lookup(typeName)
	if obj == nil {
		return nil
	}
	st, ok := obj.Type().Underlying().(*types.Struct)
	if !ok {
		return nil
	}
	for i := 0; i < st.NumFields(); i++ {
		if st.Field(i).Name() == field {
			return st.Field(i)
		}
	}
	return nil
}

// ownerOf returns the name of the named struct type declaring field f ("" if not found in the root package).
func ownerOf(p *load.Program, f *types.Var) string {
	sc := p.Types.Scope()
	for _, n := range sc.Names() {
		tn, ok := sc.Lookup(n).(*types.TypeName)
		if !ok {
			continue
		}
		st, ok := tn.Type().Underlying().(*types.Struct)
		if !ok {
			continue
		}
		for i := 0; i < st.NumFields(); i++ {
			if st.Field(i) == f {
				return n
			}
		}
	}
	return ""
}

func lookupFunc(p *load.Program, name string) *types.Func {
	fn, _ := p.Types.Scope().Lookup(name).(*types.Func)
	return fn
}

func lookupMethod(p *load.Program, typeName, method string) *types.Func {
	obj := p.Types.Scope().Lookup(typeName)
	if obj == nil {
		return nil
	}
	named, ok := obj.Type().(*types.Named)
	if !ok {
		return nil
	}
	for i := 0; i < named.NumMethods(); i++ {
		if named.Method(i).Name() == method {
			return named.Method(i)
		}
	}
	return nil
}

// paramVar returns the i-th declared parameter variable of fd.
func paramVar(p *load.Program, fd *ast.FuncDecl, i int) *types.Var {
	k := 0
	for _, f := range fd.Type.Params.List {
		if len(f.Names) == 0 {
			k++
			continue
		}
		for _, nm := range f.Names {
			if k == i {
				v, _ := p.Info.Defs[nm].(*types.Var)
				return v
			}
			k++
		}
	}
	return nil
}
