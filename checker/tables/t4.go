package tables

import (
	"fmt"
	"go/ast"
	"go/constant"
	"go/types"
	"sort"
	"strings"

	"astverif/load"
	"astverif/report"
)

const ruleT4 = "T4"

// WrapCounter interprets newWrappingCounter and (*wrappingCounter).inc as a tiny abstract machine over
// ints (fields value, wrapAt of the receiver) and checks the wrap rule for the constructed wrapAt values.
func WrapCounter(p *load.Program, r *report.Report) {
	newFn := lookupFunc(p, "newWrappingCounter")
	incFn := lookupMethod(p, "wrappingCounter", "inc")
	valueF := structField(p, "wrappingCounter", "value")
	wrapF := structField(p, "wrappingCounter", "wrapAt")
	if newFn == nil || incFn == nil || valueF == nil || wrapF == nil {
		r.Unknown(ruleT4, "anchor/wrappingCounter", "-", "newWrappingCounter, (*wrappingCounter).inc or the fields value/wrapAt not found")
		return
	}
	ctype := p.Types.Scope().Lookup("wrappingCounter").Type()
	intT := types.Typ[types.Int]
	m := NewMachine(p)
	posNew, posInc := p.Pos(newFn.Pos()), p.Pos(incFn.Pos())

	// which wrapAt values are constructed anywhere in the package
	wraps := map[int64]bool{}
	var nonConst []string
	var firstCall ast.Node
	for _, f := range p.Files {
		if p.IsTestFile(f.Pos()) {
			continue
		}
		ast.Inspect(f, func(n ast.Node) bool {
			c, ok := n.(*ast.CallExpr)
			if !ok || calleeOf(p, c) != newFn || len(c.Args) != 1 {
				return true
			}
			if firstCall == nil {
				firstCall = c
			}
			tv := p.Info.Types[c.Args[0]]
			if tv.Value == nil || tv.Value.Kind() != constant.Int {
				nonConst = append(nonConst, p.Pos(c.Pos()))
				return true
			}
			v, _ := constant.Int64Val(tv.Value)
			wraps[v] = true
			return true
		})
	}
	var ws []string
	extra := false
	for w := range wraps {
		ws = append(ws, fmt.Sprint(w))
		if w != 15 && w != 31 {
			extra = true
		}
	}
	sort.Strings(ws)
	cpos := posNew
	if firstCall != nil {
		cpos = p.Pos(firstCall.Pos())
	}
	if len(nonConst) > 0 {
		r.Unknown(ruleT4, "constructed-wrapAt-values", cpos, "newWrappingCounter called with a non-constant argument at "+strings.Join(nonConst, ","))
	} else {
		r.Check(len(wraps) > 0 && !extra, ruleT4, "constructed-wrapAt-values", cpos,
			"every newWrappingCounter call passes a constant in {15,31}: "+strings.Join(ws, ","), "constructed wrapAt values: "+strings.Join(ws, ",")+" (want a non-empty subset of {15,31})")
	}

	mk := func(v, w int64) Value {
		return Value{K: KStruct, T: ctype, F: map[*types.Var]Value{valueF: IntVal(v, intT), wrapF: IntVal(w, intT)}}
	}
	// inc on state c: returns (result, stored value, stored wrapAt)
	inc := func(c Value) (int64, int64, int64, error) {
		res, err := m.Call(incFn, &c)
		if err != nil {
			return 0, 0, 0, err
		}
		if len(res) != 1 || res[0].K != KInt || c.F[valueF].K != KInt || c.F[wrapF].K != KInt {
			return 0, 0, 0, fmt.Errorf("inc does not yield one int / fields are not ints")
		}
		return res[0].I, c.F[valueF].I, c.F[wrapF].I, nil
	}
	for _, w := range []int64{15, 31} {
		sfx := fmt.Sprintf("/wrapAt=%d", w)
		// constructor + first inc
		res, err := m.Call(newFn, nil, IntVal(w, intT))
		if err != nil || len(res) != 1 || res[0].K != KStruct {
			d := "newWrappingCounter does not yield one struct value"
			if err != nil {
				d = "newWrappingCounter is outside the interpreted language: " + err.Error()
			}
			r.Unknown(ruleT4, "new/first-inc-returns-zero"+sfx, posNew, d)
		} else {
			st := res[0]
			v0, hasV := st.F[valueF]
			w0, hasW := st.F[wrapF]
			if !hasV || !hasW || v0.K != KInt || w0.K != KInt {
				r.Unknown(ruleT4, "new/first-inc-returns-zero"+sfx, posNew, "constructor does not set value and wrapAt to integers")
			} else if out, stored, _, err := inc(st); err != nil {
				r.Unknown(ruleT4, "new/first-inc-returns-zero"+sfx, posInc, "inc is outside the interpreted language: "+err.Error())
			} else {
				r.Check(w0.I == w && out == 0 && stored == 0, ruleT4, "new/first-inc-returns-zero"+sfx, posNew,
					fmt.Sprintf("newWrappingCounter(%d) = {value:%d wrapAt:%d}; the first inc() returns 0", w, v0.I, w0.I),
					fmt.Sprintf("newWrappingCounter(%d) = {value:%d wrapAt:%d}; the first inc() returns %d (stored %d), want 0", w, v0.I, w0.I, out, stored))
			}
		}
		// successor table and range
		var badSucc, badRange []string
		undecided := ""
		for v := int64(0); v <= w+1 && undecided == ""; v++ {
			out, stored, wrapAfter, err := inc(mk(v, w))
			if err != nil {
				undecided = err.Error()
				break
			}
			if stored < 0 || stored > w || out < 0 || out > w {
				badRange = append(badRange, fmt.Sprintf("value=%d: inc() returns %d, stores %d", v, out, stored))
			}
			if v <= w {
				if want := (v + 1) % (w + 1); out != want || stored != out || wrapAfter != w {
					badSucc = append(badSucc, fmt.Sprintf("value=%d: inc() returns %d (stored %d, wrapAt %d), want %d", v, out, stored, wrapAfter, want))
				}
			}
		}
		if undecided != "" {
			r.Unknown(ruleT4, "inc/successor-mod"+sfx, posInc, "inc is outside the interpreted language: "+undecided)
			r.Unknown(ruleT4, "inc/stays-in-range"+sfx, posInc, "inc is outside the interpreted language: "+undecided)
			continue
		}
		r.Check(len(badSucc) == 0, ruleT4, "inc/successor-mod"+sfx, posInc,
			fmt.Sprintf("for every value v in 0..%d inc() returns and stores (v+1) mod %d and leaves wrapAt alone (%d states interpreted)", w, w+1, w+1),
			strings.Join(dedup(badSucc), "; "))
		r.Check(len(badRange) == 0, ruleT4, "inc/stays-in-range"+sfx, posInc,
			fmt.Sprintf("from every state 0..%d (incl. the initial %d) the result and the stored value lie in [0,%d]", w+1, w+1, w),
			strings.Join(dedup(badRange), "; "))
	}
	r.Count("t4_states_interpreted", 17+33)
}
