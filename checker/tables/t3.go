package tables

import (
	"fmt"
	"go/ast"
	"go/constant"
	"go/token"
	"go/types"
	"strings"

	"astverif/load"
	"astverif/report"
)

const ruleT3 = "T3"

// atoms of the continuity formulas
const (
	aAF = iota // p.Header.HasAdaptationField
	aDI        // p.AdaptationField.DiscontinuityIndicator
	aL         // len(ps) > 0
	aP         // p.Header.HasPayload
	aE0        // cc(p) == cc(prev)
	aE1        // cc(p) == (cc(prev)+1) % 16
	nAtoms
)

var atomNames = [nAtoms]string{"AF", "DI", "L", "P", "E0", "E1"}

// form is a boolean formula over the atoms.
type form struct {
	op      byte // 'a' atom, 'c' constant, '!' not, '&' and, '|' or, '?' if-then-else
	atom    int
	val     bool
	x, y, z *form
}

func (f *form) String() string {
	switch f.op {
	case 'a':
		return atomNames[f.atom]
	case 'c':
		return fmt.Sprint(f.val)
	case '!':
		return "¬" + f.x.String()
	case '&':
		return "(" + f.x.String() + " ∧ " + f.y.String() + ")"
	case '|':
		return "(" + f.x.String() + " ∨ " + f.y.String() + ")"
	case '?':
		return "ite(" + f.x.String() + "," + f.y.String() + "," + f.z.String() + ")"
	}
	return "?"
}

func (f *form) uses(atom int) bool {
	if f == nil {
		return false
	}
	if f.op == 'a' {
		return f.atom == atom
	}
	return f.x.uses(atom) || f.y.uses(atom) || f.z.uses(atom)
}

type valuation [nAtoms]bool

func (v valuation) String() string {
	var parts []string
	for i, b := range v {
		if b {
			parts = append(parts, atomNames[i])
		} else {
			parts = append(parts, "¬"+atomNames[i])
		}
	}
	return strings.Join(parts, " ")
}

// eval evaluates with Go's short-circuit order and records which atoms were actually read.
func (f *form) eval(v valuation, touched *[nAtoms]bool) bool {
	switch f.op {
	case 'a':
		touched[f.atom] = true
		return v[f.atom]
	case 'c':
		return f.val
	case '!':
		return !f.x.eval(v, touched)
	case '&':
		return f.x.eval(v, touched) && f.y.eval(v, touched)
	case '|':
		return f.x.eval(v, touched) || f.y.eval(v, touched)
	case '?':
		if f.x.eval(v, touched) {
			return f.y.eval(v, touched)
		}
		return f.z.eval(v, touched)
	}
	return false
}

// valuations enumerates the 2^6 valuations that satisfy the arithmetic axiom ¬(E0 ∧ E1).
func valuations() []valuation {
	var out []valuation
	for bits := 0; bits < 1<<nAtoms; bits++ {
		var v valuation
		for i := 0; i < nAtoms; i++ {
			v[i] = bits>>uint(i)&1 == 1
		}
		if v[aE0] && v[aE1] {
			continue
		}
		out = append(out, v)
	}
	return out
}

// eOcc is an occurrence of a counter comparison in the source.
type eOcc struct {
	expr    *ast.BinaryExpr
	atom    int  // aE0 or aE1
	negated bool // written with !=
	fn      string
}

// extractor turns the body of one predicate into a formula.
type extractor struct {
	p       *load.Program
	fd      *ast.FuncDecl
	ps, pk  *types.Var
	bind    map[types.Object]ast.Expr
	occ     []eOcc
	helpers map[*types.Func]bool
	fields  struct {
		header, af, hasAF, di, hasPayload, cc *types.Var
	}
}

func (x *extractor) fail(n ast.Node, format string, a ...interface{}) {
	panic(&Unsupported{Pos: n.Pos(), What: fmt.Sprintf(format, a...) + " at " + x.p.Pos(n.Pos())})
}

func newExtractor(p *load.Program, fd *ast.FuncDecl) (*extractor, error) {
	x := &extractor{p: p, fd: fd, bind: map[types.Object]ast.Expr{}}
	x.ps, x.pk = paramVar(p, fd, 0), paramVar(p, fd, 1)
	if x.ps == nil || x.pk == nil {
		return nil, fmt.Errorf("%s does not have the parameters (ps, p)", fd.Name.Name)
	}
	if sl, ok := x.ps.Type().(*types.Slice); !ok || namedTypeName(sl.Elem()) != "Packet" {
		return nil, fmt.Errorf("first parameter of %s is not []*Packet", fd.Name.Name)
	}
	if namedTypeName(x.pk.Type()) != "Packet" {
		return nil, fmt.Errorf("second parameter of %s is not *Packet", fd.Name.Name)
	}
	x.fields.header = structField(p, "Packet", "Header")
	x.fields.af = structField(p, "Packet", "AdaptationField")
	x.fields.hasAF = structField(p, "PacketHeader", "HasAdaptationField")
	x.fields.hasPayload = structField(p, "PacketHeader", "HasPayload")
	x.fields.cc = structField(p, "PacketHeader", "ContinuityCounter")
	x.fields.di = structField(p, "PacketAdaptationField", "DiscontinuityIndicator")
	if x.fields.header == nil || x.fields.af == nil || x.fields.hasAF == nil || x.fields.hasPayload == nil || x.fields.cc == nil || x.fields.di == nil {
		return nil, fmt.Errorf("packet header fields not found")
	}
	return x, nil
}

func (x *extractor) resolve(e ast.Expr) ast.Expr {
	for i := 0; i < 8; i++ {
		e = unparen(e)
		id, ok := e.(*ast.Ident)
		if !ok {
			return e
		}
		b, ok := x.bind[x.p.Info.Uses[id]]
		if !ok {
			return e
		}
		e = b
	}
	return e
}

func (x *extractor) isVar(e ast.Expr, v *types.Var) bool {
	id, ok := x.resolve(e).(*ast.Ident)
	return ok && x.p.Info.Uses[id] == v
}

func (x *extractor) isLenPs(e ast.Expr) bool {
	c, ok := x.resolve(e).(*ast.CallExpr)
	return ok && isBuiltinCall(x.p, c, "len") && len(c.Args) == 1 && x.isVar(c.Args[0], x.ps)
}

func (x *extractor) constInt(e ast.Expr) (int64, bool) {
	tv, ok := x.p.Info.Types[e]
	if !ok || tv.Value == nil || tv.Value.Kind() != constant.Int {
		return 0, false
	}
	return constant.Int64Val(tv.Value)
}

// isPrev: ps[len(ps)-1]
func (x *extractor) isPrev(e ast.Expr) bool {
	ix, ok := x.resolve(e).(*ast.IndexExpr)
	if !ok || !x.isVar(ix.X, x.ps) {
		return false
	}
	b, ok := x.resolve(ix.Index).(*ast.BinaryExpr)
	if !ok || b.Op != token.SUB || !x.isLenPs(b.X) {
		return false
	}
	c, ok := x.constInt(b.Y)
	return ok && c == 1
}

func (x *extractor) isP(e ast.Expr) bool { return x.isVar(e, x.pk) }

// chain: base.<f1>.<f2> matched through field objects
func (x *extractor) chain(e ast.Expr, base func(ast.Expr) bool, f1, f2 *types.Var) bool {
	s2, ok := x.resolve(e).(*ast.SelectorExpr)
	if !ok || x.p.Info.Uses[s2.Sel] != f2 {
		return false
	}
	s1, ok := x.resolve(s2.X).(*ast.SelectorExpr)
	if !ok || x.p.Info.Uses[s1.Sel] != f1 {
		return false
	}
	return base(s1.X)
}

func (x *extractor) isCCp(e ast.Expr) bool {
	return x.chain(e, x.isP, x.fields.header, x.fields.cc)
}
func (x *extractor) isCCprev(e ast.Expr) bool {
	return x.chain(e, x.isPrev, x.fields.header, x.fields.cc)
}

// isSucc: (cc(prev)+1) % K  or  (cc(prev)+1) & K — the modulus is verified semantically later
func (x *extractor) isSucc(e ast.Expr) bool {
	b, ok := x.resolve(e).(*ast.BinaryExpr)
	if !ok || (b.Op != token.REM && b.Op != token.AND) {
		return false
	}
	if _, ok := x.constInt(b.Y); !ok {
		return false
	}
	add, ok := x.resolve(b.X).(*ast.BinaryExpr)
	if !ok || add.Op != token.ADD {
		return false
	}
	if c, ok := x.constInt(add.Y); ok && c == 1 && x.isCCprev(add.X) {
		return true
	}
	if c, ok := x.constInt(add.X); ok && c == 1 && x.isCCprev(add.Y) {
		return true
	}
	return false
}

func atom(i int) *form  { return &form{op: 'a', atom: i} }
func not(f *form) *form { return &form{op: '!', x: f} }

func (x *extractor) boolForm(e ast.Expr) *form {
	e = x.resolve(e)
	if tv, ok := x.p.Info.Types[e]; ok && tv.Value != nil && tv.Value.Kind() == constant.Bool {
		return &form{op: 'c', val: constant.BoolVal(tv.Value)}
	}
	switch e := e.(type) {
	case *ast.UnaryExpr:
		if e.Op == token.NOT {
			return not(x.boolForm(e.X))
		}
	case *ast.BinaryExpr:
		switch e.Op {
		case token.LAND:
			return &form{op: '&', x: x.boolForm(e.X), y: x.boolForm(e.Y)}
		case token.LOR:
			return &form{op: '|', x: x.boolForm(e.X), y: x.boolForm(e.Y)}
		case token.EQL, token.NEQ, token.LSS, token.LEQ, token.GTR, token.GEQ:
			return x.compareForm(e)
		}
	case *ast.SelectorExpr:
		switch {
		case x.chain(e, x.isP, x.fields.header, x.fields.hasAF):
			return atom(aAF)
		case x.chain(e, x.isP, x.fields.af, x.fields.di):
			return atom(aDI)
		case x.chain(e, x.isP, x.fields.header, x.fields.hasPayload):
			return atom(aP)
		}
	}
	x.fail(e, "unrecognised atom %s in %s", types.ExprString(e), x.fd.Name.Name)
	return nil
}

func flip(op token.Token) token.Token {
	switch op {
	case token.LSS:
		return token.GTR
	case token.LEQ:
		return token.GEQ
	case token.GTR:
		return token.LSS
	case token.GEQ:
		return token.LEQ
	}
	return op
}

func (x *extractor) compareForm(e *ast.BinaryExpr) *form {
	// length tests
	l, r, op := e.X, e.Y, e.Op
	if x.isLenPs(r) {
		l, r, op = r, l, flip(op)
	}
	if x.isLenPs(l) {
		if c, ok := x.constInt(r); ok {
			switch {
			case op == token.GTR && c == 0, op == token.NEQ && c == 0, op == token.GEQ && c == 1:
				return atom(aL)
			case op == token.EQL && c == 0, op == token.LSS && c == 1, op == token.LEQ && c == 0:
				return not(atom(aL))
			}
		}
		x.fail(e, "length test %s is not one of len>0 / len==0", types.ExprString(e))
	}
	// counter comparisons
	if e.Op == token.EQL || e.Op == token.NEQ {
		l, r = e.X, e.Y
		if x.isCCp(r) {
			l, r = r, l
		}
		if x.isCCp(l) {
			a := -1
			switch {
			case x.isCCprev(r):
				a = aE0
			case x.isSucc(r):
				a = aE1
			}
			if a >= 0 {
				x.occ = append(x.occ, eOcc{expr: e, atom: a, negated: e.Op == token.NEQ, fn: x.fd.Name.Name})
				if e.Op == token.NEQ {
					return not(atom(a))
				}
				return atom(a)
			}
		}
	}
	// cc(p) compared with the result of a pure package helper that selects the expected counter
	// (`if hasPayload { return (prev.cc+1)%16 }; return prev.cc`): the comparison is distributed over the helper's returns
	if e.Op == token.EQL || e.Op == token.NEQ {
		l, r = e.X, e.Y
		if x.isCCp(r) {
			l, r = r, l
		}
		if x.isCCp(l) {
			if f := x.helperCompare(e, l, r); f != nil {
				return f
			}
		}
	}
	x.fail(e, "unrecognised atom %s in %s", types.ExprString(e), x.fd.Name.Name)
	return nil
}

// helperCompare handles `cc(p) ==/!= h(args…)` where h is a package-level function without receiver whose body is a
// chain of local definitions, ifs and single-value returns. The parameters are bound to the (call-free) argument
// expressions, the conditions become formulas over the usual atoms and every returned expression must be cc(prev) or
// its successor: the comparison with it is an ordinary counter occurrence, checked semantically like the others.
func (x *extractor) helperCompare(e *ast.BinaryExpr, ccp, other ast.Expr) *form {
	call, ok := x.resolve(other).(*ast.CallExpr)
	if !ok {
		return nil
	}
	id, ok := unparen(call.Fun).(*ast.Ident)
	if !ok {
		return nil
	}
	fn, ok := x.p.Info.Uses[id].(*types.Func)
	if !ok || fn.Pkg() == nil || fn.Type().(*types.Signature).Recv() != nil {
		return nil
	}
	fd := x.p.Decl(fn.Name())
	if fd == nil || fd.Body == nil || x.p.Info.Defs[fd.Name] != types.Object(fn) || fd.Type.Results == nil || len(fd.Type.Results.List) != 1 || len(fd.Type.Results.List[0].Names) != 0 {
		return nil
	}
	if x.helpers == nil {
		x.helpers = map[*types.Func]bool{}
	}
	if x.helpers[fn] {
		x.fail(call, "helper %s is used more than once in %s", fn.Name(), x.fd.Name.Name)
	}
	x.helpers[fn] = true
	for _, a := range call.Args {
		ast.Inspect(a, func(n ast.Node) bool {
			if c, ok := n.(*ast.CallExpr); ok && !isBuiltinCall(x.p, c, "len") {
				x.fail(c, "argument of %s contains a call", fn.Name())
			}
			return true
		})
	}
	var params []types.Object
	for _, f := range fd.Type.Params.List {
		if len(f.Names) == 0 {
			x.fail(fd, "helper %s has an unnamed parameter", fn.Name())
		}
		for _, nm := range f.Names {
			params = append(params, x.p.Info.Defs[nm])
		}
	}
	if len(params) != len(call.Args) || fn.Type().(*types.Signature).Variadic() {
		x.fail(call, "helper %s: arguments do not match parameters", fn.Name())
	}
	x.checkSingleAssignment(fd, params)
	for i, po := range params {
		if po != nil {
			x.bind[po] = call.Args[i]
		}
	}
	var walk func(list []ast.Stmt) *form
	walk = func(list []ast.Stmt) *form {
		for i, s := range list {
			switch s := s.(type) {
			case *ast.EmptyStmt:
				continue
			case *ast.AssignStmt:
				if s.Tok == token.DEFINE && len(s.Lhs) == 1 && len(s.Rhs) == 1 {
					if id, ok := s.Lhs[0].(*ast.Ident); ok {
						if obj := x.p.Info.Defs[id]; obj != nil {
							x.bind[obj] = s.Rhs[0]
							continue
						}
					}
				}
				x.fail(s, "assignment %s is not a single local definition", x.src(s))
			case *ast.ReturnStmt:
				if len(s.Results) != 1 {
					x.fail(s, "return without exactly one result")
				}
				a := -1
				switch {
				case x.isCCprev(s.Results[0]):
					a = aE0
				case x.isSucc(s.Results[0]):
					a = aE1
				}
				if a < 0 {
					x.fail(s, "helper %s returns %s, which is neither cc(prev) nor its successor", fn.Name(), types.ExprString(s.Results[0]))
				}
				cmp := &ast.BinaryExpr{X: ccp, OpPos: e.OpPos, Op: e.Op, Y: s.Results[0]}
				x.occ = append(x.occ, eOcc{expr: cmp, atom: a, negated: e.Op == token.NEQ, fn: x.fd.Name.Name + "→" + fn.Name()})
				if e.Op == token.NEQ {
					return not(atom(a))
				}
				return atom(a)
			case *ast.IfStmt:
				if s.Init != nil {
					x.fail(s, "if with init statement")
				}
				c := x.boolForm(s.Cond)
				rest := list[i+1:]
				thenF := walk(append(append([]ast.Stmt{}, s.Body.List...), rest...))
				var elseF *form
				switch el := s.Else.(type) {
				case nil:
					elseF = walk(rest)
				case *ast.BlockStmt:
					elseF = walk(append(append([]ast.Stmt{}, el.List...), rest...))
				case *ast.IfStmt:
					elseF = walk(append([]ast.Stmt{el}, rest...))
				}
				return &form{op: '?', x: c, y: thenF, z: elseF}
			case *ast.BlockStmt:
				return walk(append(append([]ast.Stmt{}, s.List...), list[i+1:]...))
			default:
				x.fail(s, "statement form %T is not supported in a counter helper", s)
			}
		}
		x.fail(fd, "%s can fall off its end", fn.Name())
		return nil
	}
	return walk(fd.Body.List)
}

// stmts converts a statement list (local bindings, if/return) into a formula.
func (x *extractor) stmts(list []ast.Stmt) *form {
	for i, s := range list {
		switch s := s.(type) {
		case *ast.EmptyStmt:
			continue
		case *ast.AssignStmt:
			if s.Tok == token.DEFINE && len(s.Lhs) == 1 && len(s.Rhs) == 1 {
				if id, ok := s.Lhs[0].(*ast.Ident); ok {
					if obj := x.p.Info.Defs[id]; obj != nil {
						x.bind[obj] = s.Rhs[0]
						continue
					}
				}
			}
			x.fail(s, "assignment %s is not a single local definition", x.src(s))
		case *ast.ReturnStmt:
			if len(s.Results) != 1 {
				x.fail(s, "return without exactly one result")
			}
			return x.boolForm(s.Results[0])
		case *ast.IfStmt:
			if s.Init != nil {
				x.fail(s, "if with init statement")
			}
			c := x.boolForm(s.Cond)
			rest := list[i+1:]
			thenF := x.stmts(append(append([]ast.Stmt{}, s.Body.List...), rest...))
			var elseF *form
			switch el := s.Else.(type) {
			case nil:
				elseF = x.stmts(rest)
			case *ast.BlockStmt:
				elseF = x.stmts(append(append([]ast.Stmt{}, el.List...), rest...))
			case *ast.IfStmt:
				elseF = x.stmts(append([]ast.Stmt{el}, rest...))
			}
			return &form{op: '?', x: c, y: thenF, z: elseF}
		case *ast.BlockStmt:
			return x.stmts(append(append([]ast.Stmt{}, s.List...), list[i+1:]...))
		default:
			x.fail(s, "statement form %T is not supported in a continuity predicate", s)
		}
	}
	x.fail(x.fd, "%s can fall off its end", x.fd.Name.Name)
	return nil
}

func (x *extractor) src(n ast.Node) string {
	if e, ok := n.(ast.Expr); ok {
		return types.ExprString(e)
	}
	return fmt.Sprintf("%T", n)
}

func (x *extractor) extract() (f *form, err error) {
	defer catch(&err)
	x.checkSingleAssignment(x.fd, []types.Object{x.ps, x.pk})
	return x.stmts(x.fd.Body.List), nil
}

// checkSingleAssignment: locals may be bound only once and parameters never assigned
func (x *extractor) checkSingleAssignment(fd *ast.FuncDecl, params []types.Object) {
	defs := map[types.Object]int{}
	ast.Inspect(fd.Body, func(n ast.Node) bool {
		switch s := n.(type) {
		case *ast.AssignStmt:
			for _, l := range s.Lhs {
				if id, ok := unparen(l).(*ast.Ident); ok {
					obj := x.p.Info.Defs[id]
					if obj == nil {
						obj = x.p.Info.Uses[id]
					}
					defs[obj]++
				} else {
					x.fail(s, "assignment to %s inside a continuity predicate", types.ExprString(l))
				}
			}
		case *ast.IncDecStmt:
			x.fail(s, "++/-- inside a continuity predicate")
		case *ast.UnaryExpr:
			if s.Op == token.AND {
				x.fail(s, "address-of inside a continuity predicate")
			}
		case *ast.FuncLit:
			x.fail(s, "function literal inside a continuity predicate")
		}
		return true
	})
	for obj, n := range defs {
		isParam := false
		for _, po := range params {
			if po != nil && obj == po {
				isParam = true
			}
		}
		if n > 1 || isParam {
			x.fail(fd, "variable %s is assigned more than once", obj.Name())
		}
	}
}

// checkAtoms evaluates every counter comparison found in the source over the 16×16 counter pairs with the
// Machine (cc(p) and cc(prev) bound through the expression hook) and compares with the canonical meaning.
func checkAtoms(p *load.Program, r *report.Report, xs []*extractor) {
	m := NewMachine(p)
	type pair struct{ c, q int64 }
	var cur pair
	var hx *extractor
	var u8 types.Type = types.Typ[types.Uint8]
	m.Hook = func(e ast.Expr) (Value, bool) {
		if _, ok := unparen(e).(*ast.SelectorExpr); !ok {
			if _, ok := unparen(e).(*ast.Ident); !ok {
				return Value{}, false
			}
		}
		switch {
		case hx.isCCp(e):
			return IntVal(cur.c, u8), true
		case hx.isCCprev(e):
			return IntVal(cur.q, u8), true
		}
		return Value{}, false
	}
	tables := map[*ast.BinaryExpr][16][16]bool{}
	bad := map[int][]string{}
	count := map[int]int{}
	undecided := false
	for _, x := range xs {
		hx = x
		if x.fields.cc != nil {
			u8 = x.fields.cc.Type()
		}
		for _, o := range x.occ {
			var tab [16][16]bool
			count[o.atom]++
			for c := int64(0); c < 16; c++ {
				for q := int64(0); q < 16; q++ {
					cur = pair{c, q}
					b, err := m.EvalBool(o.expr, nil)
					if err != nil {
						r.Unknown(ruleT3, "atoms/"+atomNames[o.atom]+"-semantics", p.Pos(o.expr.Pos()), "counter comparison outside the interpreted language: "+err.Error())
						undecided = true
						c, q = 16, 16
						continue
					}
					if o.negated {
						b = !b
					}
					tab[c][q] = b
					want := c == q
					if o.atom == aE1 {
						want = c == (q+1)%16
					}
					if b != want && len(bad[o.atom]) < 6 {
						bad[o.atom] = append(bad[o.atom], fmt.Sprintf("%s in %s: cc=%d prev=%d gives %v, want %v", types.ExprString(o.expr), o.fn, c, q, b, want))
					}
				}
			}
			tables[o.expr] = tab
		}
	}
	if undecided {
		return
	}
	for _, a := range []int{aE0, aE1} {
		want := "cc == prev"
		if a == aE1 {
			want = "cc == (prev+1) mod 16"
		}
		pos := "-"
		for _, x := range xs {
			for _, o := range x.occ {
				if o.atom == a && pos == "-" {
					pos = p.Pos(o.expr.Pos())
				}
			}
		}
		r.Check(len(bad[a]) == 0, ruleT3, "atoms/"+atomNames[a]+"-semantics", pos,
			fmt.Sprintf("%d occurrence(s) of %s mean %s on all 16×16 counter pairs", count[a], atomNames[a], want), strings.Join(bad[a], "; "))
	}
	// axiom: no pair satisfies an E0 occurrence and an E1 occurrence together
	var viol []string
	pairs := 0
	for _, x := range xs {
		for _, o0 := range x.occ {
			if o0.atom != aE0 {
				continue
			}
			for _, y := range xs {
				for _, o1 := range y.occ {
					if o1.atom != aE1 {
						continue
					}
					pairs++
					t0, t1 := tables[o0.expr], tables[o1.expr]
					for c := 0; c < 16; c++ {
						for q := 0; q < 16; q++ {
							if t0[c][q] && t1[c][q] && len(viol) < 4 {
								viol = append(viol, fmt.Sprintf("cc=%d prev=%d", c, q))
							}
						}
					}
				}
			}
		}
	}
	note := fmt.Sprintf("no counter pair among 16×16 satisfies both an E0 and an E1 occurrence (%d occurrence pairs evaluated by the interpreter)", pairs)
	if pairs == 0 {
		// no source pair available: the canonical meanings (verified above per occurrence) are exclusive
		for c := 0; c < 16; c++ {
			for q := 0; q < 16; q++ {
				if c == q && c == (q+1)%16 {
					viol = append(viol, fmt.Sprintf("cc=%d prev=%d", c, q))
				}
			}
		}
		note = "c == p and c == (p+1) mod 16 are exclusive on all 16×16 pairs (canonical forms; the source does not contain both atoms)"
	}
	r.Check(len(viol) == 0, ruleT3, "axiom/not-E0-and-E1", "-", note, "E0 and E1 hold together for "+strings.Join(viol, ", "))
}

func forAll(f *form, cond func(v valuation) bool, want func(v valuation) bool) (bool, string) {
	for _, v := range valuations() {
		if !cond(v) {
			continue
		}
		var t [nAtoms]bool
		if got := f.eval(v, &t); got != want(v) {
			return false, fmt.Sprintf("valuation [%s] gives %v", v, got)
		}
	}
	return true, ""
}

// guarded: atom g is read only in valuations where atom by is true
func guarded(f *form, gs []int, by int) (bool, string) {
	for _, v := range valuations() {
		var t [nAtoms]bool
		f.eval(v, &t)
		for _, g := range gs {
			if t[g] && !v[by] {
				return false, fmt.Sprintf("%s is read although %s is false under [%s]", atomNames[g], atomNames[by], v)
			}
		}
	}
	return true, ""
}

// T3 decides the continuity predicates.
func T3(p *load.Program, r *report.Report) {
	get := func(name string) (*form, *extractor, string) {
		fd := p.Decl(name)
		if fd == nil || fd.Body == nil {
			r.Unknown(ruleT3, "anchor/"+name, "-", "function "+name+" not found")
			return nil, nil, "-"
		}
		pos := p.Pos(fd.Pos())
		x, err := newExtractor(p, fd)
		if err != nil {
			r.Unknown(ruleT3, name+"/formula", pos, err.Error())
			return nil, nil, pos
		}
		f, err := x.extract()
		if err != nil {
			r.Unknown(ruleT3, name+"/formula", pos, "formula extraction failed: "+err.Error())
			return nil, nil, pos
		}
		r.OK(ruleT3, name+"/formula", pos, name+" ≡ "+f.String())
		return f, x, pos
	}
	hd, xd, posD := get("hasDiscontinuity")
	same, xs, posS := get("isSameAsPrevious")
	var exs []*extractor
	if xd != nil {
		exs = append(exs, xd)
	}
	if xs != nil {
		exs = append(exs, xs)
	}
	if len(exs) > 0 {
		checkAtoms(p, r, exs)
	}
	adi := func(v valuation) bool { return v[aAF] && v[aDI] }
	if hd != nil {
		// (a)
		var bad []string
		if !hd.uses(aDI) {
			bad = append(bad, "formula does not mention the discontinuity indicator")
		}
		if !hd.uses(aE1) {
			bad = append(bad, "formula does not mention the +1 comparison E1")
		}
		if ok, why := guarded(hd, []int{aDI}, aAF); !ok {
			bad = append(bad, "p.AdaptationField is read without HasAdaptationField: "+why)
		}
		if ok, why := forAll(hd, adi, func(valuation) bool { return true }); !ok {
			bad = append(bad, "AF∧DI does not force a discontinuity: "+why)
		}
		r.Check(len(bad) == 0, ruleT3, "hasDiscontinuity/di-guarded-and-sufficient", posD,
			"DI is read only under AF, E1 occurs, and AF∧DI ⇒ discontinuity on all valuations", strings.Join(bad, "; "))
		// (b)
		ok, why := forAll(hd, func(v valuation) bool { return v[aL] && v[aP] && v[aE1] && !adi(v) }, func(valuation) bool { return false })
		r.Check(ok, ruleT3, "hasDiscontinuity/successor-is-continuous", posD, "L∧P∧E1∧¬(AF∧DI) ⇒ no discontinuity", "the normal +1 case is reported as a discontinuity: "+why)
		ok, why = forAll(hd, func(v valuation) bool { return v[aL] && v[aP] && !v[aE0] && !v[aE1] }, func(valuation) bool { return true })
		r.Check(ok, ruleT3, "hasDiscontinuity/gap-detected", posD, "L∧P∧¬E0∧¬E1 ⇒ discontinuity", "a counter gap is not detected: "+why)
		ok, why = forAll(hd, func(v valuation) bool { return !v[aL] && !adi(v) }, func(valuation) bool { return false })
		r.Check(ok, ruleT3, "hasDiscontinuity/empty-queue-continuous", posD, "¬L∧¬(AF∧DI) ⇒ no discontinuity", "an empty queue reports a discontinuity: "+why)
		ok, why = guarded(hd, []int{aE0, aE1}, aL)
		r.Check(ok, ruleT3, "hasDiscontinuity/prev-read-only-under-L", posD, "ps[len-1] is read only when len(ps) > 0 (short-circuit order respected)", why)
	}
	if same != nil {
		ok, why := forAll(same, func(valuation) bool { return true }, func(v valuation) bool { return v[aL] && v[aP] && v[aE0] })
		r.Check(ok, ruleT3, "isSameAsPrevious/exact", posS, "isSameAsPrevious ≡ L∧P∧E0 on all valuations", "isSameAsPrevious differs from L∧P∧E0: "+why)
		ok, why = guarded(same, []int{aE0, aE1}, aL)
		r.Check(ok, ruleT3, "isSameAsPrevious/prev-read-only-under-L", posS, "ps[len-1] is read only when len(ps) > 0", why)
	}
	checkAdd(p, r, hd, same)
	r.Count("t3_valuations", len(valuations()))
}

// ---------------------------------------------------------------------------------------------
// (*packetAccumulator).add

func containsCall(p *load.Program, n ast.Node, fn *types.Func) *ast.CallExpr {
	var out *ast.CallExpr
	if n == nil || fn == nil {
		return nil
	}
	ast.Inspect(n, func(x ast.Node) bool {
		if c, ok := x.(*ast.CallExpr); ok && calleeOf(p, c) == fn {
			out = c
		}
		return out == nil
	})
	return out
}

func countCalls(p *load.Program, n ast.Node, fn *types.Func) int {
	k := 0
	ast.Inspect(n, func(x ast.Node) bool {
		if c, ok := x.(*ast.CallExpr); ok && calleeOf(p, c) == fn {
			k++
		}
		return true
	})
	return k
}

func checkAdd(p *load.Program, r *report.Report, hd, same *form) {
	const keyD, keyE = "add/duplicate-branch-live", "add/duplicate-returns-without-store"
	fd := p.Decl("packetAccumulator.add")
	if fd == nil || fd.Body == nil {
		r.Unknown(ruleT3, "anchor/packetAccumulator.add", "-", "method (*packetAccumulator).add not found")
		return
	}
	pos := p.Pos(fd.Pos())
	discFn, sameFn := lookupFunc(p, "hasDiscontinuity"), lookupFunc(p, "isSameAsPrevious")
	qField := structField(p, "packetAccumulator", "q")
	pkt := paramVar(p, fd, 0)
	var recv types.Object
	if fd.Recv != nil && len(fd.Recv.List) == 1 && len(fd.Recv.List[0].Names) == 1 {
		recv = p.Info.Defs[fd.Recv.List[0].Names[0]]
	}
	if discFn == nil || sameFn == nil || qField == nil || pkt == nil || recv == nil {
		r.Unknown(ruleT3, keyD, pos, "anchors of add (hasDiscontinuity, isSameAsPrevious, field q, receiver, packet parameter) not found")
		return
	}
	top := fd.Body.List
	discIdx, dupIdx := -1, -1
	var discCall, dupCall *ast.CallExpr
	for i, s := range top {
		is, ok := s.(*ast.IfStmt)
		if !ok {
			continue
		}
		if c := containsCall(p, is.Cond, discFn); c != nil && discIdx < 0 {
			discIdx, discCall = i, c
		}
		if c := containsCall(p, is.Cond, sameFn); c != nil && dupIdx < 0 {
			dupIdx, dupCall = i, c
		}
	}
	if dupIdx < 0 || countCalls(p, fd.Body, sameFn) != 1 {
		r.Unknown(ruleT3, keyD, pos, "add does not test isSameAsPrevious exactly once in a top-level if condition")
		r.Unknown(ruleT3, keyE, pos, "duplicate test not found")
		return
	}
	dupIf := top[dupIdx].(*ast.IfStmt)
	dupPos := p.Pos(dupIf.Pos())

	// --- (e) the duplicate branch returns without storing the queue and without packets ---------
	{
		var bad []string
		if !isBareCallCond(dupIf.Cond, dupCall) {
			bad = append(bad, "the duplicate test is combined with other conditions: "+types.ExprString(dupIf.Cond))
		}
		n := len(dupIf.Body.List)
		if n == 0 {
			bad = append(bad, "empty duplicate branch")
		} else if ret, ok := dupIf.Body.List[n-1].(*ast.ReturnStmt); !ok {
			bad = append(bad, "the duplicate branch does not end in a return")
		} else {
			for _, e := range ret.Results {
				if id, ok := unparen(e).(*ast.Ident); !ok || id.Name != "nil" {
					bad = append(bad, "the duplicate branch returns "+types.ExprString(e))
				}
			}
			if len(ret.Results) == 0 && fd.Type.Results != nil {
				// naked return: the named results must still be untouched
				for _, f := range fd.Type.Results.List {
					for _, nm := range f.Names {
						res := p.Info.Defs[nm]
						for _, s := range top[:dupIdx] {
							if assigns(p, s, func(l ast.Expr) bool {
								id, ok := unparen(l).(*ast.Ident)
								return ok && p.Info.Uses[id] == res
							}) {
								bad = append(bad, "result "+nm.Name+" is assigned before the duplicate test")
							}
						}
						if assigns(p, dupIf.Body, func(l ast.Expr) bool {
							id, ok := unparen(l).(*ast.Ident)
							return ok && p.Info.Uses[id] == res
						}) {
							bad = append(bad, "result "+nm.Name+" is assigned in the duplicate branch")
						}
					}
				}
			}
		}
		if assigns(p, dupIf.Body, func(l ast.Expr) bool { return fieldOf(p, l) == qField }) {
			bad = append(bad, "the duplicate branch assigns b.q")
		}
		for _, s := range top[:dupIdx] {
			if assigns(p, s, func(l ast.Expr) bool { return fieldOf(p, l) == qField }) {
				bad = append(bad, "b.q is assigned before the duplicate test")
			}
		}
		hasDefer := false
		ast.Inspect(fd.Body, func(n ast.Node) bool {
			if _, ok := n.(*ast.DeferStmt); ok {
				hasDefer = true
			}
			return true
		})
		if hasDefer {
			r.Unknown(ruleT3, keyE, dupPos, "add uses defer: stores after the return are not tracked")
		} else {
			r.Check(len(bad) == 0, ruleT3, keyE, dupPos, "a duplicate returns no packets and leaves b.q as it was", strings.Join(bad, "; "))
		}
	}

	// --- (d) liveness ---------------------------------------------------------------------------
	if len(dupCall.Args) != 2 || !isIdentOf(p, dupCall.Args[1], pkt) {
		r.Unknown(ruleT3, keyD, dupPos, "isSameAsPrevious is not called with the arriving packet")
		return
	}
	// queue aliases: v := b.q at top level
	alias := map[types.Object]int{}
	for i, s := range top {
		if as, ok := s.(*ast.AssignStmt); ok && as.Tok == token.DEFINE && len(as.Lhs) == 1 && len(as.Rhs) == 1 {
			if id, ok := as.Lhs[0].(*ast.Ident); ok && isRecvQ(p, as.Rhs[0], recv, qField) {
				alias[p.Info.Defs[id]] = i
			}
		}
	}
	// queueVar classifies an argument: the alias variable (or nil for b.q itself); ok=false otherwise
	queueVar := func(e ast.Expr) (types.Object, int, bool) {
		if isRecvQ(p, e, recv, qField) {
			return nil, -1, true
		}
		if id, ok := unparen(e).(*ast.Ident); ok {
			if i, ok := alias[p.Info.Uses[id]]; ok {
				return p.Info.Uses[id], i, true
			}
		}
		return nil, 0, false
	}
	isQueueLHS := func(v types.Object) func(ast.Expr) bool {
		return func(l ast.Expr) bool {
			if v == nil {
				return fieldOf(p, l) == qField
			}
			id, ok := unparen(l).(*ast.Ident)
			return ok && p.Info.Uses[id] == v
		}
	}
	dv, dfrom, ok := queueVar(dupCall.Args[0])
	if !ok {
		r.Unknown(ruleT3, keyD, dupPos, "queue argument "+types.ExprString(dupCall.Args[0])+" of isSameAsPrevious is neither b.q nor a local copy of it")
		return
	}
	modifiedBefore := false
	for i := dfrom + 1; i < dupIdx; i++ {
		if assigns(p, top[i], isQueueLHS(dv)) || (dv != nil && assigns(p, top[i], func(l ast.Expr) bool { return fieldOf(p, l) == qField })) {
			modifiedBefore = true
		}
	}
	if !modifiedBefore {
		where := "before the discontinuity reset"
		if discIdx >= 0 && discIdx < dupIdx {
			where = "after the discontinuity test but on a queue variable the reset does not touch"
		}
		r.OK(ruleT3, keyD, dupPos, "isSameAsPrevious is evaluated on the unmodified queue "+types.ExprString(dupCall.Args[0])+" ("+where+"): the test dominates every reset, a duplicate is recognised whenever L∧P∧E0")
		return
	}
	// the queue was modified before the duplicate test: only the discontinuity reset may have done it
	if discIdx < 0 || discIdx > dupIdx || countCalls(p, fd.Body, discFn) != 1 {
		r.Unknown(ruleT3, keyD, dupPos, "the queue passed to isSameAsPrevious is modified before the test, but not by a single top-level discontinuity reset")
		return
	}
	discIf := top[discIdx].(*ast.IfStmt)
	if !isBareCallCond(discIf.Cond, discCall) || discIf.Else != nil || len(discCall.Args) != 2 || !isIdentOf(p, discCall.Args[1], pkt) {
		r.Unknown(ruleT3, keyD, dupPos, "the discontinuity test is not of the form `if hasDiscontinuity(queue, p) { reset }`")
		return
	}
	xv, xfrom, ok := queueVar(discCall.Args[0])
	if !ok || xv != dv {
		r.Unknown(ruleT3, keyD, dupPos, "hasDiscontinuity and isSameAsPrevious are applied to different queue expressions")
		return
	}
	for i := xfrom + 1; i < dupIdx; i++ {
		if i != discIdx && assigns(p, top[i], isQueueLHS(dv)) {
			r.Unknown(ruleT3, keyD, dupPos, "the queue is modified outside the discontinuity reset before the duplicate test")
			return
		}
	}
	// every assignment in the reset empties the queue
	emptying := true
	ast.Inspect(discIf.Body, func(n ast.Node) bool {
		as, ok := n.(*ast.AssignStmt)
		if !ok {
			return true
		}
		for i, l := range as.Lhs {
			if !isQueueLHS(dv)(l) {
				continue
			}
			if len(as.Rhs) != len(as.Lhs) || !isEmptySlice(p, as.Rhs[i]) {
				emptying = false
			}
		}
		return true
	})
	if !emptying {
		r.Unknown(ruleT3, keyD, dupPos, "the discontinuity branch modifies the queue other than by emptying it")
		return
	}
	if hd == nil || same == nil {
		r.Unknown(ruleT3, keyD, dupPos, "the duplicate test runs on the possibly reset queue and the continuity formulas could not be extracted")
		return
	}
	// after a reset the queue is empty: isSame must be false there
	if ok, why := forAll(same, func(v valuation) bool { return !v[aL] }, func(valuation) bool { return false }); !ok {
		r.Unknown(ruleT3, keyD, dupPos, "isSameAsPrevious can hold on an empty queue ("+why+"): liveness argument does not apply")
		return
	}
	// live iff isSame ∧ ¬hasDisc is satisfiable under the axiom (then the queue is not reset and the
	// same valuation reaches the duplicate test)
	var witness *valuation
	for _, v := range valuations() {
		var t [nAtoms]bool
		if same.eval(v, &t) && !hd.eval(v, &t) {
			w := v
			witness = &w
			break
		}
	}
	if witness != nil {
		r.OK(ruleT3, keyD, dupPos, fmt.Sprintf("the duplicate test follows the reset but isSame ∧ ¬hasDiscontinuity is satisfiable under ¬(E0∧E1), e.g. [%s] (AF∧DI false): duplicates are not classified as discontinuities", *witness))
		return
	}
	r.Bad(ruleT3, keyD, dupPos, "isSameAsPrevious is evaluated on "+types.ExprString(dupCall.Args[0])+" after `if hasDiscontinuity(…)` may have emptied it, and isSame ∧ ¬hasDiscontinuity is unsatisfiable under ¬(E0∧E1) over all "+
		fmt.Sprint(len(valuations()))+" valuations: every duplicate (E0) is classified as a discontinuity first, the queue is emptied and the duplicate test can never be true: a duplicated packet drops the unit being assembled")
}

func isBareCallCond(cond ast.Expr, c *ast.CallExpr) bool { return unparen(cond) == ast.Expr(c) }

func isIdentOf(p *load.Program, e ast.Expr, v types.Object) bool {
	id, ok := unparen(e).(*ast.Ident)
	return ok && p.Info.Uses[id] == v
}

func isRecvQ(p *load.Program, e ast.Expr, recv types.Object, q *types.Var) bool {
	s, ok := unparen(e).(*ast.SelectorExpr)
	return ok && p.Info.Uses[s.Sel] == q && isIdentOf(p, s.X, recv)
}

// assigns reports whether n contains an assignment (or ++/--) whose target satisfies lhs.
func assigns(p *load.Program, n ast.Node, lhs func(ast.Expr) bool) bool {
	found := false
	ast.Inspect(n, func(x ast.Node) bool {
		switch s := x.(type) {
		case *ast.AssignStmt:
			for _, l := range s.Lhs {
				if lhs(l) {
					found = true
				}
			}
		case *ast.IncDecStmt:
			if lhs(s.X) {
				found = true
			}
		case *ast.RangeStmt:
			if s.Key != nil && lhs(s.Key) || s.Value != nil && lhs(s.Value) {
				found = true
			}
		}
		return !found
	})
	return found
}

// isEmptySlice: x[:0], make(T, 0[, n]) or nil
func isEmptySlice(p *load.Program, e ast.Expr) bool {
	zero := func(e ast.Expr) bool {
		tv, ok := p.Info.Types[e]
		if !ok || tv.Value == nil || tv.Value.Kind() != constant.Int {
			return false
		}
		v, ok := constant.Int64Val(tv.Value)
		return ok && v == 0
	}
	switch x := unparen(e).(type) {
	case *ast.Ident:
		_, isNil := p.Info.Uses[x].(*types.Nil)
		return isNil
	case *ast.SliceExpr:
		return x.Low == nil && x.High != nil && zero(x.High) && !x.Slice3
	case *ast.CallExpr:
		return isBuiltinCall(p, x, "make") && len(x.Args) >= 2 && zero(x.Args[1])
	}
	return false
}
