package tables

import (
	"fmt"
	"go/ast"
	"go/constant"
	"go/token"
	"go/types"
	"sort"
	"strings"

	"astverif/load"
	"astverif/report"
)

const ruleT2 = "T2"

// Triple is the dispatch of one descriptor tag in the three sibling dispatchers.
type Triple struct {
	Tag                int
	Field              string
	Parse, Calc, Write *types.Func
}

// spec: tag constant suffix -> value (EN 300 468 table 12, ISO/IEC 13818-1 table 2-45)
var specTags = map[string]int{
	"AC3": 0x6a, "AVCVideo": 0x28, "Component": 0x50, "Content": 0x54, "DataStreamAlignment": 0x06,
	"EnhancedAC3": 0x7a, "ExtendedEvent": 0x4e, "Extension": 0x7f, "ISO639LanguageAndAudioType": 0x0a,
	"LocalTimeOffset": 0x58, "MaximumBitrate": 0x0e, "NetworkName": 0x40, "ParentalRating": 0x55,
	"PrivateDataIndicator": 0x0f, "PrivateDataSpecifier": 0x5f, "Registration": 0x05, "Service": 0x48,
	"ShortEvent": 0x4d, "StreamIdentifier": 0x52, "Subtitling": 0x59, "Teletext": 0x56, "VBIData": 0x45,
	"VBITeletext": 0x46,
}

// struct family used by a field when it differs from the field name
var specFamily = map[string]string{"VBITeletext": "Teletext"}

// sel is what one dispatcher does for one tag.
type sel struct {
	field  *types.Var
	callee *types.Func
	inline bool // parse side: the field is assigned a composite literal of its own type, written out in the dispatcher
	call   *ast.CallExpr
	argIdx int // index of the argument carrying the field (calc/write); -1 for parse
	n      int // number of (field, callee) selections reached; must be 1
	all    []string
}

type dispatchTable struct {
	parse, calc, write          [256]sel
	switches                    int
	posParse, posCalc, posWrite string
}

// payload fields of Descriptor: every field except the header fields Tag and Length
func descriptorPayloadField(p *load.Program, f *types.Var) bool {
	return f != nil && f.Name() != "Tag" && f.Name() != "Length" && ownerOf(p, f) == "Descriptor"
}

func computeDispatch(p *load.Program) (*dispatchTable, error) {
	m := NewMachine(p)
	q := structField(p, "Descriptor", "Tag")
	if q == nil {
		return nil, fmt.Errorf("field Descriptor.Tag not found")
	}
	dt := &dispatchTable{}
	run := func(key string, out *[256]sel, parse bool) (string, error) {
		fd := p.Decl(key)
		if fd == nil || fd.Body == nil {
			return "-", fmt.Errorf("function %s not found", key)
		}
		// the switch over Descriptor.Tag may have moved into a function this one calls (writeDescriptor → writeDescriptorPayload):
		// the dispatcher is then that callee, provided it is the only one with such a switch
		hasTagSwitch := func(d *ast.FuncDecl) bool {
			found := false
			ast.Inspect(d.Body, func(n ast.Node) bool {
				if sw, ok := n.(*ast.SwitchStmt); ok && sw.Tag != nil && fieldOf(p, sw.Tag) == q {
					found = true
				}
				return true
			})
			return found
		}
		if !hasTagSwitch(fd) {
			var cands []*ast.FuncDecl
			ast.Inspect(fd.Body, func(n ast.Node) bool {
				if c, ok := n.(*ast.CallExpr); ok {
					if fn := calleeOf(p, c); fn != nil && fn.Pkg() == p.Types {
						if d := p.Decl(fn.Name()); d != nil && d.Body != nil && d != fd && fn.Name() != "parseDescriptors" && fn.Name() != "calcDescriptorLength" && fn.Name() != "writeDescriptor" && hasTagSwitch(d) {
							dup := false
							for _, x := range cands {
								if x == d {
									dup = true
								}
							}
							if !dup {
								cands = append(cands, d)
							}
						}
					}
				}
				return true
			})
			if len(cands) == 1 {
				fd = cands[0]
			}
		}
		pos := p.Pos(fd.Pos())
		if err := checkQuantUse(p, q, fd); err != nil {
			return pos, fmt.Errorf("%s: %v", key, err)
		}
		// structural anchor: a switch whose tag is the Tag field of Descriptor
		nsw := 0
		ast.Inspect(fd.Body, func(n ast.Node) bool {
			if sw, ok := n.(*ast.SwitchStmt); ok && sw.Tag != nil && fieldOf(p, sw.Tag) == q {
				nsw++
			}
			return true
		})
		if nsw == 0 {
			return pos, fmt.Errorf("%s: no switch over Descriptor.Tag", key)
		}
		dt.switches += nsw
		for tag := 0; tag < 256; tag++ {
			nodes, err := trace(p, m, fd, q, IntVal(int64(tag), q.Type()))
			if err != nil {
				return pos, fmt.Errorf("%s, tag 0x%02x: %v", key, tag, err)
			}
			s := &out[tag]
			s.argIdx = -1
			record := func(f *types.Var, c *ast.CallExpr, idx int) {
				s.n++
				fn := calleeOf(p, c)
				name := "<dynamic>"
				if fn != nil {
					name = fn.Name()
				}
				s.all = append(s.all, f.Name()+"/"+name)
				if s.n == 1 {
					s.field, s.callee, s.call, s.argIdx = f, fn, c, idx
				}
			}
			for _, nd := range nodes {
				ast.Inspect(nd, func(x ast.Node) bool {
					if parse {
						as, ok := x.(*ast.AssignStmt)
						if !ok {
							return true
						}
						for _, l := range as.Lhs {
							if f := fieldOf(p, l); descriptorPayloadField(p, f) {
								var c *ast.CallExpr
								if len(as.Rhs) == 1 {
									c, _ = unparen(as.Rhs[0]).(*ast.CallExpr)
								}
								if c == nil {
									s.n++
									s.all = append(s.all, f.Name()+"/<no call>")
									if s.n == 1 {
										s.field = f
										// &T{…} with T the field's own struct type: the parser written out in place
										if len(as.Rhs) == 1 {
											if u, isU := unparen(as.Rhs[0]).(*ast.UnaryExpr); isU && u.Op == token.AND {
												if cl, isCL := unparen(u.X).(*ast.CompositeLit); isCL {
													if tv, okT := p.Info.Types[cl]; okT {
														if pt, isP := f.Type().(*types.Pointer); isP && types.Identical(pt.Elem(), tv.Type) {
															s.inline = true
														}
													}
												}
											}
										}
									}
									continue
								}
								record(f, c, -1)
							}
						}
						return true
					}
					c, ok := x.(*ast.CallExpr)
					if !ok {
						return true
					}
					for i, a := range c.Args {
						if f := fieldOf(p, a); descriptorPayloadField(p, f) {
							record(f, c, i)
						}
					}
					return true
				})
			}
		}
		return pos, nil
	}
	var err error
	if dt.posParse, err = run("parseDescriptors", &dt.parse, true); err != nil {
		return dt, err
	}
	if dt.posCalc, err = run("calcDescriptorLength", &dt.calc, false); err != nil {
		return dt, err
	}
	if dt.posWrite, err = run("writeDescriptor", &dt.write, false); err != nil {
		return dt, err
	}
	return dt, nil
}

// Dispatch returns, for each of the 256 tags, the Descriptor field and the parse/calc/write callees the
// three dispatchers select. The error is non-nil if a dispatcher is outside the interpreted language, if
// some tag selects zero or several fields in a dispatcher, or if the dispatchers disagree on the field.
func Dispatch(p *load.Program) ([]Triple, error) {
	dt, err := computeDispatch(p)
	if err != nil {
		return nil, err
	}
	out := make([]Triple, 0, 256)
	var bad []string
	for tag := 0; tag < 256; tag++ {
		a, b, c := dt.parse[tag], dt.calc[tag], dt.write[tag]
		if a.n != 1 || b.n != 1 || c.n != 1 {
			bad = append(bad, fmt.Sprintf("0x%02x: selections parse=%v calc=%v write=%v", tag, a.all, b.all, c.all))
			continue
		}
		if a.field != b.field || a.field != c.field {
			bad = append(bad, fmt.Sprintf("0x%02x: fields parse=%s calc=%s write=%s", tag, a.field.Name(), b.field.Name(), c.field.Name()))
		}
		out = append(out, Triple{Tag: tag, Field: a.field.Name(), Parse: a.callee, Calc: b.callee, Write: c.callee})
	}
	if len(bad) > 0 {
		return out, fmt.Errorf("inconsistent descriptor dispatch: %s", strings.Join(bad, "; "))
	}
	return out, nil
}

func family(name string) string {
	for _, pre := range []string{"new", "calc", "write"} {
		if strings.HasPrefix(name, pre) {
			name = strings.TrimPrefix(name, pre)
			break
		}
	}
	return strings.TrimSuffix(name, "Length")
}

// checkTag verifies one tag against the expected field; returns the list of complaints.
func (dt *dispatchTable) checkTag(p *load.Program, tag int, wantField string, typed bool) []string {
	var bad []string
	h := fmt.Sprintf("0x%02x", tag)
	sels := []struct {
		name string
		s    sel
	}{{"parseDescriptors", dt.parse[tag]}, {"calcDescriptorLength", dt.calc[tag]}, {"writeDescriptor", dt.write[tag]}}
	fams := map[string]bool{}
	for i, e := range sels {
		s := e.s
		if s.n != 1 {
			bad = append(bad, fmt.Sprintf("%s: %s selects %d field/callee pairs %v (want exactly one)", h, e.name, s.n, s.all))
			continue
		}
		if s.field == nil {
			bad = append(bad, fmt.Sprintf("%s: %s selects no field", h, e.name))
			continue
		}
		if s.field.Name() != wantField {
			bad = append(bad, fmt.Sprintf("%s: %s selects field %s, want %s", h, e.name, s.field.Name(), wantField))
		}
		if s.callee == nil && s.inline && i == 0 {
			continue // the field is built in place from a literal of its own type: nothing to compare a callee with
		}
		if s.callee == nil {
			bad = append(bad, fmt.Sprintf("%s: %s calls a dynamic function", h, e.name))
			continue
		}
		sig, _ := s.callee.Type().(*types.Signature)
		if sig == nil {
			continue
		}
		ft := s.field.Type()
		if i == 0 {
			if sig.Results().Len() == 0 || !types.Identical(sig.Results().At(0).Type(), ft) {
				bad = append(bad, fmt.Sprintf("%s: %s returns %v but is stored in %s of type %v", h, s.callee.Name(), sig.Results(), s.field.Name(), ft))
			} else if typed {
				pt, isPtr := ft.(*types.Pointer)
				if !isPtr {
					bad = append(bad, fmt.Sprintf("%s: field %s is not a pointer to a descriptor struct", h, s.field.Name()))
				} else if _, isStruct := pt.Elem().Underlying().(*types.Struct); !isStruct {
					bad = append(bad, fmt.Sprintf("%s: field %s does not point to a struct", h, s.field.Name()))
				}
			}
		} else {
			if s.argIdx < 0 || s.argIdx >= sig.Params().Len() || !types.Identical(sig.Params().At(s.argIdx).Type(), ft) {
				bad = append(bad, fmt.Sprintf("%s: %s does not take the field type %v at argument %d", h, s.callee.Name(), ft, s.argIdx))
			}
		}
		if s.callee.Pkg() == p.Types {
			fams[family(s.callee.Name())] = true
			if typed || wantField == "Unknown" || i > 0 {
				wantFam := "Descriptor" + wantField
				if f, ok := specFamily[wantField]; ok {
					wantFam = "Descriptor" + f
				}
				if family(s.callee.Name()) != wantFam {
					bad = append(bad, fmt.Sprintf("%s: %s calls %s (family %s), want family %s", h, e.name, s.callee.Name(), family(s.callee.Name()), wantFam))
				}
				// the family is also the struct type of the field (typed descriptors)
				if typed || wantField == "Unknown" {
					if namedTypeName(ft) != wantFam {
						bad = append(bad, fmt.Sprintf("%s: field %s has type %v, want *%s", h, s.field.Name(), ft, wantFam))
					}
				}
			}
		} else if typed || wantField == "Unknown" {
			bad = append(bad, fmt.Sprintf("%s: %s calls %s outside the package", h, e.name, s.callee.FullName()))
		}
	}
	if len(fams) > 1 {
		var fs []string
		for f := range fams {
			fs = append(fs, f)
		}
		sort.Strings(fs)
		bad = append(bad, fmt.Sprintf("%s: callee families differ: %s", h, strings.Join(fs, ",")))
	}
	return bad
}

// T2 decides the descriptor dispatch agreement.
func T2(p *load.Program, r *report.Report) {
	dt, err := computeDispatch(p)
	if err != nil {
		pos := "-"
		if dt != nil {
			pos = dt.posParse
		}
		r.Unknown(ruleT2, "traceable/descriptor-dispatchers", pos, "descriptor dispatch cannot be interpreted: "+err.Error())
		return
	}
	// expected field per tag from the spec table
	want := [256]string{}
	for tag := 0; tag < 256; tag++ {
		want[tag] = "Unknown"
		if tag >= 0x80 && tag <= 0xfe {
			want[tag] = "UserDefined"
		}
	}
	names := make([]string, 0, len(specTags))
	for n := range specTags {
		names = append(names, n)
	}
	sort.Strings(names)
	for _, n := range names {
		want[specTags[n]] = n
	}
	typedSeen := 0
	for _, n := range names {
		tag := specTags[n]
		var bad []string
		c, _ := p.Types.Scope().Lookup("DescriptorTag" + n).(*types.Const)
		pos := dt.posParse
		if c == nil {
			bad = append(bad, "constant DescriptorTag"+n+" missing")
		} else {
			pos = p.Pos(c.Pos())
			if v, ok := constant.Int64Val(c.Val()); !ok || int(v) != tag {
				bad = append(bad, fmt.Sprintf("DescriptorTag%s = %s, spec 0x%02x", n, c.Val().ExactString(), tag))
			}
		}
		bad = append(bad, dt.checkTag(p, tag, n, true)...)
		s := dt.parse[tag]
		if s.n == 1 && dt.calc[tag].n == 1 && dt.write[tag].n == 1 && s.field.Name() != "Unknown" && s.field.Name() != "UserDefined" {
			typedSeen++
		}
		okd := ""
		if len(bad) == 0 {
			okd = fmt.Sprintf("tag 0x%02x: field %s in all three dispatchers; %s / %s / %s; result and parameter types are the field type %v",
				tag, n, s.callee.Name(), dt.calc[tag].callee.Name(), dt.write[tag].callee.Name(), s.field.Type())
		}
		r.Check(len(bad) == 0, ruleT2, "tag/"+n, pos, okd, strings.Join(dedup(bad), "; "))
	}
	// user-defined range
	{
		var bad []string
		for tag := 0x80; tag <= 0xfe; tag++ {
			bad = append(bad, dt.checkTag(p, tag, "UserDefined", false)...)
		}
		// and the range is exactly 0x80..0xfe: no tag outside selects UserDefined (checked by the other classes), here: families
		r.Check(len(bad) == 0, ruleT2, "tag/user-defined-range", dt.posParse,
			"tags 0x80..0xfe select field UserDefined in all three dispatchers (127 tags × 3)", strings.Join(dedup(bad), "; "))
	}
	// everything else → Unknown
	{
		var bad []string
		n := 0
		for tag := 0; tag < 256; tag++ {
			if want[tag] != "Unknown" {
				continue
			}
			n++
			bad = append(bad, dt.checkTag(p, tag, "Unknown", false)...)
		}
		r.Check(len(bad) == 0, ruleT2, "tag/unknown-default", dt.posParse,
			fmt.Sprintf("the remaining %d tags select field Unknown and the Unknown family in all three dispatchers", n), strings.Join(dedup(bad), "; "))
	}
	// extra DescriptorTag* constants the spec table does not know (extension sub-tags are a different space)
	{
		var extra []string
		sc := p.Types.Scope()
		for _, n := range sc.Names() {
			if !strings.HasPrefix(n, "DescriptorTag") || strings.HasPrefix(n, "DescriptorTagExtension") && n != "DescriptorTagExtension" {
				continue
			}
			if _, ok := sc.Lookup(n).(*types.Const); !ok {
				continue
			}
			if _, ok := specTags[strings.TrimPrefix(n, "DescriptorTag")]; !ok {
				extra = append(extra, n)
			}
		}
		if len(extra) > 0 {
			r.Unknown(ruleT2, "constants/unlisted", dt.posParse, "tag constants missing from the checker's spec table: "+strings.Join(extra, ","))
		}
	}
	r.Floor(ruleT2, "typed tags dispatched", typedSeen, 23)
	r.Floor(ruleT2, "switches over Descriptor.Tag", dt.switches, 3)
	r.Count("t2_tags_traced", 3*256)
}
