package tables

import (
	"encoding/json"
	"os"
	"path/filepath"
	"strings"
	"sync"
	"testing"

	"astverif/load"
	"astverif/report"
)

// These tests read the source of the repository under analysis (type-check only, no SSA); they never
// execute any of its code.

var (
	baseOnce sync.Once
	baseProg *load.Program
	baseErr  error
)

func base(t *testing.T) *load.Program {
	baseOnce.Do(func() { baseProg, baseErr = load.Load(load.Options{NoSSA: true}) })
	if baseErr != nil {
		t.Fatal(baseErr)
	}
	return baseProg
}

func runAll(p *load.Program) *report.Report {
	r := report.New("TEST", "quick", "other")
	T1(p, r)
	T2(p, r)
	T3(p, r)
	WrapCounter(p, r)
	return r
}

func failing(r *report.Report) []report.Obligation {
	var out []report.Obligation
	for _, o := range r.Obls {
		if o.Status != report.Discharged {
			out = append(out, o)
		}
	}
	return out
}

const knownDefect = "T3/add/duplicate-branch-live"

func TestUnchangedTree(t *testing.T) {
	p := base(t)
	r := runAll(p)
	perRule := map[string]int{}
	for _, o := range r.Obls {
		perRule[o.Rule]++
		t.Logf("%-10s %-55s %s  %s", o.Status, o.Key, o.Pos, o.Detail)
	}
	t.Logf("obligations per rule: %v; floors: %v; counters: %v", perRule, r.Floors, r.Counters)
	sawDefect := false
	for _, o := range failing(r) {
		if o.Key == knownDefect && o.Status == report.Violated {
			sawDefect = true
			continue
		}
		t.Errorf("unexpected %s obligation %s: %s", o.Status, o.Key, o.Detail)
	}
	_ = sawDefect // the dead duplicate test was repaired in /repo (fix: 301dac2); nothing is expected to fail
	for rule, min := range map[string]int{"T1": 25, "T2": 25, "T3": 10, "T4": 6} {
		if perRule[rule] < min {
			t.Errorf("rule %s produced %d obligations, want at least %d", rule, perRule[rule], min)
		}
	}
}

// TestGOARCH386 repeats the run under the 32-bit int model used by the thorough tier.
func TestGOARCH386(t *testing.T) {
	p, err := load.Load(load.Options{NoSSA: true, GOARCH: "386"})
	if err != nil {
		t.Fatal(err)
	}
	for _, o := range failing(runAll(p)) {
		if o.Key != knownDefect {
			t.Errorf("unexpected %s obligation %s under GOARCH=386: %s", o.Status, o.Key, o.Detail)
		}
	}
}

func TestDispatchExport(t *testing.T) {
	p := base(t)
	ts, err := Dispatch(p)
	if err != nil {
		t.Fatal(err)
	}
	if len(ts) != 256 {
		t.Fatalf("got %d triples", len(ts))
	}
	for _, tr := range ts {
		if tr.Tag == 0x46 {
			if tr.Field != "VBITeletext" || tr.Parse.Name() != "newDescriptorTeletext" || tr.Calc.Name() != "calcDescriptorTeletextLength" || tr.Write.Name() != "writeDescriptorTeletext" {
				t.Errorf("tag 0x46: %+v", tr)
			}
		}
		if tr.Tag == 0x90 && tr.Field != "UserDefined" {
			t.Errorf("tag 0x90: %+v", tr)
		}
		if tr.Tag == 0x01 && tr.Field != "Unknown" {
			t.Errorf("tag 0x01: %+v", tr)
		}
	}
}

type variant struct {
	Name     string `json:"name"`
	Property string `json:"property"`
	File     string `json:"file"`
	Old      string `json:"old"`
	New      string `json:"new"`
	Expect   string `json:"expect"`
	Benign   bool   `json:"benign,omitempty"`
	Note     string `json:"note,omitempty"`
}

// TestSeededVariants applies every variant of /verif/selftest/tables.json as an in-memory overlay and
// asserts that the expected obligation fails (or, for benign variants, that nothing new fails).
func TestSeededVariants(t *testing.T) {
	b, err := os.ReadFile(filepath.Join(report.Home(), "selftest", "c13_tables.json"))
	if err != nil {
		t.Fatal(err)
	}
	var vs []variant
	if err := json.Unmarshal(b, &vs); err != nil {
		t.Fatal(err)
	}
	if len(vs) < 5 {
		t.Fatalf("only %d variants", len(vs))
	}
	dir := load.RepoDir()
	for _, v := range vs {
		v := v
		t.Run(v.Name, func(t *testing.T) {
			t.Parallel()
			path := filepath.Join(dir, v.File)
			src, err := os.ReadFile(path)
			if err != nil {
				t.Fatal(err)
			}
			if n := strings.Count(string(src), v.Old); n != 1 {
				t.Fatalf("old text occurs %d times in %s", n, v.File)
			}
			mod := strings.Replace(string(src), v.Old, v.New, 1)
			p, err := load.Load(load.Options{Dir: dir, NoSSA: true, Overlay: map[string][]byte{path: []byte(mod)}})
			if err != nil {
				t.Fatalf("variant does not type-check: %v", err)
			}
			r := runAll(p)
			var fired []string
			hit := false
			for _, o := range failing(r) {
				if o.Key == knownDefect && (v.Benign || v.Expect == "" || !strings.Contains(knownDefect, v.Expect)) {
					continue // the defect of the unchanged tree; repair variants are checked for discharge below
				}
				fired = append(fired, o.Key)
				if v.Expect != "" && strings.Contains(o.Key, v.Expect) {
					hit = true
					t.Logf("CAUGHT by %s [%s]: %s", o.Key, o.Status, o.Detail)
				}
			}
			switch {
			case v.Benign && len(fired) > 0:
				t.Errorf("benign variant fired %v", fired)
			case v.Benign:
				if v.Expect != "" {
					// a repair: the named obligation must now be discharged
					ok := false
					for _, o := range r.Obls {
						if strings.Contains(o.Key, v.Expect) && o.Status == report.Discharged {
							ok = true
							t.Logf("DISCHARGED %s: %s", o.Key, o.Detail)
						}
					}
					if !ok {
						t.Errorf("repair variant: %s not discharged", v.Expect)
					}
				}
			case !hit:
				t.Errorf("MISSED: expected a failing obligation containing %q, fired %v", v.Expect, fired)
			}
		})
	}
}
