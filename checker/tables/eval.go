// Package tables is engine E: finite truth tables. Where the code under analysis touches a value only
// through comparisons with constants, a statement "for all values" is decided by interpreting the
// predicate's type-checked AST over the finite domain. Nothing of /repo is ever compiled or executed: the
// interpreter below works on go/ast + go/types only, supports a deliberately small language and reports
// every construct outside that language as unsupported (the caller turns that into an undecided obligation).
package tables

import (
	"fmt"
	"go/ast"
	"go/constant"
	"go/token"
	"go/types"

	"astverif/load"
)

// Kind of an interpreter value.
type Kind uint8

const (
	KInt Kind = iota + 1
	KBool
	KStr
	KStruct
)

// Value is an interpreter value. Integers are kept as the two's complement bit pattern in an int64,
// truncated to the width of T. Structs are reference-like (the field map is shared) so that pointer
// receivers see updates; value receivers/parameters get a copy at the call.
type Value struct {
	K Kind
	I int64
	B bool
	S string
	F map[*types.Var]Value
	T types.Type
}

func (v Value) String() string {
	switch v.K {
	case KInt:
		return fmt.Sprintf("%d", v.I)
	case KBool:
		return fmt.Sprintf("%v", v.B)
	case KStr:
		return fmt.Sprintf("%q", v.S)
	case KStruct:
		return fmt.Sprintf("struct%v", v.F)
	}
	return "<invalid>"
}

// IntVal makes an integer value of type t.
func IntVal(i int64, t types.Type) Value { return Value{K: KInt, I: i, T: t} }

// Unsupported is raised for every construct outside the interpreted language.
type Unsupported struct {
	Pos  token.Pos
	What string
}

func (u *Unsupported) Error() string { return u.What }

type flow uint8

const (
	fNone flow = iota
	fReturn
	fBreak
)

type frame struct {
	vars    map[types.Object]Value
	results []*types.Var
}

// Machine interprets expressions and a small statement language over the type-checked AST.
type Machine struct {
	P *load.Program
	// Hook, when set, is consulted first for every expression: it lets a client bind whole
	// sub-expressions (e.g. p.Header.ContinuityCounter) to values.
	Hook func(e ast.Expr) (Value, bool)

	decls map[*types.Func]*ast.FuncDecl
	depth int
	steps int
}

// NewMachine builds an interpreter for p.
func NewMachine(p *load.Program) *Machine {
	m := &Machine{P: p, decls: map[*types.Func]*ast.FuncDecl{}}
	for _, f := range p.Files {
		for _, d := range f.Decls {
			if fd, ok := d.(*ast.FuncDecl); ok {
				if fn, ok := p.Info.Defs[fd.Name].(*types.Func); ok {
					m.decls[fn] = fd
				}
			}
		}
	}
	return m
}

// DeclOf returns the declaration of a root-package function.
func (m *Machine) DeclOf(fn *types.Func) *ast.FuncDecl { return m.decls[fn] }

const maxDepth = 12
const maxSteps = 200000

func (m *Machine) fail(n ast.Node, format string, a ...interface{}) {
	pos := token.NoPos
	if n != nil {
		pos = n.Pos()
	}
	panic(&Unsupported{Pos: pos, What: fmt.Sprintf(format, a...) + " at " + m.P.Pos(pos)})
}

func catch(err *error) {
	if x := recover(); x != nil {
		if u, ok := x.(*Unsupported); ok {
			*err = u
			return
		}
		panic(x)
	}
}

// Env binds objects (variables, parameters, receivers — or struct fields, matched through the selected
// field object whatever the base expression) to values for a top-level evaluation.
type Env map[types.Object]Value

func (m *Machine) top(env Env) *frame {
	fr := &frame{vars: map[types.Object]Value{}}
	for k, v := range env {
		fr.vars[k] = v
	}
	m.depth, m.steps = 0, 0
	return fr
}

// EvalBool evaluates a boolean expression under env.
func (m *Machine) EvalBool(e ast.Expr, env Env) (b bool, err error) {
	defer catch(&err)
	v := m.expr(m.top(env), e)
	if v.K != KBool {
		m.fail(e, "expression is not boolean")
	}
	return v.B, nil
}

// EvalInt evaluates an integer expression under env.
func (m *Machine) EvalInt(e ast.Expr, env Env) (i int64, err error) {
	defer catch(&err)
	v := m.expr(m.top(env), e)
	if v.K != KInt {
		m.fail(e, "expression is not an integer")
	}
	return v.I, nil
}

// Eval evaluates any supported expression under env.
func (m *Machine) Eval(e ast.Expr, env Env) (v Value, err error) {
	defer catch(&err)
	return m.expr(m.top(env), e), nil
}

// Equal compares two values with ==.
func (m *Machine) Equal(n ast.Node, a, b Value) (eq bool, err error) {
	defer catch(&err)
	return m.compare(n, token.EQL, a, b), nil
}

// Call interprets the body of a root-package function or method.
func (m *Machine) Call(fn *types.Func, recv *Value, args ...Value) (res []Value, err error) {
	defer catch(&err)
	m.depth, m.steps = 0, 0
	return m.invoke(nil, fn, recv, args), nil
}

// ---------------------------------------------------------------------------------------------
// integers

func (m *Machine) intInfo(t types.Type) (bits int, signed bool, ok bool) {
	if t == nil {
		return 0, false, false
	}
	b, isB := t.Underlying().(*types.Basic)
	if !isB || b.Info()&types.IsInteger == 0 {
		return 0, false, false
	}
	if b.Info()&types.IsUntyped != 0 {
		return 64, true, true
	}
	size := int64(8)
	if m.P.Pkg != nil && m.P.Pkg.TypesSizes != nil {
		size = m.P.Pkg.TypesSizes.Sizeof(b)
	}
	return int(size) * 8, b.Info()&types.IsUnsigned == 0, true
}

func wrapInt(v int64, bits int, signed bool) int64 {
	if bits >= 64 || bits <= 0 {
		return v
	}
	mask := int64(1)<<uint(bits) - 1
	v &= mask
	if signed && v>>(uint(bits)-1)&1 == 1 {
		v -= int64(1) << uint(bits)
	}
	return v
}

func (m *Machine) mkInt(n ast.Node, v int64, t types.Type) Value {
	bits, signed, ok := m.intInfo(t)
	if !ok {
		m.fail(n, "non-integer type %v in integer context", t)
	}
	return Value{K: KInt, I: wrapInt(v, bits, signed), T: t}
}

func (m *Machine) constValue(n ast.Node, c constant.Value, t types.Type) Value {
	switch c.Kind() {
	case constant.Bool:
		return Value{K: KBool, B: constant.BoolVal(c), T: t}
	case constant.String:
		return Value{K: KStr, S: constant.StringVal(c), T: t}
	case constant.Int:
		if i, exact := constant.Int64Val(c); exact {
			return Value{K: KInt, I: i, T: t}
		}
		if u, exact := constant.Uint64Val(c); exact {
			return Value{K: KInt, I: int64(u), T: t}
		}
		m.fail(n, "integer constant does not fit 64 bits")
	case constant.Float:
		if _, _, ok := m.intInfo(t); ok {
			if i, exact := constant.Int64Val(constant.ToInt(c)); exact {
				return Value{K: KInt, I: i, T: t}
			}
		}
	}
	m.fail(n, "constant of unsupported kind %v", c.Kind())
	return Value{}
}

// ---------------------------------------------------------------------------------------------
// expressions

func unparen(e ast.Expr) ast.Expr {
	for {
		p, ok := e.(*ast.ParenExpr)
		if !ok {
			return e
		}
		e = p.X
	}
}

func (m *Machine) tick(n ast.Node) {
	m.steps++
	if m.steps > maxSteps {
		m.fail(n, "evaluation budget exceeded")
	}
}

func (m *Machine) expr(fr *frame, e ast.Expr) Value {
	m.tick(e)
	if m.Hook != nil {
		if v, ok := m.Hook(e); ok {
			return v
		}
	}
	info := m.P.Info
	if tv, ok := info.Types[e]; ok && tv.Value != nil {
		return m.constValue(e, tv.Value, tv.Type)
	}
	switch e := e.(type) {
	case *ast.ParenExpr:
		return m.expr(fr, e.X)
	case *ast.Ident:
		obj := info.Uses[e]
		if obj == nil {
			obj = info.Defs[e]
		}
		if obj != nil {
			if v, ok := fr.vars[obj]; ok {
				return v
			}
			if c, ok := obj.(*types.Const); ok {
				return m.constValue(e, c.Val(), c.Type())
			}
		}
		m.fail(e, "identifier %s is not bound to the quantified value or a constant", e.Name)
	case *ast.SelectorExpr:
		obj := info.Uses[e.Sel]
		if obj != nil {
			if v, ok := fr.vars[obj]; ok { // field bound directly (quantified field)
				return v
			}
			if c, ok := obj.(*types.Const); ok { // pkg.Const
				return m.constValue(e, c.Val(), c.Type())
			}
		}
		if fld, ok := obj.(*types.Var); ok && fld.IsField() {
			base := m.exprOrFail(fr, e.X, "field "+e.Sel.Name+" of an untracked object")
			if base.K == KStruct {
				if v, ok := base.F[fld]; ok {
					return v
				}
				m.fail(e, "field %s has no tracked value", e.Sel.Name)
			}
		}
		m.fail(e, "selector %s is not supported", types.ExprString(e))
	case *ast.UnaryExpr:
		switch e.Op {
		case token.NOT:
			x := m.expr(fr, e.X)
			if x.K != KBool {
				m.fail(e, "! on non-boolean")
			}
			return Value{K: KBool, B: !x.B, T: x.T}
		case token.SUB, token.ADD, token.XOR:
			x := m.expr(fr, e.X)
			if x.K != KInt {
				m.fail(e, "unary %s on non-integer", e.Op)
			}
			t := m.typeOf(e, x.T)
			switch e.Op {
			case token.SUB:
				return m.mkInt(e, -x.I, t)
			case token.XOR:
				return m.mkInt(e, ^x.I, t)
			}
			return m.mkInt(e, x.I, t)
		}
		m.fail(e, "unary operator %s is not supported", e.Op)
	case *ast.BinaryExpr:
		return m.binary(fr, e)
	case *ast.CallExpr:
		return m.call(fr, e)
	case *ast.CompositeLit:
		return m.composite(fr, e)
	}
	m.fail(e, "expression form %T (%s) is not supported", e, types.ExprString(e))
	return Value{}
}

func (m *Machine) exprOrFail(fr *frame, e ast.Expr, what string) (v Value) {
	defer func() {
		if x := recover(); x != nil {
			if _, ok := x.(*Unsupported); ok {
				m.fail(e, "%s (%s)", what, types.ExprString(e))
			}
			panic(x)
		}
	}()
	return m.expr(fr, e)
}

func (m *Machine) typeOf(e ast.Expr, dflt types.Type) types.Type {
	if tv, ok := m.P.Info.Types[e]; ok && tv.Type != nil {
		return tv.Type
	}
	return dflt
}

func (m *Machine) binary(fr *frame, e *ast.BinaryExpr) Value {
	switch e.Op {
	case token.LAND, token.LOR:
		x := m.expr(fr, e.X)
		if x.K != KBool {
			m.fail(e, "%s on non-boolean", e.Op)
		}
		if (e.Op == token.LAND) != x.B { // short circuit
			return Value{K: KBool, B: x.B}
		}
		y := m.expr(fr, e.Y)
		if y.K != KBool {
			m.fail(e, "%s on non-boolean", e.Op)
		}
		return Value{K: KBool, B: y.B}
	}
	x, y := m.expr(fr, e.X), m.expr(fr, e.Y)
	switch e.Op {
	case token.EQL, token.NEQ, token.LSS, token.LEQ, token.GTR, token.GEQ:
		return Value{K: KBool, B: m.compare(e, e.Op, x, y)}
	}
	if x.K != KInt || y.K != KInt {
		m.fail(e, "operator %s on non-integers", e.Op)
	}
	t := m.typeOf(e, x.T)
	bits, signed, ok := m.intInfo(t)
	if !ok {
		m.fail(e, "operator %s with non-integer result type %v", e.Op, t)
	}
	unsigned64 := !signed && bits >= 64
	var z int64
	switch e.Op {
	case token.ADD:
		z = x.I + y.I
	case token.SUB:
		z = x.I - y.I
	case token.MUL:
		z = x.I * y.I
	case token.QUO, token.REM:
		if y.I == 0 {
			m.fail(e, "division by zero")
		}
		if unsigned64 {
			if e.Op == token.QUO {
				z = int64(uint64(x.I) / uint64(y.I))
			} else {
				z = int64(uint64(x.I) % uint64(y.I))
			}
		} else if e.Op == token.QUO {
			z = x.I / y.I
		} else {
			z = x.I % y.I
		}
	case token.AND:
		z = x.I & y.I
	case token.OR:
		z = x.I | y.I
	case token.XOR:
		z = x.I ^ y.I
	case token.AND_NOT:
		z = x.I &^ y.I
	case token.SHL, token.SHR:
		_, ysigned, _ := m.intInfo(y.T)
		if ysigned && y.I < 0 {
			m.fail(e, "negative shift count")
		}
		n := uint64(y.I)
		if e.Op == token.SHL {
			if n >= 64 {
				z = 0
			} else {
				z = x.I << n
			}
		} else if unsigned64 {
			if n >= 64 {
				z = 0
			} else {
				z = int64(uint64(x.I) >> n)
			}
		} else {
			if n >= 64 {
				n = 63
			}
			z = x.I >> n
		}
	default:
		m.fail(e, "binary operator %s is not supported", e.Op)
	}
	return Value{K: KInt, I: wrapInt(z, bits, signed), T: t}
}

func (m *Machine) compare(n ast.Node, op token.Token, x, y Value) bool {
	if x.K != y.K {
		m.fail(n, "comparison of different kinds")
	}
	switch x.K {
	case KBool:
		switch op {
		case token.EQL:
			return x.B == y.B
		case token.NEQ:
			return x.B != y.B
		}
	case KStr:
		switch op {
		case token.EQL:
			return x.S == y.S
		case token.NEQ:
			return x.S != y.S
		case token.LSS:
			return x.S < y.S
		case token.LEQ:
			return x.S <= y.S
		case token.GTR:
			return x.S > y.S
		case token.GEQ:
			return x.S >= y.S
		}
	case KInt:
		c := 0
		bits, signed, ok := m.intInfo(x.T)
		if ok && !signed && bits >= 64 {
			switch {
			case uint64(x.I) < uint64(y.I):
				c = -1
			case uint64(x.I) > uint64(y.I):
				c = 1
			}
		} else {
			switch {
			case x.I < y.I:
				c = -1
			case x.I > y.I:
				c = 1
			}
		}
		switch op {
		case token.EQL:
			return c == 0
		case token.NEQ:
			return c != 0
		case token.LSS:
			return c < 0
		case token.LEQ:
			return c <= 0
		case token.GTR:
			return c > 0
		case token.GEQ:
			return c >= 0
		}
	}
	m.fail(n, "comparison %s is not supported for these operands", op)
	return false
}

func (m *Machine) composite(fr *frame, e *ast.CompositeLit) Value {
	t := m.typeOf(e, nil)
	if t == nil {
		m.fail(e, "composite literal without type")
	}
	st, ok := t.Underlying().(*types.Struct)
	if !ok {
		m.fail(e, "composite literal of non-struct type %v", t)
	}
	v := Value{K: KStruct, F: map[*types.Var]Value{}, T: t}
	for i := 0; i < st.NumFields(); i++ {
		if z, ok := m.zero(st.Field(i).Type()); ok {
			v.F[st.Field(i)] = z
		}
	}
	for i, el := range e.Elts {
		if kv, ok := el.(*ast.KeyValueExpr); ok {
			id, ok := kv.Key.(*ast.Ident)
			if !ok {
				m.fail(kv, "composite literal key is not a field name")
			}
			fld, ok := m.P.Info.Uses[id].(*types.Var)
			if !ok {
				m.fail(kv, "composite literal key %s does not resolve to a field", id.Name)
			}
			v.F[fld] = m.expr(fr, kv.Value)
			continue
		}
		if i >= st.NumFields() {
			m.fail(el, "too many positional fields")
		}
		v.F[st.Field(i)] = m.expr(fr, el)
	}
	return v
}

func (m *Machine) zero(t types.Type) (Value, bool) {
	if b, ok := t.Underlying().(*types.Basic); ok {
		switch {
		case b.Info()&types.IsInteger != 0:
			return Value{K: KInt, T: t}, true
		case b.Info()&types.IsBoolean != 0:
			return Value{K: KBool, T: t}, true
		case b.Info()&types.IsString != 0:
			return Value{K: KStr, T: t}, true
		}
	}
	return Value{}, false
}

func (m *Machine) call(fr *frame, e *ast.CallExpr) Value {
	info := m.P.Info
	if tv, ok := info.Types[e.Fun]; ok && tv.IsType() {
		if len(e.Args) != 1 {
			m.fail(e, "conversion with %d arguments", len(e.Args))
		}
		x := m.expr(fr, e.Args[0])
		if _, _, ok := m.intInfo(tv.Type); ok && x.K == KInt {
			return m.mkInt(e, x.I, tv.Type) // truncation to the target width
		}
		if b, ok := tv.Type.Underlying().(*types.Basic); ok {
			if b.Info()&types.IsBoolean != 0 && x.K == KBool {
				x.T = tv.Type
				return x
			}
			if b.Info()&types.IsString != 0 && x.K == KStr {
				x.T = tv.Type
				return x
			}
		}
		m.fail(e, "conversion to %v is not supported", tv.Type)
	}
	var fn *types.Func
	var recvExpr ast.Expr
	switch f := unparen(e.Fun).(type) {
	case *ast.Ident:
		switch o := info.Uses[f].(type) {
		case *types.Func:
			fn = o
		case *types.Builtin:
			m.fail(e, "builtin %s is not supported", o.Name())
		}
	case *ast.SelectorExpr:
		if sel := info.Selections[f]; sel != nil {
			if sel.Kind() == types.MethodVal {
				fn, _ = sel.Obj().(*types.Func)
				recvExpr = f.X
			}
		} else if o, ok := info.Uses[f.Sel].(*types.Func); ok {
			fn = o
		}
	}
	if fn == nil {
		m.fail(e, "call of %s is not a static call of a function or method", types.ExprString(e.Fun))
	}
	if e.Ellipsis.IsValid() {
		m.fail(e, "variadic call")
	}
	var recv *Value
	if recvExpr != nil {
		v := m.expr(fr, recvExpr)
		recv = &v
	}
	args := make([]Value, len(e.Args))
	for i, a := range e.Args {
		args[i] = m.expr(fr, a)
	}
	res := m.invoke(e, fn, recv, args)
	if len(res) != 1 {
		m.fail(e, "call of %s yields %d values in single-value context", fn.Name(), len(res))
	}
	return res[0]
}

func copyStruct(v Value) Value {
	if v.K != KStruct {
		return v
	}
	c := v
	c.F = make(map[*types.Var]Value, len(v.F))
	for k, x := range v.F {
		c.F[k] = copyStruct(x)
	}
	return c
}

func (m *Machine) invoke(at ast.Node, fn *types.Func, recv *Value, args []Value) []Value {
	if fn.Pkg() != m.P.Types {
		m.fail(at, "call of %s outside the package under analysis", fn.FullName())
	}
	fd := m.decls[fn]
	if fd == nil || fd.Body == nil {
		m.fail(at, "no body for %s", fn.FullName())
	}
	sig := fn.Type().(*types.Signature)
	if sig.Variadic() {
		m.fail(at, "variadic function %s", fn.Name())
	}
	if m.depth >= maxDepth {
		m.fail(at, "call depth exceeded in %s", fn.Name())
	}
	callee := &frame{vars: map[types.Object]Value{}}
	if sig.Recv() != nil {
		if recv == nil {
			m.fail(at, "method %s called without receiver value", fn.Name())
		}
		if fd.Recv != nil && len(fd.Recv.List) == 1 && len(fd.Recv.List[0].Names) == 1 {
			if obj := m.P.Info.Defs[fd.Recv.List[0].Names[0]]; obj != nil {
				v := *recv
				if _, isPtr := sig.Recv().Type().(*types.Pointer); !isPtr {
					v = copyStruct(v)
				}
				callee.vars[obj] = v
			}
		}
	}
	i := 0
	for _, f := range fd.Type.Params.List {
		if len(f.Names) == 0 {
			i++
			continue
		}
		for _, nm := range f.Names {
			if i >= len(args) {
				m.fail(at, "too few arguments for %s", fn.Name())
			}
			if obj := m.P.Info.Defs[nm]; obj != nil && nm.Name != "_" {
				callee.vars[obj] = copyStruct(args[i])
			}
			i++
		}
	}
	if i != len(args) {
		m.fail(at, "argument count mismatch for %s", fn.Name())
	}
	if fd.Type.Results != nil {
		for _, f := range fd.Type.Results.List {
			for _, nm := range f.Names {
				if obj, ok := m.P.Info.Defs[nm].(*types.Var); ok {
					callee.results = append(callee.results, obj)
					if z, ok := m.zero(obj.Type()); ok {
						callee.vars[obj] = z
					}
				}
			}
		}
	}
	m.depth++
	res, fl := m.block(callee, fd.Body.List)
	m.depth--
	if fl != fReturn {
		if sig.Results().Len() == 0 {
			return nil
		}
		m.fail(fd, "function %s falls off its end (terminating statement not interpreted)", fn.Name())
	}
	if len(res) != sig.Results().Len() {
		m.fail(fd, "function %s returned %d values, want %d", fn.Name(), len(res), sig.Results().Len())
	}
	return res
}

// ---------------------------------------------------------------------------------------------
// statements

func (m *Machine) block(fr *frame, list []ast.Stmt) ([]Value, flow) {
	for _, s := range list {
		if res, fl := m.stmt(fr, s); fl != fNone {
			return res, fl
		}
	}
	return nil, fNone
}

func (m *Machine) stmt(fr *frame, s ast.Stmt) ([]Value, flow) {
	m.tick(s)
	switch s := s.(type) {
	case *ast.EmptyStmt:
		return nil, fNone
	case *ast.BlockStmt:
		return m.block(fr, s.List)
	case *ast.ReturnStmt:
		if len(s.Results) == 0 {
			var out []Value
			for _, rv := range fr.results {
				v, ok := fr.vars[rv]
				if !ok {
					m.fail(s, "naked return with untracked result %s", rv.Name())
				}
				out = append(out, v)
			}
			return out, fReturn
		}
		out := make([]Value, 0, len(s.Results))
		for _, e := range s.Results {
			out = append(out, m.expr(fr, e))
		}
		return out, fReturn
	case *ast.IfStmt:
		if s.Init != nil {
			if _, fl := m.stmt(fr, s.Init); fl != fNone {
				m.fail(s.Init, "control flow in if-init")
			}
		}
		c := m.expr(fr, s.Cond)
		if c.K != KBool {
			m.fail(s.Cond, "if condition is not boolean")
		}
		if c.B {
			return m.block(fr, s.Body.List)
		}
		if s.Else != nil {
			return m.stmt(fr, s.Else)
		}
		return nil, fNone
	case *ast.SwitchStmt:
		return m.switchStmt(fr, s)
	case *ast.BranchStmt:
		if s.Tok == token.BREAK && s.Label == nil {
			return nil, fBreak
		}
		m.fail(s, "%s statement is not supported", s.Tok)
	case *ast.AssignStmt:
		m.assign(fr, s)
		return nil, fNone
	case *ast.IncDecStmt:
		cur := m.expr(fr, s.X)
		if cur.K != KInt {
			m.fail(s, "++/-- on non-integer")
		}
		d := int64(1)
		if s.Tok == token.DEC {
			d = -1
		}
		m.store(fr, s.X, m.mkInt(s, cur.I+d, cur.T))
		return nil, fNone
	case *ast.DeclStmt:
		gd, ok := s.Decl.(*ast.GenDecl)
		if !ok || gd.Tok != token.VAR {
			m.fail(s, "declaration statement is not supported")
		}
		for _, sp := range gd.Specs {
			vs := sp.(*ast.ValueSpec)
			for i, nm := range vs.Names {
				obj := m.P.Info.Defs[nm]
				if obj == nil {
					continue
				}
				if i < len(vs.Values) && len(vs.Values) == len(vs.Names) {
					fr.vars[obj] = m.expr(fr, vs.Values[i])
				} else if len(vs.Values) == 0 {
					if z, ok := m.zero(obj.Type()); ok {
						fr.vars[obj] = z
					}
				} else {
					m.fail(s, "multi-value var declaration")
				}
			}
		}
		return nil, fNone
	}
	m.fail(s, "statement form %T is not supported", s)
	return nil, fNone
}

func (m *Machine) switchStmt(fr *frame, s *ast.SwitchStmt) ([]Value, flow) {
	if s.Init != nil {
		if _, fl := m.stmt(fr, s.Init); fl != fNone {
			m.fail(s.Init, "control flow in switch-init")
		}
	}
	var tag *Value
	if s.Tag != nil {
		v := m.expr(fr, s.Tag)
		tag = &v
	}
	var chosen, dflt *ast.CaseClause
clauses:
	for _, cs := range s.Body.List {
		cc := cs.(*ast.CaseClause)
		if cc.List == nil {
			dflt = cc
			continue
		}
		for _, ce := range cc.List {
			v := m.expr(fr, ce)
			hit := false
			if tag != nil {
				hit = m.compare(ce, token.EQL, *tag, v)
			} else {
				if v.K != KBool {
					m.fail(ce, "case of tagless switch is not boolean")
				}
				hit = v.B
			}
			if hit {
				chosen = cc
				break clauses
			}
		}
	}
	if chosen == nil {
		chosen = dflt
	}
	if chosen == nil {
		return nil, fNone
	}
	for _, st := range chosen.Body {
		if b, ok := st.(*ast.BranchStmt); ok && b.Tok == token.FALLTHROUGH {
			m.fail(b, "fallthrough is not supported")
		}
	}
	res, fl := m.block(fr, chosen.Body)
	if fl == fBreak {
		return nil, fNone
	}
	return res, fl
}

func (m *Machine) assign(fr *frame, s *ast.AssignStmt) {
	if len(s.Lhs) != len(s.Rhs) {
		m.fail(s, "tuple assignment from a call is not supported")
	}
	vals := make([]Value, len(s.Rhs))
	for i, r := range s.Rhs {
		switch s.Tok {
		case token.ASSIGN, token.DEFINE:
			vals[i] = m.expr(fr, r)
		default: // op=
			var op token.Token
			switch s.Tok {
			case token.ADD_ASSIGN:
				op = token.ADD
			case token.SUB_ASSIGN:
				op = token.SUB
			case token.MUL_ASSIGN:
				op = token.MUL
			case token.REM_ASSIGN:
				op = token.REM
			case token.AND_ASSIGN:
				op = token.AND
			case token.OR_ASSIGN:
				op = token.OR
			case token.XOR_ASSIGN:
				op = token.XOR
			default:
				m.fail(s, "assignment operator %s is not supported", s.Tok)
			}
			cur, y := m.expr(fr, s.Lhs[i]), m.expr(fr, r)
			if cur.K != KInt || y.K != KInt {
				m.fail(s, "%s on non-integers", s.Tok)
			}
			var z int64
			switch op {
			case token.ADD:
				z = cur.I + y.I
			case token.SUB:
				z = cur.I - y.I
			case token.MUL:
				z = cur.I * y.I
			case token.REM:
				if y.I == 0 {
					m.fail(s, "division by zero")
				}
				z = cur.I % y.I
			case token.AND:
				z = cur.I & y.I
			case token.OR:
				z = cur.I | y.I
			case token.XOR:
				z = cur.I ^ y.I
			}
			vals[i] = m.mkInt(s, z, cur.T)
		}
	}
	for i, l := range s.Lhs {
		m.store(fr, l, vals[i])
	}
}

func (m *Machine) store(fr *frame, lhs ast.Expr, v Value) {
	switch l := unparen(lhs).(type) {
	case *ast.Ident:
		if l.Name == "_" {
			return
		}
		obj := m.P.Info.Defs[l]
		if obj == nil {
			obj = m.P.Info.Uses[l]
		}
		vr, ok := obj.(*types.Var)
		if !ok {
			m.fail(lhs, "assignment to %s which is not a variable", l.Name)
		}
		if vr.Parent() == m.P.Types.Scope() {
			m.fail(lhs, "assignment to package-level variable %s", l.Name)
		}
		// truncate to the variable's width
		if v.K == KInt {
			if _, _, ok := m.intInfo(vr.Type()); ok {
				v = m.mkInt(lhs, v.I, vr.Type())
			}
		}
		fr.vars[vr] = copyStruct(v)
		return
	case *ast.SelectorExpr:
		fld, ok := m.P.Info.Uses[l.Sel].(*types.Var)
		if ok && fld.IsField() {
			base := m.exprOrFail(fr, l.X, "store to field "+l.Sel.Name+" of an untracked object")
			if base.K == KStruct {
				if v.K == KInt {
					if _, _, ok := m.intInfo(fld.Type()); ok {
						v = m.mkInt(lhs, v.I, fld.Type())
					}
				}
				base.F[fld] = copyStruct(v)
				return
			}
		}
	}
	m.fail(lhs, "assignment target %s is not supported", types.ExprString(lhs))
}
