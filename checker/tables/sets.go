package tables

import (
	"fmt"
	"strings"
)

// IDSet is a set over the byte domain 0..255.
type IDSet [256]bool

// SetOf builds a set from single values.
func SetOf(vs ...int) IDSet {
	var s IDSet
	for _, v := range vs {
		s[v&0xff] = true
	}
	return s
}

// RangeSet builds the closed range lo..hi.
func RangeSet(lo, hi int) IDSet {
	var s IDSet
	for v := lo; v <= hi && v < 256; v++ {
		if v >= 0 {
			s[v] = true
		}
	}
	return s
}

func (s IDSet) Union(o IDSet) IDSet {
	for i := range s {
		s[i] = s[i] || o[i]
	}
	return s
}

func (s IDSet) Inter(o IDSet) IDSet {
	for i := range s {
		s[i] = s[i] && o[i]
	}
	return s
}

func (s IDSet) Minus(o IDSet) IDSet {
	for i := range s {
		s[i] = s[i] && !o[i]
	}
	return s
}

func (s IDSet) Compl() IDSet {
	for i := range s {
		s[i] = !s[i]
	}
	return s
}

func (s IDSet) Empty() bool {
	for _, b := range s {
		if b {
			return false
		}
	}
	return true
}

func (s IDSet) Len() int {
	n := 0
	for _, b := range s {
		if b {
			n++
		}
	}
	return n
}

func (s IDSet) Equal(o IDSet) bool { return s == o }

func (s IDSet) SubsetOf(o IDSet) bool { return s.Minus(o).Empty() }

// String renders the set in hex with ranges: {0x00,0x02,0x4e..0x6f}.
func (s IDSet) String() string {
	var parts []string
	for i := 0; i < 256; i++ {
		if !s[i] {
			continue
		}
		j := i
		for j+1 < 256 && s[j+1] {
			j++
		}
		switch {
		case j == i:
			parts = append(parts, fmt.Sprintf("0x%02x", i))
		case j == i+1:
			parts = append(parts, fmt.Sprintf("0x%02x", i), fmt.Sprintf("0x%02x", j))
		default:
			parts = append(parts, fmt.Sprintf("0x%02x..0x%02x", i, j))
		}
		i = j
	}
	return "{" + strings.Join(parts, ",") + "}"
}

// diff explains why have != want.
func diff(have, want IDSet) string {
	var parts []string
	if extra := have.Minus(want); !extra.Empty() {
		parts = append(parts, "unexpected "+extra.String())
	}
	if miss := want.Minus(have); !miss.Empty() {
		parts = append(parts, "missing "+miss.String())
	}
	return strings.Join(parts, "; ")
}
