package tables

import (
	"fmt"
	"go/ast"
	"go/types"

	"astverif/load"
	"astverif/report"
)

// OffsetsDefined decides, by tracing both functions for each of the 256 table ids, that every id for which parsePSISection reaches
// its CRC code (a call of computeCRC32 or of a function that calls it) is an id for which parsePSISectionHeader reaches every one of
// its i.Offset() calls — i.e. does not leave through an early return selected by the id before the section offsets are taken. It is
// the fallback of C09a's "offsets-defined" obligation for the case where the header parser's early return is not selected by one
// predicate call that parsePSISection repeats (the condition is spelled out, or split). Returns false when it could not decide.
func OffsetsDefined(p *load.Program, r *report.Report, rule, key string) bool {
	t := &t1{p: p, r: report.New("scratch", "quick", "other"), m: NewMachine(p)}
	tn, _ := p.Types.Scope().Lookup("PSITableID").(*types.TypeName)
	if tn == nil {
		return false
	}
	t.tid = tn.Type()
	t.qf = structField(p, "PSISectionHeader", "TableID")
	if t.qf == nil {
		return false
	}
	hd := p.Decl("parsePSISectionHeader")
	if hd == nil || hd.Body == nil {
		return false
	}
	// the Offset() calls of the header parser
	var offs []*ast.CallExpr
	ast.Inspect(hd.Body, func(x ast.Node) bool {
		if c, ok := x.(*ast.CallExpr); ok {
			if sel, ok := c.Fun.(*ast.SelectorExpr); ok && sel.Sel.Name == "Offset" && len(c.Args) == 0 {
				offs = append(offs, c)
			}
		}
		return true
	})
	if len(offs) < 2 {
		return false
	}
	var full IDSet
	t.allowDef = true // h.TableID = PSITableID(b), once, at the top of the header parser
	okH := t.traceAll("parsePSISectionHeader", t.qf, func(id int, nodes []ast.Node) {
		seen := map[*ast.CallExpr]bool{}
		for _, c := range reachedCalls(nodes) {
			seen[c] = true
		}
		all := true
		for _, c := range offs {
			if !seen[c] {
				all = false
			}
		}
		full[id] = all
	})
	if !okH {
		return false
	}
	crcFn := lookupFunc(p, "computeCRC32")
	if crcFn == nil {
		return false
	}
	reach := crcReachers(p, crcFn)
	var crc IDSet
	t.allowDef = false
	okS := t.traceAll("parsePSISection", t.qf, func(id int, nodes []ast.Node) {
		for _, c := range reachedCalls(nodes) {
			if f := calleeOf(p, c); f != nil && reach[f] {
				crc[id] = true
			}
		}
	})
	t.allowDef = false
	if !okS {
		return false
	}
	off := crc.Minus(full)
	r.Check(off.Empty() && !crc.Empty(), rule, key, p.Pos(hd.Pos()),
		fmt.Sprintf("traced for all 256 table ids: the CRC code of parsePSISection is reached for %s, and for each of them parsePSISectionHeader reaches all %d of its i.Offset() calls (%s): the offsets the CRC code uses are computed", crc.String(), len(offs), full.String()),
		fmt.Sprintf("for the ids %s parsePSISection reaches its CRC code although parsePSISectionHeader can leave before taking the section offsets (they stay zero)", off.String()))
	return true
}

// crcReachers: computeCRC32 and the package functions (other than parsePSISection) that call it, transitively.
func crcReachers(p *load.Program, crcFn *types.Func) map[*types.Func]bool {
	reach := map[*types.Func]bool{crcFn: true}
	for round := 0; round < 3; round++ {
		for _, f := range p.Files {
			if p.IsTestFile(f.Pos()) {
				continue
			}
			for _, d := range f.Decls {
				fd, ok := d.(*ast.FuncDecl)
				if !ok || fd.Body == nil {
					continue
				}
				self, _ := p.Info.Defs[fd.Name].(*types.Func)
				if self == nil || reach[self] || fd.Name.Name == "parsePSISection" {
					continue
				}
				ast.Inspect(fd.Body, func(x ast.Node) bool {
					if c, ok := x.(*ast.CallExpr); ok && reach[calleeOf(p, c)] {
						reach[self] = true
					}
					return true
				})
			}
		}
	}
	return reach
}
