package tables

import (
	"fmt"
	"go/ast"
	"go/constant"
	"go/types"
	"sort"
	"strings"

	"astverif/load"
	"astverif/report"
)

const ruleT1 = "T1"

// PSI kinds that have a parser and a DemuxerData field.
var psiKinds = []string{"EIT", "NIT", "PAT", "PMT", "SDT", "TOT"}

// spec values (ISO/IEC 13818-1 table 2-31, EN 300 468 table 2)
var specKindIDs = map[string]IDSet{
	"NIT": SetOf(0x40, 0x41),
	"PAT": SetOf(0x00),
	"PMT": SetOf(0x02),
	"SDT": SetOf(0x42, 0x46),
	"TOT": SetOf(0x73),
	"EIT": RangeSet(0x4e, 0x6f),
}

var specTableConsts = map[string]int{
	"PSITableIDPAT": 0x00, "PSITableIDPMT": 0x02, "PSITableIDBAT": 0x4a, "PSITableIDDIT": 0x7e,
	"PSITableIDRST": 0x71, "PSITableIDSIT": 0x7f, "PSITableIDST": 0x72, "PSITableIDTDT": 0x70,
	"PSITableIDTOT": 0x73, "PSITableIDNull": 0xff, "PSITableIDEITStart": 0x4e, "PSITableIDEITEnd": 0x6f,
	"PSITableIDSDTVariant1": 0x42, "PSITableIDSDTVariant2": 0x46, "PSITableIDNITVariant1": 0x40, "PSITableIDNITVariant2": 0x41,
}

func specTypeName(id int) string {
	switch {
	case id == 0x4a:
		return "BAT"
	case id >= 0x4e && id <= 0x6f:
		return "EIT"
	case id == 0x7e:
		return "DIT"
	case id == 0x40 || id == 0x41:
		return "NIT"
	case id == 0xff:
		return "Null"
	case id == 0x00:
		return "PAT"
	case id == 0x02:
		return "PMT"
	case id == 0x71:
		return "RST"
	case id == 0x42 || id == 0x46:
		return "SDT"
	case id == 0x7f:
		return "SIT"
	case id == 0x72:
		return "ST"
	case id == 0x70:
		return "TDT"
	case id == 0x73:
		return "TOT"
	}
	return "Unknown"
}

type t1 struct {
	p   *load.Program
	r   *report.Report
	m   *Machine
	tid types.Type // PSITableID
	qf  *types.Var // field PSISectionHeader.TableID
	// allowDef: the traced function may define the quantified variable once, unconditionally, before reading it
	allowDef bool
}

func (t *t1) pos(n ast.Node) string {
	if n == nil {
		return "-"
	}
	return t.p.Pos(n.Pos())
}

func (t *t1) declPos(key string) string {
	if fd := t.p.Decl(key); fd != nil {
		return t.p.Pos(fd.Pos())
	}
	return "-"
}

// predicate evaluates a bool-valued method of PSITableID (or a one-argument function) over 0..65535.
func (t *t1) predicate(key string, fn *types.Func, method bool, aboveWant bool) (IDSet, bool) {
	var s IDSet
	if fn == nil {
		t.r.Unknown(ruleT1, "anchor/"+key, "-", "predicate "+key+" not found in the package")
		return s, false
	}
	pos := t.p.Pos(fn.Pos())
	var above []string
	nAbove := 0
	for v := 0; v < 65536; v++ {
		val := IntVal(int64(v), t.tid)
		var res []Value
		var err error
		if method {
			res, err = t.m.Call(fn, &val)
		} else {
			res, err = t.m.Call(fn, nil, val)
		}
		if err != nil {
			t.r.Unknown(ruleT1, "evaluable/"+key, pos, "body of "+key+" is outside the interpreted language: "+err.Error())
			return s, false
		}
		if len(res) != 1 || res[0].K != KBool {
			t.r.Unknown(ruleT1, "evaluable/"+key, pos, key+" does not yield one boolean")
			return s, false
		}
		if v < 256 {
			s[v] = res[0].B
		} else if res[0].B != aboveWant {
			nAbove++
			if len(above) < 8 {
				above = append(above, fmt.Sprintf("0x%x", v))
			}
		}
	}
	t.r.Check(nAbove == 0, ruleT1, "above-0xff/"+key, pos,
		fmt.Sprintf("%s is constantly %v on 0x100..0xffff (65280 values evaluated): nothing beyond one byte is special", key, aboveWant),
		fmt.Sprintf("%s differs from %v for %d values above 0xff, e.g. %s", key, aboveWant, nAbove, strings.Join(above, ",")))
	return s, true
}

// traceAll traces function key for every id 0..255 with quantified variable q.
func (t *t1) traceAll(key string, q *types.Var, visit func(id int, nodes []ast.Node)) bool {
	fd := t.p.Decl(key)
	if fd == nil || fd.Body == nil {
		t.r.Unknown(ruleT1, "anchor/"+key, "-", "function "+key+" not found in the package")
		return false
	}
	if q == nil {
		t.r.Unknown(ruleT1, "anchor/"+key+"/table-id", t.pos(fd), "cannot locate the table id variable of "+key)
		return false
	}
	if err := checkQuantUseDef(t.p, q, fd, t.allowDef); err != nil {
		t.r.Unknown(ruleT1, "traceable/"+key, t.pos(fd), err.Error())
		return false
	}
	if !mentions(t.p, q, fd.Body) {
		t.r.Unknown(ruleT1, "traceable/"+key, t.pos(fd), key+" never reads the table id: the dispatch anchor is lost")
		return false
	}
	for id := 0; id < 256; id++ {
		nodes, err := trace(t.p, t.m, fd, q, IntVal(int64(id), q.Type()))
		if err != nil {
			t.r.Unknown(ruleT1, "traceable/"+key, t.pos(fd), fmt.Sprintf("dispatch of %s for id 0x%02x is outside the interpreted language: %v", key, id, err))
			return false
		}
		visit(id, nodes)
	}
	return true
}

func isBuiltinCall(p *load.Program, c *ast.CallExpr, name string) bool {
	id, ok := unparen(c.Fun).(*ast.Ident)
	if !ok {
		return false
	}
	b, ok := p.Info.Uses[id].(*types.Builtin)
	return ok && b.Name() == name
}

func namedTypeName(t types.Type) string {
	if pt, ok := t.(*types.Pointer); ok {
		t = pt.Elem()
	}
	if n, ok := t.(*types.Named); ok {
		return n.Obj().Name()
	}
	return ""
}

// T1 decides the table-id obligations.
func T1(p *load.Program, r *report.Report) {
	t := &t1{p: p, r: r, m: NewMachine(p)}
	tn, _ := p.Types.Scope().Lookup("PSITableID").(*types.TypeName)
	if tn == nil {
		r.Unknown(ruleT1, "anchor/PSITableID", "-", "type PSITableID not found")
		return
	}
	t.tid = tn.Type()
	t.qf = structField(p, "PSISectionHeader", "TableID")
	if t.qf == nil {
		r.Unknown(ruleT1, "anchor/PSISectionHeader.TableID", "-", "field PSISectionHeader.TableID not found")
		return
	}

	// ---- constants ----------------------------------------------------------------------------
	{
		var bad []string
		seen := 0
		sc := p.Types.Scope()
		for _, n := range sc.Names() {
			c, ok := sc.Lookup(n).(*types.Const)
			if !ok || !types.Identical(c.Type(), t.tid) {
				continue
			}
			want, known := specTableConsts[n]
			if !known {
				bad = append(bad, n+" is not in the checker's spec table (extend specTableConsts)")
				continue
			}
			seen++
			if v, ok := constant.Int64Val(c.Val()); !ok || int(v) != want {
				bad = append(bad, fmt.Sprintf("%s = %s, spec 0x%02x", n, c.Val().ExactString(), want))
			}
		}
		for n := range specTableConsts {
			if _, ok := sc.Lookup(n).(*types.Const); !ok {
				bad = append(bad, n+" missing")
			}
		}
		sort.Strings(bad)
		r.Check(len(bad) == 0, ruleT1, "constants/spec-values", t.p.Pos(tn.Pos()),
			fmt.Sprintf("all %d PSITableID constants carry the spec values", seen), strings.Join(bad, "; "))
	}

	// ---- predicates ---------------------------------------------------------------------------
	hasCRC, okCRC := t.predicate("hasCRC32", lookupMethod(p, "PSITableID", "hasCRC32"), true, false)
	hasSyn, okSyn := t.predicate("hasPSISyntaxHeader", lookupMethod(p, "PSITableID", "hasPSISyntaxHeader"), true, false)
	unknown, okUnk := t.predicate("isUnknown", lookupMethod(p, "PSITableID", "isUnknown"), true, true)
	stop, okStop := t.predicate("shouldStopPSIParsing", lookupFunc(p, "shouldStopPSIParsing"), false, true)

	var typeOf [256]string
	okType := false
	if fn := lookupMethod(p, "PSITableID", "Type"); fn == nil {
		r.Unknown(ruleT1, "anchor/Type", "-", "method PSITableID.Type not found")
	} else {
		okType = true
		nAbove := 0
		var ex []string
		for v := 0; v < 65536 && okType; v++ {
			val := IntVal(int64(v), t.tid)
			res, err := t.m.Call(fn, &val)
			if err != nil || len(res) != 1 || res[0].K != KStr {
				d := "Type() does not yield one string constant"
				if err != nil {
					d = "body of Type() is outside the interpreted language: " + err.Error()
				}
				r.Unknown(ruleT1, "evaluable/Type", p.Pos(fn.Pos()), d)
				okType = false
				break
			}
			if v < 256 {
				typeOf[v] = res[0].S
			} else if res[0].S != "Unknown" {
				nAbove++
				if len(ex) < 8 {
					ex = append(ex, fmt.Sprintf("0x%x→%s", v, res[0].S))
				}
			}
		}
		if okType {
			r.Check(nAbove == 0, ruleT1, "above-0xff/Type", p.Pos(fn.Pos()),
				"Type() is \"Unknown\" on 0x100..0xffff", fmt.Sprintf("Type() names %d ids above 0xff: %s", nAbove, strings.Join(ex, ",")))
			var bad []string
			for id := 0; id < 256; id++ {
				if typeOf[id] != specTypeName(id) {
					bad = append(bad, fmt.Sprintf("0x%02x: %q, spec %q", id, typeOf[id], specTypeName(id)))
				}
			}
			r.Check(len(bad) == 0, ruleT1, "d/Type-spec-names", p.Pos(fn.Pos()),
				"Type() returns the spec name for each of the 256 ids", strings.Join(bad, "; "))
		}
	}

	// ---- parse dispatch ------------------------------------------------------------------------
	parsed := map[string]*IDSet{}
	kindOfParser := map[*types.Func]string{}
	for _, k := range psiKinds {
		parsed[k] = &IDSet{}
		if fn := lookupFunc(p, "parse"+k+"Section"); fn != nil {
			kindOfParser[fn] = k
		} else {
			r.Unknown(ruleT1, "anchor/parse"+k+"Section", "-", "parser not found")
		}
	}
	var derefSH, multiParse IDSet
	var storeBad []string
	okParse := false
	if fd := p.Decl("parsePSISectionSyntaxData"); fd != nil {
		var sh *types.Var
		for i := 0; ; i++ {
			v := paramVar(p, fd, i)
			if v == nil {
				break
			}
			if namedTypeName(v.Type()) == "PSISectionSyntaxHeader" {
				sh = v
			}
		}
		if sh == nil {
			r.Unknown(ruleT1, "anchor/parsePSISectionSyntaxData/sh", t.pos(fd), "no parameter of type *PSISectionSyntaxHeader")
		}
		okParse = t.traceAll("parsePSISectionSyntaxData", t.qf, func(id int, nodes []ast.Node) {
			n := 0
			for _, nd := range nodes {
				ast.Inspect(nd, func(x ast.Node) bool {
					switch x := x.(type) {
					case *ast.CallExpr:
						if k, ok := kindOfParser[calleeOf(p, x)]; ok {
							parsed[k][id] = true
							n++
						}
					case *ast.AssignStmt:
						if len(x.Rhs) == 1 {
							if c, ok := unparen(x.Rhs[0]).(*ast.CallExpr); ok {
								if k, ok := kindOfParser[calleeOf(p, c)]; ok {
									f := fieldOf(p, x.Lhs[0])
									if f == nil || f.Name() != k || ownerOf(p, f) != "PSISectionSyntaxData" {
										storeBad = append(storeBad, fmt.Sprintf("0x%02x: result of parse%sSection stored in %s", id, k, types.ExprString(x.Lhs[0])))
									}
								}
							}
						}
					case *ast.BinaryExpr:
						// sh == nil / sh != nil does not dereference
						if isNilCompare(p, x, sh) {
							return false
						}
					case *ast.Ident:
						if sh != nil && p.Info.Uses[x] == sh {
							derefSH[id] = true
						}
					}
					return true
				})
			}
			if n > 1 {
				multiParse[id] = true
			}
		})
	} else {
		r.Unknown(ruleT1, "anchor/parsePSISectionSyntaxData", "-", "function not found")
	}
	allParsed := IDSet{}
	for _, k := range psiKinds {
		allParsed = allParsed.Union(*parsed[k])
	}

	// ---- delivery ------------------------------------------------------------------------------
	delivered := map[string]*IDSet{}
	for _, k := range psiKinds {
		delivered[k] = &IDSet{}
	}
	var multiDeliver IDSet
	var srcBad []string
	okDeliver := t.traceAll("PSIData.toData", t.qf, func(id int, nodes []ast.Node) {
		n := 0
		for _, c := range reachedCalls(nodes) {
			if !isBuiltinCall(p, c, "append") || len(c.Args) < 2 {
				continue
			}
			for _, a := range c.Args[1:] {
				e := unparen(a)
				if u, ok := e.(*ast.UnaryExpr); ok {
					e = unparen(u.X)
				}
				lit, ok := e.(*ast.CompositeLit)
				if !ok {
					continue
				}
				if tv, ok := p.Info.Types[lit]; !ok || namedTypeName(tv.Type) != "DemuxerData" {
					continue
				}
				for _, el := range lit.Elts {
					kv, ok := el.(*ast.KeyValueExpr)
					if !ok {
						srcBad = append(srcBad, fmt.Sprintf("0x%02x: positional DemuxerData literal", id))
						continue
					}
					kid, _ := kv.Key.(*ast.Ident)
					if kid == nil {
						continue
					}
					for _, k := range psiKinds {
						if kid.Name == k {
							delivered[k][id] = true
							n++
							f := fieldOf(p, kv.Value)
							if f == nil || f.Name() != k || ownerOf(p, f) != "PSISectionSyntaxData" {
								srcBad = append(srcBad, fmt.Sprintf("0x%02x: DemuxerData.%s filled from %s", id, k, types.ExprString(kv.Value)))
							}
						}
					}
				}
			}
		}
		// the DemuxerData built first and its table field set by assignment (`dd.EIT = data.EIT; ds = append(ds, dd)`)
		appended := false
		for _, c := range reachedCalls(nodes) {
			if isBuiltinCall(p, c, "append") && len(c.Args) >= 2 {
				appended = true
			}
		}
		if appended {
			for _, nd := range nodes {
				as, ok := nd.(*ast.AssignStmt)
				if !ok || len(as.Lhs) != 1 || len(as.Rhs) != 1 {
					continue
				}
				lf := fieldOf(p, as.Lhs[0])
				if lf == nil || ownerOf(p, lf) != "DemuxerData" {
					continue
				}
				for _, k := range psiKinds {
					if lf.Name() == k {
						delivered[k][id] = true
						n++
						f := fieldOf(p, as.Rhs[0])
						if f == nil || f.Name() != k || ownerOf(p, f) != "PSISectionSyntaxData" {
							srcBad = append(srcBad, fmt.Sprintf("0x%02x: DemuxerData.%s filled from %s", id, k, types.ExprString(as.Rhs[0])))
						}
					}
				}
			}
		}
		if n > 1 {
			multiDeliver[id] = true
		}
	})
	allDelivered := IDSet{}
	for _, k := range psiKinds {
		allDelivered = allDelivered.Union(*delivered[k])
	}

	// ---- CRC check and syntax header in the callers ---------------------------------------------
	var crcChecked IDSet
	crcFn := lookupFunc(p, "computeCRC32")
	// computeCRC32 itself, or a package function that calls it (the comparison moved into a helper; that the helper lets only a
	// matching CRC through is rule C09a's part)
	crcReach := map[*types.Func]bool{}
	if crcFn != nil {
		crcReach[crcFn] = true
		for round := 0; round < 3; round++ {
			for _, f := range p.Files {
				if p.IsTestFile(f.Pos()) {
					continue
				}
				for _, d := range f.Decls {
					fd, ok := d.(*ast.FuncDecl)
					if !ok || fd.Body == nil {
						continue
					}
					self, _ := p.Info.Defs[fd.Name].(*types.Func)
					if self == nil || crcReach[self] || fd.Name.Name == "parsePSISection" {
						continue
					}
					ast.Inspect(fd.Body, func(x ast.Node) bool {
						if c, ok := x.(*ast.CallExpr); ok && crcReach[calleeOf(p, c)] {
							crcReach[self] = true
						}
						return true
					})
				}
			}
		}
	}
	okCrcTrace := t.traceAll("parsePSISection", t.qf, func(id int, nodes []ast.Node) {
		for _, c := range reachedCalls(nodes) {
			if f := calleeOf(p, c); f != nil && crcReach[f] {
				crcChecked[id] = true
			}
		}
	})
	var shParsed IDSet
	shArgOK := false
	shFn := lookupFunc(p, "parsePSISectionSyntaxHeader")
	dataFn := lookupFunc(p, "parsePSISectionSyntaxData")
	var shStoredIn *types.Var
	okShTrace := t.traceAll("parsePSISectionSyntax", t.qf, func(id int, nodes []ast.Node) {
		for _, nd := range nodes {
			ast.Inspect(nd, func(x ast.Node) bool {
				switch x := x.(type) {
				case *ast.AssignStmt:
					if len(x.Rhs) == 1 {
						if c, ok := unparen(x.Rhs[0]).(*ast.CallExpr); ok && shFn != nil && calleeOf(p, c) == shFn {
							shParsed[id] = true
							shStoredIn = fieldOf(p, x.Lhs[0])
						}
					}
				case *ast.CallExpr:
					if dataFn != nil && calleeOf(p, x) == dataFn && len(x.Args) >= 3 {
						if f := fieldOf(p, x.Args[2]); f != nil && f.Name() == "Header" && ownerOf(p, f) == "PSISectionSyntax" {
							shArgOK = true
						}
					}
				}
				return true
			})
		}
	})

	// ---- writer side -----------------------------------------------------------------------------
	var writable IDSet
	okWritable := false
	if fd := p.Decl("writePSISection"); fd == nil {
		r.Unknown(ruleT1, "anchor/writePSISection", "-", "function not found")
	} else if err := checkQuantUse(p, t.qf, fd); err != nil {
		r.Unknown(ruleT1, "traceable/writePSISection", t.pos(fd), err.Error())
	} else {
		var adm *ast.IfStmt
		for _, s := range fd.Body.List {
			if !mentions(p, t.qf, s) {
				continue
			}
			if is, ok := s.(*ast.IfStmt); ok && is.Init == nil && is.Else == nil && mentions(p, t.qf, is.Cond) && len(is.Body.List) > 0 {
				if ret, ok := is.Body.List[len(is.Body.List)-1].(*ast.ReturnStmt); ok && len(ret.Results) > 0 {
					last := unparen(ret.Results[len(ret.Results)-1])
					if id, isId := last.(*ast.Ident); !(isId && id.Name == "nil") {
						adm = is
					}
				}
			}
			break // only the first statement touching the table id qualifies
		}
		if adm == nil && len(fd.Body.List) > 0 {
			// another spelling of the admission (a switch with a rejecting default, a guard on a local copy): an id is writable
			// when tracing the function for it reaches the function's last statement, i.e. no branch on the id returned before
			last := fd.Body.List[len(fd.Body.List)-1]
			okWritable = t.traceAll("writePSISection", t.qf, func(id int, nodes []ast.Node) {
				for _, nd := range nodes {
					if nd == ast.Node(last) {
						writable[id] = true
					}
				}
			})
		} else if adm == nil {
			r.Unknown(ruleT1, "f/writable-set", t.pos(fd), "the first statement of writePSISection that reads the table id is not an `if … { return …, <error> }` admission test")
		} else {
			okWritable = true
			for id := 0; id < 256; id++ {
				b, err := t.m.EvalBool(adm.Cond, Env{t.qf: IntVal(int64(id), t.qf.Type())})
				if err != nil {
					r.Unknown(ruleT1, "f/writable-set", t.pos(adm), "admission test is outside the interpreted language: "+err.Error())
					okWritable = false
					break
				}
				writable[id] = !b
			}
		}
	}
	type disp map[int][]string
	dispatchOf := func(key string, q *types.Var, callees map[string]string) (disp, []string, bool) {
		fns := map[*types.Func]string{}
		for name := range callees {
			if fn := lookupFunc(p, name); fn != nil {
				fns[fn] = name
			} else {
				r.Unknown(ruleT1, "anchor/"+name, "-", "function not found")
			}
		}
		d := disp{}
		var argBad []string
		ok := t.traceAll(key, q, func(id int, nodes []ast.Node) {
			for _, c := range reachedCalls(nodes) {
				if name, ok := fns[calleeOf(p, c)]; ok {
					d[id] = append(d[id], name)
					if len(c.Args) > 0 {
						f := fieldOf(p, c.Args[len(c.Args)-1])
						if f == nil || f.Name() != callees[name] || ownerOf(p, f) != "PSISectionSyntaxData" {
							argBad = append(argBad, fmt.Sprintf("0x%02x: %s receives %s, want the %s field", id, name, types.ExprString(c.Args[len(c.Args)-1]), callees[name]))
						}
					}
				}
			}
		})
		return d, argBad, ok
	}
	checkDisp := func(clause, key string, d disp, argBad []string, pat, pmt string) {
		var bad []string
		for id := 0; id < 256; id++ {
			want := ""
			switch id {
			case 0x00:
				want = pat
			case 0x02:
				want = pmt
			}
			have := strings.Join(d[id], "+")
			if have != want {
				bad = append(bad, fmt.Sprintf("0x%02x→%q (want %q)", id, have, want))
			}
		}
		bad = append(bad, argBad...)
		r.Check(len(bad) == 0, ruleT1, clause, t.declPos(key),
			fmt.Sprintf("%s sends 0x00 to %s, 0x02 to %s and no other id anywhere (256 ids traced)", key, pat, pmt), strings.Join(bad, "; "))
	}
	if d, ab, ok := dispatchOf("calcPSISectionLength", t.qf, map[string]string{"calcPATSectionLength": "PAT", "calcPMTSectionLength": "PMT"}); ok {
		checkDisp("f/calc-dispatch", "calcPSISectionLength", d, ab, "calcPATSectionLength", "calcPMTSectionLength")
	}
	// the writer's dispatcher: the function that calls writePATSection (writePSISectionSyntaxData today; its caller when that
	// function is written out in place)
	dispName := ""
	if wpat := lookupFunc(p, "writePATSection"); wpat != nil {
		for _, f := range p.Files {
			if p.IsTestFile(f.Pos()) {
				continue
			}
			for _, dcl := range f.Decls {
				fd, ok := dcl.(*ast.FuncDecl)
				if !ok || fd.Body == nil || fd.Recv != nil {
					continue
				}
				ast.Inspect(fd.Body, func(x ast.Node) bool {
					if c, ok := x.(*ast.CallExpr); ok && calleeOf(p, c) == wpat {
						if dispName == "" {
							dispName = fd.Name.Name
						} else if dispName != fd.Name.Name {
							dispName = "?"
						}
					}
					return true
				})
			}
		}
	}
	if dispName == "" || dispName == "?" {
		dispName = "writePSISectionSyntaxData"
	}
	if fd := p.Decl(dispName); fd != nil {
		var q *types.Var
		qi := -1
		for i := 0; ; i++ {
			v := paramVar(p, fd, i)
			if v == nil {
				break
			}
			if types.Identical(v.Type(), t.tid) {
				q, qi = v, i
			}
		}
		if q == nil && mentions(p, t.qf, fd.Body) {
			q = t.qf // no table-id parameter: the dispatch is on the section header's TableID itself
		}
		if d, ab, ok := dispatchOf(dispName, q, map[string]string{"writePATSection": "PAT", "writePMTSection": "PMT"}); ok {
			checkDisp("f/write-dispatch", dispName, d, ab, "writePATSection", "writePMTSection")
		}
		// the caller passes the header's table id
		nCalls, okArg := 0, true
		self := lookupFunc(p, dispName)
		if q == t.qf {
			r.OK(ruleT1, "f/write-tableid-argument", t.pos(fd), dispName+" dispatches on Header.TableID of the section itself (no table-id parameter to pass)")
			self = nil
		}
		var at ast.Node
		for _, f := range p.Files {
			if p.IsTestFile(f.Pos()) {
				continue
			}
			ast.Inspect(f, func(x ast.Node) bool {
				if c, ok := x.(*ast.CallExpr); ok && self != nil && calleeOf(p, c) == self {
					nCalls++
					at = c
					if qi < 0 || qi >= len(c.Args) || fieldOf(p, c.Args[qi]) != t.qf {
						okArg = false
					}
				}
				return true
			})
		}
		if q != t.qf {
			r.Check(nCalls > 0 && okArg, ruleT1, "f/write-tableid-argument", t.pos(at),
				fmt.Sprintf("all %d call(s) of %s pass Header.TableID as the dispatch id", nCalls, dispName),
				"a call of "+dispName+" does not pass the section header's TableID (or there is no call)")
		}
	} else {
		r.Unknown(ruleT1, "anchor/writePSISectionSyntaxData", "-", "function not found")
	}

	// ---- obligations -----------------------------------------------------------------------------
	specCRC := SetOf(0x00, 0x02, 0x40, 0x41, 0x42, 0x46, 0x73).Union(RangeSet(0x4e, 0x6f))
	specSyn := SetOf(0x00, 0x02, 0x40, 0x41, 0x42, 0x46).Union(RangeSet(0x4e, 0x6f))
	specNamed := SetOf(0x4a, 0x7e, 0x71, 0x7f, 0x72, 0x70, 0x73, 0xff, 0x00, 0x02, 0x40, 0x41, 0x42, 0x46).Union(RangeSet(0x4e, 0x6f))

	// (a)
	if okCRC {
		r.Check(hasCRC.Equal(specCRC), ruleT1, "a/hasCRC32-spec-set", t.declPos("PSITableID.hasCRC32"),
			"hasCRC32 = "+specCRC.String()+" over all 256 ids", "hasCRC32 = "+hasCRC.String()+": "+diff(hasCRC, specCRC))
	}
	if okSyn {
		r.Check(hasSyn.Equal(specSyn), ruleT1, "a/hasPSISyntaxHeader-spec-set", t.declPos("PSITableID.hasPSISyntaxHeader"),
			"hasPSISyntaxHeader = "+specSyn.String(), "hasPSISyntaxHeader = "+hasSyn.String()+": "+diff(hasSyn, specSyn))
	}
	// (b)
	if okParse && okCRC {
		for _, k := range psiKinds {
			off := parsed[k].Minus(hasCRC)
			r.Check(off.Empty(), ruleT1, "b/parsed-subset-crc/"+k, t.declPos("parsePSISectionSyntaxData"),
				fmt.Sprintf("every id that reaches parse%sSection %s has a CRC32", k, parsed[k].String()),
				fmt.Sprintf("ids %s reach parse%sSection but hasCRC32 is false: parsed without CRC check", off.String(), k))
		}
	}
	if okParse && okCRC && okCrcTrace && okStop {
		want := hasCRC.Minus(stop)
		okc := crcChecked.Equal(want) && allParsed.SubsetOf(crcChecked)
		r.Check(okc, ruleT1, "b/crc-compare-reached", t.declPos("parsePSISection"),
			"parsePSISection reaches computeCRC32 exactly for the hasCRC32 ids, which include every parsed id",
			"computeCRC32 reached for "+crcChecked.String()+": "+diff(crcChecked, want)+"; parsed but unchecked "+allParsed.Minus(crcChecked).String())
	}
	if okParse && okDeliver {
		for _, k := range psiKinds {
			r.Check(delivered[k].Equal(*parsed[k]), ruleT1, "b/delivered-eq-parsed/"+k, t.declPos("PSIData.toData"),
				fmt.Sprintf("toData appends a DemuxerData with %s set exactly for the parsed ids %s", k, parsed[k].String()),
				fmt.Sprintf("delivered[%s]=%s parsed[%s]=%s: %s", k, delivered[k].String(), k, parsed[k].String(), diff(*delivered[k], *parsed[k])))
		}
		off := allDelivered.Minus(allParsed)
		r.Check(off.Empty(), ruleT1, "b/delivered-subset-parsed", t.declPos("PSIData.toData"),
			"nothing is delivered that was not parsed", "ids "+off.String()+" are delivered but never parsed")
		r.Check(multiDeliver.Empty(), ruleT1, "b/delivered-at-most-once", t.declPos("PSIData.toData"),
			"for each of the 256 ids at most one append with a table field is reached", "ids "+multiDeliver.String()+" are delivered twice")
		r.Check(len(srcBad) == 0, ruleT1, "b/delivered-matching-field", t.declPos("PSIData.toData"),
			"each DemuxerData.K is filled from Syntax.Data.K", strings.Join(dedup(srcBad), "; "))
	}
	if okParse {
		r.Check(len(storeBad) == 0, ruleT1, "b/parsed-stored-in-matching-field", t.declPos("parsePSISectionSyntaxData"),
			"each parseKSection result is stored in PSISectionSyntaxData.K", strings.Join(dedup(storeBad), "; "))
	}
	// (c)
	if okParse && okSyn {
		off := derefSH.Minus(hasSyn)
		r.Check(off.Empty(), ruleT1, "c/deref-sh-subset-syntax-header", t.declPos("parsePSISectionSyntaxData"),
			"the syntax header pointer is read only for ids "+derefSH.String()+" ⊆ hasPSISyntaxHeader",
			"ids "+off.String()+" read sh.… although no syntax header is parsed for them: nil dereference")
	}
	if okShTrace && okSyn {
		okh := shParsed.Equal(hasSyn) && shArgOK && shStoredIn != nil && shStoredIn.Name() == "Header" && ownerOf(p, shStoredIn) == "PSISectionSyntax"
		r.Check(okh, ruleT1, "c/syntax-header-parsed-iff-predicate", t.declPos("parsePSISectionSyntax"),
			"parsePSISectionSyntax stores a parsed header in s.Header exactly for the hasPSISyntaxHeader ids and passes s.Header on",
			"syntax header parsed for "+shParsed.String()+": "+diff(shParsed, hasSyn)+fmt.Sprintf("; passes s.Header: %v", shArgOK))
	}
	// (d)
	if okParse {
		for _, k := range psiKinds {
			r.Check(parsed[k].Equal(specKindIDs[k]), ruleT1, "d/parsed-spec/"+k, t.declPos("parsePSISectionSyntaxData"),
				fmt.Sprintf("parse%sSection is reached exactly for %s", k, specKindIDs[k].String()),
				fmt.Sprintf("parse%sSection reached for %s: %s", k, parsed[k].String(), diff(*parsed[k], specKindIDs[k])))
		}
	}
	if okParse && okType {
		for _, k := range psiKinds {
			var named IDSet
			for id := 0; id < 256; id++ {
				named[id] = typeOf[id] == k
			}
			r.Check(named.Equal(*parsed[k]), ruleT1, "d/type-agrees/"+k, t.declPos("PSITableID.Type"),
				fmt.Sprintf("Type()==%q exactly for the ids dispatched to parse%sSection", k, k),
				fmt.Sprintf("Type()==%q for %s but parse%sSection is reached for %s: %s", k, named.String(), k, parsed[k].String(), diff(named, *parsed[k])))
		}
	}
	// (e)
	if okUnk {
		want := specNamed.Compl()
		r.Check(unknown.Equal(want), ruleT1, "e/isUnknown-complement-of-named", t.declPos("PSITableID.isUnknown"),
			fmt.Sprintf("isUnknown is true exactly for the %d ids without a named constant or range", want.Len()),
			"isUnknown differs from the complement of the named ids: "+diff(unknown, want))
	}
	if okUnk && okStop {
		want := unknown.Union(SetOf(0xff))
		r.Check(stop.Equal(want), ruleT1, "e/stop-eq-unknown-plus-null", t.declPos("shouldStopPSIParsing"),
			"shouldStopPSIParsing = isUnknown ∪ {0xff}", "shouldStopPSIParsing differs: "+diff(stop, want))
	}
	if okStop && okCRC && okParse {
		off := stop.Inter(hasCRC.Union(allParsed))
		r.Check(off.Empty(), ruleT1, "e/stop-disjoint-from-parsed-and-crc", t.declPos("shouldStopPSIParsing"),
			"no id that is parsed or carries a CRC32 stops the section loop", "ids "+off.String()+" stop parsing although they are parsed/CRC-protected")
	}
	// (f)
	if okWritable {
		r.Check(writable.Equal(SetOf(0x00, 0x02)), ruleT1, "f/writable-set", t.declPos("writePSISection"),
			"writePSISection admits exactly {0x00,0x02}", "writePSISection admits "+writable.String()+": "+diff(writable, SetOf(0, 2)))
		if okCRC && okSyn {
			off := writable.Minus(hasCRC.Inter(hasSyn))
			r.Check(off.Empty(), ruleT1, "f/writable-subset-crc-and-syntax", t.declPos("writePSISection"),
				"every writable id has a syntax header and a CRC32", "writable ids "+off.String()+" lack a syntax header or CRC32")
		}
	}
	// (g)
	if okParse {
		r.Check(multiParse.Empty(), ruleT1, "g/parse-dispatch-disjoint", t.declPos("parsePSISectionSyntaxData"),
			"no id reaches two parsers (switch and EIT range test are disjoint)", "ids "+multiParse.String()+" reach more than one parser")
	}
	total := 0
	for _, k := range psiKinds {
		total += parsed[k].Len()
	}
	r.Floor(ruleT1, "ids dispatched to a section parser", total, 6)
	r.Count("t1_ids_parsed", total)
	r.Count("t1_predicate_evaluations", 5*65536)
}

func isNilCompare(p *load.Program, b *ast.BinaryExpr, v *types.Var) bool {
	if v == nil {
		return false
	}
	isV := func(e ast.Expr) bool {
		id, ok := unparen(e).(*ast.Ident)
		return ok && p.Info.Uses[id] == v
	}
	isNil := func(e ast.Expr) bool {
		id, ok := unparen(e).(*ast.Ident)
		if !ok {
			return false
		}
		_, isN := p.Info.Uses[id].(*types.Nil)
		return isN
	}
	return (isV(b.X) && isNil(b.Y)) || (isNil(b.X) && isV(b.Y))
}

func dedup(xs []string) []string {
	seen := map[string]bool{}
	var out []string
	for _, x := range xs {
		if !seen[x] {
			seen[x] = true
			out = append(out, x)
		}
	}
	if len(out) > 12 {
		out = append(out[:12], fmt.Sprintf("… %d more", len(out)-12))
	}
	return out
}
