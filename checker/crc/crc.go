// Package crc proves, by static analysis only, that the PSI checksum of the library under analysis
// is CRC-32/MPEG-2 (polynomial 0x04C11DB7, initial value 0xFFFFFFFF, MSB first, not reflected, no
// final XOR) for every input and every chunking of the input.
//
// Nothing of the analysed package is ever executed: the table constants are read from the
// type-checker's constant values, the byte-step expression is interpreted symbolically from the
// AST in the GF(2)-affine bit-vector domain of package bitdom, and immutability of the table is
// checked on go/ssa. The oracle is the bit-serial definition of the CRC coded here (refEntry,
// refStep).
//
// Obligations:
//
//	F1  tableCRC32 is an immutable [256]uint32 initialised by 256 constants
//	F2  table[i] == (i * x^32) mod P   for each i (own polynomial division)
//	F3  the loop body of updateCRC32 == 8 bit-serial steps, as 32 affine forms over the 40 input bits
//	F4  updateCRC32 is a pure left fold of that step over the slice (=> chunking invariance)
//	F5  computeCRC32(bs) == updateCRC32(0xFFFFFFFF, bs), returned unmodified
//	F6  residue-0 corollary + the endianness facts of parser and writer it relies on
package crc

import (
	"fmt"
	"go/ast"
	"go/constant"
	"go/token"
	"go/types"
	"sort"
	"strings"

	"golang.org/x/tools/go/ssa"

	"astverif/bitdom"
	"astverif/load"
	"astverif/report"
	"astverif/ssau"
)

// Parameters of CRC-32/MPEG-2.
const (
	Poly = 0x04C11DB7
	Init = 0xFFFFFFFF
)

const (
	tableName   = "tableCRC32"
	updateName  = "updateCRC32"
	computeName = "computeCRC32"
	parseName   = "parseCRC32"
	writeName   = "writePSISection"
)

// refEntry is the oracle for one table entry: (i * x^32) mod (x^32 + Poly), by MSB-first
// bitwise polynomial division.
func refEntry(i int) uint32 {
	c := uint32(i) << 24
	for k := 0; k < 8; k++ {
		if c&0x80000000 != 0 {
			c = (c << 1) ^ Poly
		} else {
			c <<= 1
		}
	}
	return c
}

// refStep is the oracle for one byte: 8 bit-serial steps, input bit 7 first, in the affine domain.
func refStep(crc, b bitdom.Vec) bitdom.Vec {
	c := crc
	for i := 7; i >= 0; i-- {
		fb := c[31].Xor(b[i])
		c = c.Shl(1)
		for j := 0; j < 32; j++ {
			c[j] = c[j].Xor(fb.MulConst(Poly>>uint(j)&1 == 1))
		}
	}
	return c
}

type prover struct {
	p *load.Program
	r *report.Report

	tableObj *types.Var
	table    []uint32 // the 256 constants of the literal (nil if they could not be read)
	tablePos string
	basis    *[8]uint32 // T[1<<k], set only when the literal's constants were shown GF(2)-linear
	basisWhy string     // why basis is nil
	update   *types.Func
}

// Prove generates the obligations F1..F6.
func Prove(p *load.Program, r *report.Report) {
	pr := &prover{p: p, r: r}
	if f, ok := p.Types.Scope().Lookup(updateName).(*types.Func); ok {
		pr.update = f
	}
	pr.f1()
	pr.f2()
	pr.linearity()
	shape := pr.f4()
	pr.f3(shape)
	pr.f5()
	pr.f6()
	r.Extra["oracle"] = "bit-serial CRC-32/MPEG-2 (poly 0x04C11DB7, MSB first) coded in checker/crc: refEntry (table), refStep (byte step over GF(2)-affine forms)"
	r.Extra["exhaustive_over"] = "F2: all 256 table entries; F3: all 2^40 (state, byte) pairs, symbolically (32 affine forms over 40 atoms)"
}

func (pr *prover) pos(n ast.Node) string {
	if n == nil {
		return ""
	}
	return pr.p.Pos(n.Pos())
}

func unparen(e ast.Expr) ast.Expr {
	for {
		p, ok := e.(*ast.ParenExpr)
		if !ok {
			return e
		}
		e = p.X
	}
}

// useOf returns the object an identifier expression refers to (nil if e is not an identifier).
func (pr *prover) useOf(e ast.Expr) types.Object {
	id, ok := unparen(e).(*ast.Ident)
	if !ok {
		return nil
	}
	if o := pr.p.Info.Uses[id]; o != nil {
		return o
	}
	return pr.p.Info.Defs[id]
}

// constU64 returns the exact unsigned value of a constant expression.
func (pr *prover) constU64(e ast.Expr) (uint64, bool) {
	tv, ok := pr.p.Info.Types[e]
	if !ok || tv.Value == nil {
		return 0, false
	}
	v := constant.ToInt(tv.Value)
	if v.Kind() != constant.Int {
		return 0, false
	}
	return constant.Uint64Val(v)
}

func isBasic(t types.Type, k types.BasicKind) bool {
	b, ok := t.(*types.Basic)
	return ok && b.Kind() == k
}

func isByteSlice(t types.Type) bool {
	s, ok := t.(*types.Slice)
	return ok && isBasic(s.Elem(), types.Uint8)
}

// ---------------------------------------------------------------------------------------------
// F1: the table is an immutable [256]uint32 of constants

func (pr *prover) f1() {
	r, p := pr.r, pr.p
	obj, _ := p.Types.Scope().Lookup(tableName).(*types.Var)
	if obj == nil {
		r.Unknown("F1", tableName+"/declaration", "", "package-level variable "+tableName+" not found — anchor lost")
		return
	}
	pr.tableObj = obj
	pr.tablePos = p.Pos(obj.Pos())
	arr, isArr := obj.Type().(*types.Array)
	r.Check(isArr && arr.Len() == 256 && isBasic(arr.Elem(), types.Uint32), "F1", tableName+"/is-package-var-[256]uint32", pr.tablePos,
		"package-level variable of type [256]uint32", "type is "+obj.Type().String()+", want [256]uint32")

	// the initialiser
	var initExpr ast.Expr
	found := false
	for _, f := range p.Files {
		for _, d := range f.Decls {
			gd, ok := d.(*ast.GenDecl)
			if !ok || gd.Tok != token.VAR {
				continue
			}
			for _, s := range gd.Specs {
				vs := s.(*ast.ValueSpec)
				for i, n := range vs.Names {
					if p.Info.Defs[n] == types.Object(obj) {
						found = true
						if len(vs.Values) == len(vs.Names) {
							initExpr = vs.Values[i]
						}
					}
				}
			}
		}
	}
	key := tableName + "/literal-has-256-constant-elements"
	cl, _ := unparenOrNil(initExpr).(*ast.CompositeLit)
	switch {
	case !found:
		r.Unknown("F1", key, pr.tablePos, "declaring var spec not found in the syntax")
	case cl == nil:
		r.Bad("F1", key, pr.tablePos, "the variable is not initialised by a composite literal (one-to-one in its var spec)")
	default:
		var vals []uint32
		bad := ""
		for i, e := range cl.Elts {
			if _, kv := e.(*ast.KeyValueExpr); kv {
				bad = fmt.Sprintf("element %d is keyed (index: value); only positional literals are interpreted", i)
				break
			}
			v, ok := pr.constU64(e)
			if !ok || v > 0xFFFFFFFF {
				bad = fmt.Sprintf("element %d is not a uint32 constant", i)
				break
			}
			vals = append(vals, uint32(v))
		}
		lt := p.Info.Types[cl].Type
		switch {
		case bad != "" && strings.Contains(bad, "keyed"):
			r.Unknown("F1", key, pr.pos(cl), bad)
		case bad != "":
			r.Bad("F1", key, pr.pos(cl), bad)
		case len(vals) != 256:
			r.Bad("F1", key, pr.pos(cl), fmt.Sprintf("literal has %d elements, want 256", len(vals)))
		case lt == nil || !types.Identical(lt, obj.Type()):
			r.Bad("F1", key, pr.pos(cl), "literal type differs from the variable type")
		default:
			pr.table = vals
			r.OK("F1", key, pr.pos(cl), "positional composite literal, 256 elements, each a constant known to go/types")
		}
	}
	r.Count("table_constants_read", len(pr.table))
	pr.f1Immutable()
}

func unparenOrNil(e ast.Expr) ast.Expr {
	if e == nil {
		return nil
	}
	return unparen(e)
}

// f1Immutable scans every SSA function of the root package for uses of the global.
func (pr *prover) f1Immutable() {
	r, p := pr.r, pr.p
	key := tableName + "/immutable"
	if p.SSAPkg == nil {
		r.Unknown("F1", key, pr.tablePos, "no SSA available")
		return
	}
	g := p.SSAPkg.Var(tableName)
	if g == nil {
		r.Unknown("F1", key, pr.tablePos, "SSA global not found")
		return
	}
	initFn := p.SSAPkg.Func("init")
	funcs := p.SrcFuncs()
	seen := map[*ssa.Function]bool{}
	for _, f := range funcs {
		seen[f] = true
	}
	var addRec func(f *ssa.Function)
	addRec = func(f *ssa.Function) {
		if f == nil || seen[f] {
			return
		}
		seen[f] = true
		if f.Blocks != nil {
			funcs = append(funcs, f)
		}
		for _, a := range f.AnonFuncs {
			addRec(a)
		}
	}
	addRec(initFn)
	if initFn != nil {
		for _, a := range initFn.AnonFuncs { // closures of package-level initialiser expressions
			addRec(a)
		}
	}

	violations, reads := 0, 0
	initStores := map[int64]bool{}
	bad := func(f *ssa.Function, in ssa.Instruction, what string) {
		violations++
		r.Bad("F1", key+"/"+load.FuncName(f), p.Pos(in.Pos()), what+" in "+load.FuncName(f)+": "+in.String())
	}
	for _, f := range funcs {
		for _, b := range f.Blocks {
			for _, in := range b.Instrs {
				uses := false
				for _, op := range in.Operands(nil) {
					if *op == ssa.Value(g) {
						uses = true
					}
				}
				if !uses {
					continue
				}
				switch x := in.(type) {
				case *ssa.DebugRef:
				case *ssa.UnOp:
					if x.Op == token.MUL && x.X == ssa.Value(g) {
						reads++ // whole-array load: a value copy, cannot alias the table
					} else {
						bad(f, in, "unexpected use of the table")
					}
				case *ssa.IndexAddr:
					if x.X != ssa.Value(g) {
						bad(f, in, "table address used as an index operand")
						continue
					}
					for _, ref := range *x.Referrers() {
						switch y := ref.(type) {
						case *ssa.DebugRef:
						case *ssa.UnOp:
							if y.Op == token.MUL {
								reads++
							} else {
								bad(f, y, "element address used by a non-load")
							}
						case *ssa.Store:
							cv, isConst := y.Val.(*ssa.Const)
							idx, idxConst := ssau.ConstInt(x.Index)
							if f == initFn && y.Addr == ssa.Value(x) && isConst && idxConst && cv.Value != nil {
								want, have := uint32(0), false
								if pr.table != nil && idx >= 0 && idx < int64(len(pr.table)) {
									want, have = pr.table[idx], true
								}
								if got, exact := constant.Uint64Val(constant.ToInt(cv.Value)); have && (!exact || uint32(got) != want || got > 0xFFFFFFFF) {
									bad(f, y, fmt.Sprintf("initialiser store at index %d differs from the literal constant %#08x", idx, want))
								} else if initStores[idx] {
									bad(f, y, fmt.Sprintf("second initialiser store to index %d", idx))
								} else {
									initStores[idx] = true
								}
							} else {
								bad(f, y, "store to a table element")
							}
						default:
							bad(f, ref, "element address escapes (neither load nor literal initialisation)")
						}
					}
				case *ssa.Store:
					// `*table = zero` precedes a partial literal in the package initialiser only
					if _, isConst := x.Val.(*ssa.Const); f == initFn && x.Addr == ssa.Value(g) && isConst {
						continue
					}
					bad(f, in, "store to / of the table address")
				default:
					bad(f, in, "table address taken or passed on (not an indexing read)")
				}
			}
		}
	}
	r.Count("ssa_functions_scanned", len(funcs))
	r.Count("table_index_reads", reads)
	r.Count("table_literal_init_stores", len(initStores))
	if violations == 0 {
		if pr.table != nil && len(initStores) != 256 {
			r.Unknown("F1", key, pr.tablePos, fmt.Sprintf("package initialiser stores %d distinct constant elements, expected 256 — SSA shape of the literal initialisation not recognised", len(initStores)))
		} else {
			r.OK("F1", key, pr.tablePos, fmt.Sprintf("%d SSA functions scanned (incl. package initialiser and closures): %d uses, all indexing loads; the only stores are the %d constant element stores of the literal in the synthetic package initialiser", len(funcs), reads, len(initStores)))
		}
	}
	r.Floor("F1", "SSA functions scanned", len(funcs), 50)
	r.Floor("F1", "table reads seen (updateCRC32 must be one)", reads, 1)
}

// ---------------------------------------------------------------------------------------------
// F2: every entry equals the remainder computed by the checker's own polynomial division

func (pr *prover) f2() {
	r := pr.r
	if pr.table == nil {
		r.Unknown("F2", "table/constants", pr.tablePos, "table constants could not be read (see F1)")
		r.Floor("F2", "table entries checked", 0, 256)
		return
	}
	n := 0
	for i, v := range pr.table {
		want := refEntry(i)
		r.Check(v == want, "F2", fmt.Sprintf("table[%#02x]", i), pr.tablePos,
			fmt.Sprintf("%#08x == (%#02x * x^32) mod 0x104C11DB7", v, i),
			fmt.Sprintf("literal has %#08x, (%#02x * x^32) mod 0x104C11DB7 = %#08x", v, i, want))
		n++
	}
	r.Floor("F2", "table entries checked", n, 256)
}

// linearity establishes, on the constants read from the literal (independently of F2), that the
// table is a GF(2)-linear map of its index: T[0] = 0 and T[i] = XOR of T[1<<k] over the set bits k
// of i. Only then can a lookup with a symbolic affine index be summarised as an affine vector.
func (pr *prover) linearity() {
	if pr.table == nil {
		pr.basisWhy = "table constants could not be read"
		return
	}
	var basis [8]uint32
	for k := range basis {
		basis[k] = pr.table[1<<uint(k)]
	}
	if pr.table[0] != 0 {
		pr.basisWhy = fmt.Sprintf("table[0] = %#08x, not 0", pr.table[0])
		return
	}
	for i, v := range pr.table {
		var x uint32
		for k := 0; k < 8; k++ {
			if i>>uint(k)&1 == 1 {
				x ^= basis[k]
			}
		}
		if x != v {
			pr.basisWhy = fmt.Sprintf("table[%#02x] = %#08x is not the XOR of the basis entries selected by its index bits (%#08x): the literal is not GF(2)-linear", i, v, x)
			return
		}
	}
	pr.basis = &basis
}

// ---------------------------------------------------------------------------------------------
// symbolic interpreter of expressions

type unsupported struct {
	pos  token.Pos
	what string
}

func (u *unsupported) Error() string { return u.what }

type interp struct {
	pr    *prover
	vars  map[types.Object]bitdom.Vec // scalar variables
	bytes map[types.Object]string     // []byte variables: v[k] (k constant) yields the atoms "<name>[k]".0..7
	table bool                        // whether lookups into tableCRC32 are allowed
	// elem: `slice[index]` with exactly these objects stands for the current input byte (index-loop form of the fold)
	elemSlice, elemIndex types.Object
	elemVec              bitdom.Vec
	// results
	byteIdx map[int]bool
	depth   int // nesting of pure helper calls
}

// isPureHelperName: id names a package function of the pure one-return form (see pureStep).
func (pr *prover) isPureHelperName(id *ast.Ident) bool {
	fobj, ok := pr.p.Info.Uses[id].(*types.Func)
	if !ok || fobj.Pkg() != pr.p.Types {
		return false
	}
	fd := pr.p.Decl(fobj.Name())
	if fd == nil || fd.Body == nil || fd.Recv != nil {
		return false
	}
	_, _, ok = pr.pureBody(fd.Body.List)
	return ok
}

// pureFn is a package function whose body is one return of one expression.
type pureFn struct {
	params  []types.Object
	prelude []*ast.AssignStmt // `t := e` definitions of fresh locals before the return
	ret     ast.Expr
}

// pureBody: the statements are zero or more `t := e` (one fresh variable each) followed by one `return <expr>`.
func (pr *prover) pureBody(list []ast.Stmt) ([]*ast.AssignStmt, ast.Expr, bool) {
	var prelude []*ast.AssignStmt
	for i, st := range list {
		if i == len(list)-1 {
			ret, ok := st.(*ast.ReturnStmt)
			if !ok || len(ret.Results) != 1 {
				return nil, nil, false
			}
			return prelude, ret.Results[0], true
		}
		a, ok := st.(*ast.AssignStmt)
		if !ok || a.Tok != token.DEFINE || len(a.Lhs) != 1 || len(a.Rhs) != 1 {
			return nil, nil, false
		}
		if id, isID := a.Lhs[0].(*ast.Ident); !isID || pr.p.Info.Defs[id] == nil {
			return nil, nil, false
		}
		prelude = append(prelude, a)
	}
	return nil, nil, false
}

// pureStep: call is a call of a package-level function (no receiver) whose body is exactly `return <expr>`, whose parameters are
// unsigned integers, and whose expression refers only to its parameters, the table, constants and type names.
func (pr *prover) pureStep(call *ast.CallExpr) *pureFn {
	id, ok := unparen(call.Fun).(*ast.Ident)
	if !ok {
		return nil
	}
	fobj, ok := pr.p.Info.Uses[id].(*types.Func)
	if !ok || fobj.Pkg() != pr.p.Types {
		return nil
	}
	fd := pr.p.Decl(fobj.Name())
	if fd == nil || fd.Body == nil || fd.Recv != nil {
		return nil
	}
	prelude, retExpr, ok := pr.pureBody(fd.Body.List)
	if !ok {
		return nil
	}
	sig := fobj.Type().(*types.Signature)
	if sig.Variadic() || sig.Params().Len() != len(call.Args) || sig.Results().Len() != 1 {
		return nil
	}
	out := &pureFn{ret: retExpr, prelude: prelude}
	allowed := map[types.Object]bool{}
	for _, d := range prelude {
		allowed[pr.p.Info.Defs[d.Lhs[0].(*ast.Ident)]] = true
	}
	for i := 0; i < sig.Params().Len(); i++ {
		out.params = append(out.params, sig.Params().At(i))
		allowed[sig.Params().At(i)] = true
	}
	good := true
	var exprs []ast.Expr
	for _, d := range prelude {
		exprs = append(exprs, d.Rhs[0])
	}
	exprs = append(exprs, retExpr)
	for _, ex := range exprs {
		ast.Inspect(ex, func(n ast.Node) bool {
			switch x := n.(type) {
			case *ast.FuncLit:
				good = false
			case *ast.Ident:
				switch o := pr.p.Info.Uses[x].(type) {
				case *types.Var:
					if !allowed[o] && o != types.Object(pr.tableObj) {
						good = false
					}
				case *types.TypeName, *types.Const, nil:
				case *types.Func:
					// nested helpers are judged when evaluated
				default:
					good = false
				}
			}
			return true
		})
	}
	if !good {
		return nil
	}
	return out
}

func uwidth(t types.Type) (int, bool) {
	if t == nil {
		return 0, false
	}
	b, ok := t.Underlying().(*types.Basic)
	if !ok {
		return 0, false
	}
	switch b.Kind() {
	case types.Uint8:
		return 8, true
	case types.Uint16:
		return 16, true
	case types.Uint32:
		return 32, true
	case types.Uint64:
		return 64, true
	}
	return 0, false
}

func (it *interp) fail(n ast.Node, format string, a ...interface{}) (bitdom.Vec, error) {
	return nil, &unsupported{n.Pos(), fmt.Sprintf(format, a...)}
}

func (it *interp) src(n ast.Node) string {
	return types.ExprString(n.(ast.Expr))
}

// eval returns the value of e as a vector of the width of e's static type.
func (it *interp) eval(e ast.Expr) (bitdom.Vec, error) {
	info := it.pr.p.Info
	tv, ok := info.Types[e]
	if !ok {
		return it.fail(e, "no type information for %s", it.src(e))
	}
	w, ok := uwidth(tv.Type)
	if !ok {
		return it.fail(e, "%s has type %s; only fixed-width unsigned integers are interpreted", it.src(e), tv.Type)
	}
	v, err := it.eval0(e, w)
	if err != nil {
		return nil, err
	}
	if len(v) != w {
		return it.fail(e, "internal: %s evaluated to %d bits, its type has %d", it.src(e), len(v), w)
	}
	return v, nil
}

func (it *interp) eval0(e ast.Expr, w int) (bitdom.Vec, error) {
	info := it.pr.p.Info
	if info.Types[e].Value != nil {
		c, ok := it.pr.constU64(e)
		if !ok {
			return it.fail(e, "constant %s is not an exact unsigned integer", it.src(e))
		}
		return bitdom.Const(w, c), nil
	}
	switch x := e.(type) {
	case *ast.ParenExpr:
		return it.eval(x.X)
	case *ast.Ident:
		obj := info.Uses[x]
		if v, ok := it.vars[obj]; ok && obj != nil {
			return v, nil
		}
		return it.fail(e, "identifier %s is not one of the interpreted variables", x.Name)
	case *ast.UnaryExpr:
		if x.Op == token.XOR {
			v, err := it.eval(x.X)
			if err != nil {
				return nil, err
			}
			return v.Not(), nil
		}
		return it.fail(e, "unary operator %s", x.Op)
	case *ast.BinaryExpr:
		switch x.Op {
		case token.SHL, token.SHR:
			kv := info.Types[x.Y].Value
			if kv == nil {
				return it.fail(e, "shift by the non-constant count %s", it.src(x.Y))
			}
			k, exact := constant.Int64Val(constant.ToInt(kv))
			if !exact || k < 0 {
				return it.fail(e, "shift count %s", it.src(x.Y))
			}
			if k > int64(w) {
				k = int64(w) // same result (0) for every count >= width
			}
			l, err := it.eval(x.X)
			if err != nil {
				return nil, err
			}
			if x.Op == token.SHL {
				return l.Shl(int(k)), nil
			}
			return l.Shr(int(k)), nil
		case token.XOR, token.AND, token.OR, token.AND_NOT:
			l, err := it.eval(x.X)
			if err != nil {
				return nil, err
			}
			rr, err := it.eval(x.Y)
			if err != nil {
				return nil, err
			}
			if len(l) != len(rr) {
				return it.fail(e, "internal: operands of %s have widths %d and %d", x.Op, len(l), len(rr))
			}
			switch x.Op {
			case token.XOR:
				return l.Xor(rr), nil
			case token.AND:
				if m, ok := rr.IsConst(); ok {
					return l.AndConst(m), nil
				}
				if m, ok := l.IsConst(); ok {
					return rr.AndConst(m), nil
				}
				return it.fail(e, "'&' of two non-constant operands (%s) is not affine", it.src(e))
			case token.AND_NOT:
				if m, ok := rr.IsConst(); ok {
					return l.AndConst(^m), nil
				}
				return it.fail(e, "'&^' with a non-constant mask (%s) is not affine", it.src(e))
			default:
				o, ok := l.OrDisjoint(rr)
				if !ok {
					return it.fail(e, "'|' of operands whose possibly-nonzero bits overlap (%s) is not affine", it.src(e))
				}
				return o, nil
			}
		}
		return it.fail(e, "binary operator %s in %s", x.Op, it.src(e))
	case *ast.CallExpr:
		if ftv, ok := info.Types[x.Fun]; ok && ftv.IsType() && len(x.Args) == 1 {
			a, err := it.eval(x.Args[0]) // fails unless the operand is an unsigned integer too
			if err != nil {
				return nil, err
			}
			return a.Resize(w), nil
		}
		// a pure helper of the package: `func step(c uint32, b byte) uint32 { return <expr over its parameters, the table, constants> }`
		if fn := it.pr.pureStep(x); fn != nil && it.depth < 3 {
			sub := &interp{pr: it.pr, table: it.table, vars: map[types.Object]bitdom.Vec{}, depth: it.depth + 1}
			okArgs := true
			for i, prm := range fn.params {
				av, err := it.eval(x.Args[i])
				if err != nil {
					return nil, err
				}
				pw, isU := uwidth(prm.Type())
				if !isU {
					okArgs = false
					break
				}
				sub.vars[prm] = av.Resize(pw)
			}
			if okArgs {
				for _, d := range fn.prelude {
					dv, err := sub.eval(d.Rhs[0])
					if err != nil {
						return nil, err
					}
					sub.vars[it.pr.p.Info.Defs[d.Lhs[0].(*ast.Ident)]] = dv
				}
				v, err := sub.eval(fn.ret)
				if err != nil {
					return nil, err
				}
				return v.Resize(w), nil
			}
		}
		// binary.BigEndian.UintN(bs) on an interpreted byte slice: byte k at bits 8(n-1-k)+7 .. 8(n-1-k)
		if sel, ok := x.Fun.(*ast.SelectorExpr); ok && len(x.Args) == 1 {
			if fn, ok := info.Uses[sel.Sel].(*types.Func); ok {
				n := 0
				switch fn.FullName() {
				case "(encoding/binary.bigEndian).Uint16":
					n = 2
				case "(encoding/binary.bigEndian).Uint32":
					n = 4
				case "(encoding/binary.bigEndian).Uint64":
					n = 8
				}
				base := it.pr.useOf(x.Args[0])
				if name, ok := it.bytes[base]; ok && base != nil && n > 0 {
					out := bitdom.Const(8*n, 0)
					for k := 0; k < n; k++ {
						if it.byteIdx == nil {
							it.byteIdx = map[int]bool{}
						}
						it.byteIdx[k] = true
						bv := bitdom.FromAtoms(fmt.Sprintf("%s[%d]", name, k), 8)
						for b := 0; b < 8; b++ {
							out[8*(n-1-k)+b] = bv[b]
						}
					}
					return out.Resize(w), nil
				}
			}
		}
		return it.fail(e, "call %s (only conversions between unsigned integer types and binary.BigEndian.UintN of the fetched bytes are interpreted)", it.src(e))
	case *ast.IndexExpr:
		base := it.pr.useOf(x.X)
		if base != nil && it.table && base == types.Object(it.pr.tableObj) {
			return it.lookup(x)
		}
		if base != nil && base == it.elemSlice && it.elemIndex != nil && it.pr.useOf(x.Index) == it.elemIndex {
			return it.elemVec, nil
		}
		if name, ok := it.bytes[base]; ok && base != nil {
			kv := info.Types[x.Index].Value
			if kv == nil {
				return it.fail(e, "index %s of %s is not constant", it.src(x.Index), it.src(x.X))
			}
			k, exact := constant.Int64Val(constant.ToInt(kv))
			if !exact || k < 0 {
				return it.fail(e, "index %s", it.src(x.Index))
			}
			if it.byteIdx == nil {
				it.byteIdx = map[int]bool{}
			}
			it.byteIdx[int(k)] = true
			return bitdom.FromAtoms(fmt.Sprintf("%s[%d]", name, k), 8), nil
		}
		return it.fail(e, "index expression %s (base is neither %s nor an interpreted byte slice)", it.src(e), tableName)
	}
	return it.fail(e, "expression %s (%T)", it.src(e), e)
}

// lookup summarises tableCRC32[idx] for an affine index using the table's GF(2)-linearity.
func (it *interp) lookup(x *ast.IndexExpr) (bitdom.Vec, error) {
	if it.pr.basis == nil {
		return it.fail(x, "lookup %s cannot be summarised as an affine map: %s", it.src(x), it.pr.basisWhy)
	}
	idx, err := it.eval(x.Index)
	if err != nil {
		return nil, err
	}
	for k := 8; k < len(idx); k++ {
		if !idx[k].IsZero() {
			return it.fail(x.Index, "table index %s is not provably < 256 (bit %d is %s): the lookup could panic", it.src(x.Index), k, idx[k])
		}
	}
	out := bitdom.Const(32, 0)
	for k := 0; k < 8 && k < len(idx); k++ {
		for j := 0; j < 32; j++ {
			out[j] = out[j].Xor(idx[k].MulConst(it.pr.basis[k]>>uint(j)&1 == 1))
		}
	}
	return out, nil
}

// ---------------------------------------------------------------------------------------------
// F4: fold shape of updateCRC32 (also extracts the step expression for F3)

type foldShape struct {
	name   string // function whose fold this is (keys are prefixed with it)
	fd     *ast.FuncDecl
	acc    types.Object // parameter 0
	val    types.Object // range value variable
	assign *ast.AssignStmt
	rhs    ast.Expr // step expression, non-nil only when it is the sole assignment to acc in the loop body
	// index-loop form: `for i := 0; i < len(bs); i++ { ... bs[i] ... }`
	slice, index types.Object
	// locals defined (x := e, once each) before the assignment to the accumulator, in order
	prelude []*ast.AssignStmt
}

func (pr *prover) f4() *foldShape {
	r, p := pr.r, pr.p
	fd := p.Decl(updateName)
	if fd == nil || fd.Body == nil || pr.update == nil {
		r.Unknown("F4", updateName+"/declaration", "", "function "+updateName+" not found — anchor lost")
		return nil
	}
	sh := &foldShape{fd: fd}
	k := func(s string) string { return updateName + "/" + s }
	sig := pr.update.Type().(*types.Signature)
	sigOK := sig.Recv() == nil && !sig.Variadic() && sig.Params().Len() == 2 && sig.Results().Len() == 1 &&
		isBasic(sig.Params().At(0).Type(), types.Uint32) && isByteSlice(sig.Params().At(1).Type()) && isBasic(sig.Results().At(0).Type(), types.Uint32)
	r.Check(sigOK, "F4", k("signature"), pr.pos(fd), "func(uint32, []byte) uint32", "signature is "+sig.String()+", want func(uint32, []byte) uint32")
	if !sigOK {
		for _, s := range []string{"body-is-range-then-return", "range-over-param1", "range-key-unused-value-fresh", "loop-body-single-assignment", "assignment-target-is-accumulator", "returns-accumulator", "only-allowed-objects"} {
			r.Unknown("F4", k(s), pr.pos(fd), "not checked: the signature is not the expected one")
		}
		return nil
	}
	acc, slice := types.Object(sig.Params().At(0)), types.Object(sig.Params().At(1))
	sh.name = updateName
	pr.foldStmts(sh, updateName, acc, slice, fd.Body.List)
	return sh
}

// foldStmts checks that list is exactly `loop over slice { [t := e]* acc = step }; return acc` (range or index form) and records
// the step in sh. name prefixes the obligation keys: updateCRC32's own body, or computeCRC32 when the fold is written out there.
func (pr *prover) foldStmts(sh *foldShape, name string, acc, slice types.Object, list []ast.Stmt) {
	r, p := pr.r, pr.p
	fd := sh.fd
	k := func(s string) string { return name + "/" + s }
	sh.acc = acc
	var rng *ast.RangeStmt
	var ret *ast.ReturnStmt
	var idxLoop *ast.ForStmt
	if len(list) > 0 {
		rng, _ = list[0].(*ast.RangeStmt)
		idxLoop, _ = list[0].(*ast.ForStmt)
		ret, _ = list[len(list)-1].(*ast.ReturnStmt)
	}
	if idxLoop != nil && rng == nil {
		// the same fold written with an index: for i := 0; i < len(bs); i++ { … bs[i] … }
		pr.f4Index(sh, idxLoop, ret, acc, slice, len(list), k)
		return
	}
	r.Check(len(list) == 2 && rng != nil && ret != nil, "F4", k("body-is-range-then-return"), pr.pos(fd.Body),
		"the body is exactly: one range statement, one return statement",
		fmt.Sprintf("the body has %d statements; want exactly a range statement followed by a return", len(list)))

	if rng == nil {
		for _, s := range []string{"range-over-param1", "range-key-unused-value-fresh", "loop-body-single-assignment", "assignment-target-is-accumulator", "only-allowed-objects"} {
			r.Unknown("F4", k(s), pr.pos(fd.Body), "not checked: the first statement is not a range loop")
		}
	} else {
		r.Check(pr.useOf(rng.X) == slice && slice != nil, "F4", k("range-over-param1"), pr.pos(rng.X),
			"the loop ranges over the []byte parameter itself (object identity)", "the range expression "+types.ExprString(rng.X)+" is not the []byte parameter")
		keyUnused := rng.Key == nil
		if id, ok := rng.Key.(*ast.Ident); ok && id.Name == "_" {
			keyUnused = true
		}
		vid, _ := rng.Value.(*ast.Ident)
		var vobj types.Object
		if vid != nil && rng.Tok == token.DEFINE {
			vobj = p.Info.Defs[vid]
		}
		sh.val = vobj
		r.Check(keyUnused && vobj != nil && isBasic(vobj.Type(), types.Uint8), "F4", k("range-key-unused-value-fresh"), pr.pos(rng),
			"`for _, v := range`: the index is discarded and the element is a fresh byte variable", "the range clause is not of the form `for _, v := range ...` with a freshly defined byte variable")

		as, prelude, okBody := pr.foldBody(rng.Body)
		sh.prelude = prelude
		single := okBody && as != nil
		r.Check(single, "F4", k("loop-body-single-assignment"), pr.pos(rng.Body),
			"the loop body is one plain assignment `x = e`, possibly after definitions `t := e'` of fresh locals", fmt.Sprintf("the loop body (%d statements) is not local definitions followed by a single plain assignment `x = e`", len(rng.Body.List)))
		if !single {
			r.Unknown("F4", k("assignment-target-is-accumulator"), pr.pos(rng.Body), "not checked: no single assignment")
			r.Unknown("F4", k("only-allowed-objects"), pr.pos(rng.Body), "not checked: no single assignment")
		} else {
			sh.assign = as
			target := pr.useOf(as.Lhs[0]) == acc
			r.Check(target, "F4", k("assignment-target-is-accumulator"), pr.pos(as), "the assignment writes parameter 0 (object identity)", "the assignment target "+types.ExprString(as.Lhs[0])+" is not parameter 0")
			if target {
				sh.rhs = as.Rhs[0]
			}
			// objects read by the step expression
			var offending []string
			nIdent := 0
			ast.Inspect(as.Rhs[0], func(n ast.Node) bool {
				switch x := n.(type) {
				case *ast.FuncLit:
					offending = append(offending, "function literal")
					return false
				case *ast.Ident:
					nIdent++
					o := p.Info.Uses[x]
					switch o.(type) {
					case *types.Var:
						if o == acc || (o == vobj && vobj != nil) || o == types.Object(pr.tableObj) || pr.isPreludeLocal(sh, o) {
							return true
						}
					case *types.TypeName:
						return true // conversions
					case *types.Const:
						return true // a named constant has a fixed value known to go/types
					case *types.Func:
						if pr.isPureHelperName(x) {
							return true // judged by F3 when the step is evaluated
						}
					}
					offending = append(offending, x.Name)
				}
				return true
			})
			sort.Strings(offending)
			r.Check(len(offending) == 0 && nIdent > 0, "F4", k("only-allowed-objects"), pr.pos(as.Rhs[0]),
				"the step expression reads only the accumulator, the range element, "+tableName+", constants and type names",
				"the step expression also refers to: "+strings.Join(offending, ", "))
		}
	}
	if ret == nil {
		r.Unknown("F4", k("returns-accumulator"), pr.pos(fd.Body), "not checked: the last statement is not a return")
	} else {
		r.Check(len(ret.Results) == 1 && pr.useOf(ret.Results[0]) == acc, "F4", k("returns-accumulator"), pr.pos(ret),
			"the function returns parameter 0 itself, unmodified", "the return statement does not return exactly parameter 0")
	}
	r.Trivial("F4", k("chunking-invariance"), pr.pos(fd),
		"theorem: with the facts above update(c, bs) = foldl step c bs, hence update(update(c, a), b) = update(c, a||b) for every split; step is total (F3: the index is < 256, no other partial operation)")
}

// foldBody: zero or more `t := e` (one fresh variable each) followed by one plain assignment `x = e`.
func (pr *prover) foldBody(body *ast.BlockStmt) (as *ast.AssignStmt, prelude []*ast.AssignStmt, ok bool) {
	if body == nil || len(body.List) == 0 {
		return nil, nil, false
	}
	for i, st := range body.List {
		a, isA := st.(*ast.AssignStmt)
		if !isA || len(a.Lhs) != 1 || len(a.Rhs) != 1 {
			return nil, nil, false
		}
		if i == len(body.List)-1 {
			if a.Tok != token.ASSIGN {
				return nil, nil, false
			}
			return a, prelude, true
		}
		id, isID := a.Lhs[0].(*ast.Ident)
		if a.Tok != token.DEFINE || !isID || pr.p.Info.Defs[id] == nil {
			return nil, nil, false
		}
		prelude = append(prelude, a)
	}
	return nil, nil, false
}

func (pr *prover) isPreludeLocal(sh *foldShape, o types.Object) bool {
	for _, def := range sh.prelude {
		if id, ok := def.Lhs[0].(*ast.Ident); ok && pr.p.Info.Defs[id] == o {
			return true
		}
	}
	return false
}

// f4Index: the fold written as `for i := 0; i < len(bs); i++ { [t := e]* acc = step }; return acc`, where the body reads the
// slice only as bs[i] and never assigns i or bs. Same theorem: the only loop-carried variable besides the index is acc.
func (pr *prover) f4Index(sh *foldShape, loop *ast.ForStmt, ret *ast.ReturnStmt, acc, slice types.Object, nstmts int, k func(string) string) {
	r, p := pr.r, pr.p
	fd := sh.fd
	r.Check(nstmts == 2 && ret != nil, "F4", k("body-is-range-then-return"), pr.pos(fd.Body),
		"the body is exactly: one loop over the input, one return statement", fmt.Sprintf("the body has %d statements; want a loop followed by a return", nstmts))
	// header
	var idx types.Object
	hdrOK := false
	if init, ok := loop.Init.(*ast.AssignStmt); ok && init.Tok == token.DEFINE && len(init.Lhs) == 1 && len(init.Rhs) == 1 {
		if id, ok := init.Lhs[0].(*ast.Ident); ok {
			if c, isC := pr.constU64(init.Rhs[0]); isC && c == 0 {
				idx = p.Info.Defs[id]
			}
		}
	}
	if idx != nil {
		if cond, ok := loop.Cond.(*ast.BinaryExpr); ok && cond.Op == token.LSS && pr.useOf(cond.X) == idx {
			if call, ok := unparen(cond.Y).(*ast.CallExpr); ok && len(call.Args) == 1 {
				if fn, ok := call.Fun.(*ast.Ident); ok && fn.Name == "len" && p.Info.Uses[fn] == types.Universe.Lookup("len") && pr.useOf(call.Args[0]) == slice {
					if post, ok := loop.Post.(*ast.IncDecStmt); ok && post.Tok == token.INC && pr.useOf(post.X) == idx {
						hdrOK = true
					}
				}
			}
		}
	}
	r.Check(hdrOK, "F4", k("range-over-param1"), pr.pos(loop), "the loop visits every index of the []byte parameter once, in order: for i := 0; i < len(bs); i++",
		"the loop header is not `for i := 0; i < len(<the []byte parameter>); i++`")
	r.Check(hdrOK, "F4", k("range-key-unused-value-fresh"), pr.pos(loop), "the element is read as bs[i] (checked with the step expression)", "not checked: loop header not recognised")
	as, prelude, okBody := pr.foldBody(loop.Body)
	sh.prelude = prelude
	single := okBody && as != nil && hdrOK
	r.Check(single, "F4", k("loop-body-single-assignment"), pr.pos(loop.Body),
		"the loop body is one plain assignment `x = e`, possibly after definitions `t := e'` of fresh locals", "the loop body is not local definitions followed by a single plain assignment `x = e`")
	if !single {
		r.Unknown("F4", k("assignment-target-is-accumulator"), pr.pos(loop.Body), "not checked: no single assignment")
		r.Unknown("F4", k("only-allowed-objects"), pr.pos(loop.Body), "not checked: no single assignment")
	} else {
		sh.assign = as
		target := pr.useOf(as.Lhs[0]) == acc
		r.Check(target, "F4", k("assignment-target-is-accumulator"), pr.pos(as), "the assignment writes parameter 0 (object identity)", "the assignment target "+types.ExprString(as.Lhs[0])+" is not parameter 0")
		if target {
			sh.rhs = as.Rhs[0]
			sh.slice, sh.index = slice, idx
		}
		// objects read by the body: acc, the table, prelude locals, constants, types; the slice and the index only as bs[i]
		var offending []string
		nIdent := 0
		var walk func(n ast.Node) bool
		walk = func(n ast.Node) bool {
			switch x := n.(type) {
			case *ast.FuncLit:
				offending = append(offending, "function literal")
				return false
			case *ast.IndexExpr:
				if pr.useOf(x.X) == slice && pr.useOf(x.Index) == idx {
					nIdent++
					return false // bs[i]: the current element
				}
			case *ast.Ident:
				nIdent++
				o := p.Info.Uses[x]
				switch o.(type) {
				case *types.Var:
					if o == acc || o == types.Object(pr.tableObj) || pr.isPreludeLocal(sh, o) {
						return true
					}
				case *types.TypeName, *types.Const:
					return true
				case *types.Func:
					if pr.isPureHelperName(x) {
						return true
					}
				}
				if o != nil {
					offending = append(offending, x.Name)
				}
			}
			return true
		}
		for _, def := range prelude {
			ast.Inspect(def.Rhs[0], walk)
		}
		ast.Inspect(as.Rhs[0], walk)
		sort.Strings(offending)
		r.Check(len(offending) == 0 && nIdent > 0, "F4", k("only-allowed-objects"), pr.pos(as.Rhs[0]),
			"the step reads only the accumulator, the current element bs[i], "+tableName+", its own locals, constants and type names",
			"the step also refers to: "+strings.Join(offending, ", "))
	}
	if ret == nil {
		r.Unknown("F4", k("returns-accumulator"), pr.pos(fd.Body), "not checked: the last statement is not a return")
	} else {
		r.Check(len(ret.Results) == 1 && pr.useOf(ret.Results[0]) == acc, "F4", k("returns-accumulator"), pr.pos(ret),
			"the function returns parameter 0 itself, unmodified", "the return statement does not return exactly parameter 0")
	}
	r.Trivial("F4", k("chunking-invariance"), pr.pos(fd),
		"theorem: with the facts above update(c, bs) = foldl step c bs, hence update(update(c, a), b) = update(c, a||b) for every split; step is total (F3: the index is < 256, no other partial operation)")
}

// ---------------------------------------------------------------------------------------------
// F3: the step expression equals 8 bit-serial steps, bit by bit

func (pr *prover) f3(sh *foldShape) {
	r := pr.r
	n := 0
	pre, fname := "", updateName
	if sh != nil && sh.name != "" && sh.name != updateName {
		pre, fname = sh.name+"/", sh.name
	}
	defer func() { r.Floor("F3", pre+"state bits compared", n, 32) }()
	if sh == nil || sh.rhs == nil || (sh.val == nil && sh.index == nil) {
		pos := ""
		if sh != nil {
			pos = pr.pos(sh.fd)
		}
		r.Unknown("F3", fname+"/step-expression", pos, "the step expression of "+fname+" could not be located (see F4): no single assignment to the accumulator inside a `for _, b := range` loop")
		return
	}
	crc, b := bitdom.FromAtoms("crc", 32), bitdom.FromAtoms("b", 8)
	it := &interp{pr: pr, table: true, vars: map[types.Object]bitdom.Vec{sh.acc: crc}}
	if sh.val != nil {
		it.vars[sh.val] = b
	}
	if sh.index != nil {
		it.elemSlice, it.elemIndex, it.elemVec = sh.slice, sh.index, b
	}
	var err error
	var code bitdom.Vec
	for _, def := range sh.prelude {
		v, e := it.eval(def.Rhs[0])
		if e != nil {
			err = e
			break
		}
		it.vars[pr.p.Info.Defs[def.Lhs[0].(*ast.Ident)]] = v
	}
	if err == nil {
		code, err = it.eval(sh.rhs)
	}
	if err != nil {
		pos := pr.pos(sh.rhs)
		if u, ok := err.(*unsupported); ok {
			pos = pr.p.Pos(u.pos)
		}
		r.Unknown("F3", fname+"/step-expression", pos, "construct not interpreted: "+err.Error())
		return
	}
	if len(code) != 32 {
		r.Unknown("F3", fname+"/step-expression", pr.pos(sh.rhs), fmt.Sprintf("step expression is %d bits wide, want 32", len(code)))
		return
	}
	ref := refStep(crc, b)
	for j := 0; j < 32; j++ {
		key := fmt.Sprintf("%sbit[%d]", pre, j)
		switch {
		case code[j].Top:
			r.Unknown("F3", key, pr.pos(sh.rhs), "the code's bit is not an affine function of the inputs: "+code[j].String())
		case code[j].Equal(ref[j]):
			r.OK("F3", key, pr.pos(sh.rhs), "for all 2^40 (crc, b): code bit == 8 bit-serial steps == "+ref[j].String())
		default:
			r.Bad("F3", key, pr.pos(sh.rhs), "code computes "+code[j].String()+" but 8 bit-serial steps give "+ref[j].String())
		}
		n++
	}
}

// ---------------------------------------------------------------------------------------------
// F5: computeCRC32(bs) = updateCRC32(0xFFFFFFFF, bs), unmodified

func (pr *prover) f5() {
	r, p := pr.r, pr.p
	fd := p.Decl(computeName)
	fobj, _ := p.Types.Scope().Lookup(computeName).(*types.Func)
	if fd == nil || fd.Body == nil || fobj == nil || pr.update == nil {
		r.Unknown("F5", computeName+"/declaration", "", "function "+computeName+" (or "+updateName+") not found — anchor lost")
		return
	}
	k := func(s string) string { return computeName + "/" + s }
	sig := fobj.Type().(*types.Signature)
	sigOK := sig.Recv() == nil && !sig.Variadic() && sig.Params().Len() == 1 && sig.Results().Len() == 1 &&
		isByteSlice(sig.Params().At(0).Type()) && isBasic(sig.Results().At(0).Type(), types.Uint32)
	r.Check(sigOK, "F5", k("signature"), pr.pos(fd), "func([]byte) uint32", "signature is "+sig.String()+", want func([]byte) uint32")
	var ret *ast.ReturnStmt
	if len(fd.Body.List) == 1 {
		ret, _ = fd.Body.List[0].(*ast.ReturnStmt)
	}
	if ret == nil && sigOK && pr.f5Inlined(fd, sig, k) {
		return
	}
	if !r.Check(ret != nil && len(ret.Results) == 1, "F5", k("body-is-single-return"), pr.pos(fd.Body), "the body is a single return of one expression",
		fmt.Sprintf("the body (%d statements) is not a single return statement", len(fd.Body.List))) {
		for _, s := range []string{"returns-call-unmodified", "init-constant-0xffffffff", "passes-own-parameter"} {
			r.Unknown("F5", k(s), pr.pos(fd.Body), "not checked: the body is not a single return")
		}
		return
	}
	call, _ := unparen(ret.Results[0]).(*ast.CallExpr)
	isUpdate := call != nil && pr.useOf(call.Fun) == types.Object(pr.update) && len(call.Args) == 2 && !call.Ellipsis.IsValid()
	if !r.Check(isUpdate, "F5", k("returns-call-unmodified"), pr.pos(ret), "the returned expression is exactly the call "+updateName+"(…): no final XOR, no reflection",
		"the returned expression "+types.ExprString(ret.Results[0])+" is not exactly a call of "+updateName) {
		// still try to find the call inside, to give precise diagnostics for the arguments
		ast.Inspect(ret.Results[0], func(n ast.Node) bool {
			if c, ok := n.(*ast.CallExpr); ok && call == nil && pr.useOf(c.Fun) == types.Object(pr.update) && len(c.Args) == 2 {
				call = c
			}
			return true
		})
		if call == nil || pr.useOf(call.Fun) != types.Object(pr.update) {
			r.Unknown("F5", k("init-constant-0xffffffff"), pr.pos(ret), "not checked: no call of "+updateName)
			r.Unknown("F5", k("passes-own-parameter"), pr.pos(ret), "not checked: no call of "+updateName)
			return
		}
	}
	v, isConst := pr.constU64(call.Args[0])
	r.Check(isConst && v == Init && isBasic(p.Info.Types[call.Args[0]].Type, types.Uint32), "F5", k("init-constant-0xffffffff"), pr.pos(call.Args[0]),
		"the initial value "+types.ExprString(call.Args[0])+" is the uint32 constant 0xFFFFFFFF",
		fmt.Sprintf("the initial value %s is not the constant 0xFFFFFFFF (constant=%v value=%#x)", types.ExprString(call.Args[0]), isConst, v))
	r.Check(pr.useOf(call.Args[1]) == types.Object(sig.Params().At(0)), "F5", k("passes-own-parameter"), pr.pos(call.Args[1]),
		"the data argument is the function's own parameter (object identity)", "the data argument "+types.ExprString(call.Args[1])+" is not the function's parameter")
}

// f5Inlined: computeCRC32 with the fold written out — `acc := 0xFFFFFFFF; for … over the parameter { acc = step }; return acc`.
// The loop is put through the same F4 shape rules and its step through the same F3 comparison with 8 bit-serial steps as
// updateCRC32's; both steps equal the reference, so computeCRC32(bs) = foldl step 0xFFFFFFFF bs = updateCRC32(0xFFFFFFFF, bs).
// Reports false (nothing emitted) when the first statement is not a definition of one local.
func (pr *prover) f5Inlined(fd *ast.FuncDecl, sig *types.Signature, k func(string) string) bool {
	r, p := pr.r, pr.p
	list := fd.Body.List
	if len(list) < 2 {
		return false
	}
	def, ok := list[0].(*ast.AssignStmt)
	if !ok || def.Tok != token.DEFINE || len(def.Lhs) != 1 || len(def.Rhs) != 1 {
		return false
	}
	id, ok := def.Lhs[0].(*ast.Ident)
	if !ok || p.Info.Defs[id] == nil {
		return false
	}
	acc := p.Info.Defs[id]
	r.OK("F5", k("body-is-single-return"), pr.pos(fd.Body), "the body is the fold written out: one definition of the accumulator, the loop, the return (shape checked under F4/"+computeName+")")
	v, isConst := pr.constU64(def.Rhs[0])
	r.Check(isConst && v == Init && isBasic(acc.Type(), types.Uint32), "F5", k("init-constant-0xffffffff"), pr.pos(def.Rhs[0]),
		"the accumulator starts as "+types.ExprString(def.Rhs[0])+", the uint32 constant 0xFFFFFFFF",
		fmt.Sprintf("the accumulator starts as %s, not the uint32 constant 0xFFFFFFFF (constant=%v value=%#x)", types.ExprString(def.Rhs[0]), isConst, v))
	sh := &foldShape{fd: fd, name: computeName}
	pr.foldStmts(sh, computeName, acc, types.Object(sig.Params().At(0)), list[1:])
	pr.f3(sh)
	r.Check(sh.rhs != nil, "F5", k("returns-call-unmodified"), pr.pos(fd.Body),
		"the function returns the accumulator of its own fold unmodified (F4/"+computeName+"/returns-accumulator); the fold's step is, bit for bit, the reference step (F3/"+computeName+"/bit[0..31]) and so is "+updateName+"'s: computeCRC32(bs) = "+updateName+"(0xFFFFFFFF, bs)",
		"the written-out fold was not recognised (see F4/"+computeName+"/*)")
	r.Check(sh.rhs != nil, "F5", k("passes-own-parameter"), pr.pos(fd.Body),
		"the fold runs over the function's own parameter (F4/"+computeName+"/range-over-param1)", "the written-out fold was not recognised (see F4/"+computeName+"/*)")
	return true
}

// ---------------------------------------------------------------------------------------------
// F6: residue-0 corollary and the endianness facts it relies on

func (pr *prover) f6() {
	pr.r.Trivial("F6", "residue-zero-corollary", "",
		"theorem of F2-F5: let R(m) be the state after bytes m from state 0xFFFFFFFF. The step is s' = ((s XOR b<<24)*x^8) mod P, so feeding the 4 bytes of s itself, most significant first, cancels the register byte by byte: R(m || BE32(R(m))) = 0 for every m. "+
			"The writer appends BE32 of the running value (F6/writePSISection/*), the parser reassembles BE32 (F6/parseCRC32/*), so computeCRC32 over a written section including its CRC field is 0 and the comparison in parsePSISection is between like-endian values.")
	pr.f6Parse()
	pr.f6Write()
}

// writesOf collects the assignments below root that write obj, and the other constructs that write
// it or take its address.
func (pr *prover) writesOf(root ast.Node, obj types.Object) (assigns []*ast.AssignStmt, others []ast.Node) {
	ast.Inspect(root, func(n ast.Node) bool {
		switch x := n.(type) {
		case *ast.AssignStmt:
			for _, l := range x.Lhs {
				if pr.useOf(l) == obj {
					assigns = append(assigns, x)
				}
			}
		case *ast.IncDecStmt:
			if pr.useOf(x.X) == obj {
				others = append(others, x)
			}
		case *ast.UnaryExpr:
			if x.Op == token.AND && pr.useOf(x.X) == obj {
				others = append(others, x)
			}
		case *ast.RangeStmt:
			if x.Tok == token.ASSIGN && (x.Key != nil && pr.useOf(x.Key) == obj || x.Value != nil && pr.useOf(x.Value) == obj) {
				others = append(others, x)
			}
		}
		return true
	})
	return
}

func (pr *prover) astikitMethod(sel *ast.SelectorExpr, names ...string) (string, bool) {
	f, ok := pr.p.Info.Uses[sel.Sel].(*types.Func)
	if !ok || f.Pkg() == nil || f.Pkg().Path() != load.AstikitPath {
		return "", false
	}
	sig := f.Type().(*types.Signature)
	if sig.Recv() == nil {
		return "", false
	}
	for _, n := range names {
		for _, tn := range []string{"BitsWriter", "BitsWriterBatch", "BytesIterator"} {
			if n == tn+"."+f.Name() && ssau.IsNamed(sig.Recv().Type(), load.AstikitPath, tn) {
				return n, true
			}
		}
	}
	return "", false
}

func (pr *prover) f6Parse() {
	r, p := pr.r, pr.p
	fd := p.Decl(parseName)
	fobj, _ := p.Types.Scope().Lookup(parseName).(*types.Func)
	if fd == nil || fd.Body == nil || fobj == nil {
		if pr.f6ParseInline() {
			return
		}
		r.Unknown("F6", parseName+"/declaration", "", "function "+parseName+" not found — anchor lost")
		return
	}
	k := func(s string) string { return parseName + "/" + s }
	sig := fobj.Type().(*types.Signature)
	if sig.Results().Len() < 1 || sig.Results().At(0).Name() == "" || sig.Results().At(0).Name() == "_" || !isBasic(sig.Results().At(0).Type(), types.Uint32) {
		r.Unknown("F6", k("shape"), pr.pos(fd), "first result is not a named uint32 result; shape not recognised")
		return
	}
	c := types.Object(sig.Results().At(0))

	// the fetch: bs, _ = <iterator>.NextBytesNoCopy(4)
	var bs types.Object
	var fetch *ast.AssignStmt
	nFetch := 0
	ast.Inspect(fd.Body, func(n ast.Node) bool {
		as, ok := n.(*ast.AssignStmt)
		if !ok || len(as.Rhs) != 1 || len(as.Lhs) != 2 {
			return true
		}
		call, ok := unparen(as.Rhs[0]).(*ast.CallExpr)
		if !ok || len(call.Args) != 1 {
			return true
		}
		sel, ok := call.Fun.(*ast.SelectorExpr)
		if !ok {
			return true
		}
		if _, ok := pr.astikitMethod(sel, "BytesIterator.NextBytesNoCopy", "BytesIterator.NextBytes"); !ok {
			return true
		}
		nFetch++
		if v, isC := pr.constU64(call.Args[0]); isC && v == 4 {
			fetch = as
			bs = pr.useOf(as.Lhs[0])
		}
		return true
	})
	okFetch := fetch != nil && nFetch == 1 && bs != nil && isByteSlice(bs.Type())
	if okFetch {
		as, others := pr.writesOf(fd.Body, bs)
		okFetch = len(as) == 1 && as[0] == fetch && len(others) == 0
	}
	if !r.Check(okFetch, "F6", k("fetches-4-bytes"), pr.pos(fd), "the byte slice is assigned exactly once, from BytesIterator.NextBytes[NoCopy](4): element k is the k-th next byte of the stream",
		"no unique `bs, err = i.NextBytesNoCopy(4)` whose result variable is written nowhere else") {
		r.Unknown("F6", k("byte-order"), pr.pos(fd), "not checked: the fetched slice was not identified")
		return
	}

	as, others := pr.writesOf(fd.Body, c)
	if len(as) != 1 || len(others) != 0 || as[0].Tok != token.ASSIGN || len(as[0].Lhs) != 1 || len(as[0].Rhs) != 1 {
		r.Unknown("F6", k("byte-order"), pr.pos(fd), fmt.Sprintf("expected exactly one plain assignment to the result %s, found %d assignments and %d other writes", c.Name(), len(as), len(others)))
		return
	}
	it := &interp{pr: pr, bytes: map[types.Object]string{bs: "byte"}}
	val, err := it.eval(as[0].Rhs[0])
	if err != nil {
		pos := pr.pos(as[0])
		if u, ok := err.(*unsupported); ok {
			pos = p.Pos(u.pos)
		}
		r.Unknown("F6", k("byte-order"), pos, "construct not interpreted: "+err.Error())
		return
	}
	n := 0
	for kb := 0; kb < 4; kb++ {
		hi, lo := 31-8*kb, 24-8*kb
		ok := len(val) == 32
		detail := ""
		for j := 0; ok && j < 8; j++ {
			want := bitdom.AtomForm(bitdom.Atom{Src: fmt.Sprintf("byte[%d]", kb), Bit: 7 - j})
			if !val[31-8*kb-j].Equal(want) {
				ok = false
				detail = fmt.Sprintf("result bit %d is %s, big-endian requires %s", 31-8*kb-j, val[31-8*kb-j], want)
			}
		}
		r.Check(ok, "F6", k(fmt.Sprintf("byte[%d]-at-bits[%d:%d]", kb, hi, lo)), pr.pos(as[0]),
			fmt.Sprintf("stream byte %d occupies result bits %d..%d, MSB to MSB (big-endian)", kb, hi, lo), detail)
		n++
	}
	r.Floor("F6", "parseCRC32 bytes placed", n, 4)

	// the assembled value is what is returned
	retOK, nRet := true, 0
	ast.Inspect(fd.Body, func(n ast.Node) bool {
		switch x := n.(type) {
		case *ast.FuncLit:
			return false
		case *ast.ReturnStmt:
			nRet++
			if len(x.Results) != 0 && pr.useOf(x.Results[0]) != c {
				retOK = false
			}
		}
		return true
	})
	last, _ := fd.Body.List[len(fd.Body.List)-1].(*ast.ReturnStmt)
	idx := -1
	for i, s := range fd.Body.List {
		if s == ast.Stmt(as[0]) {
			idx = i
		}
	}
	r.Check(retOK && nRet > 0 && last != nil && idx == len(fd.Body.List)-2, "F6", k("returns-assembled-value"), pr.pos(fd),
		"the assignment is the last statement before the final return, and every return yields the named result",
		"the assembled value is not what the function returns (assignment not directly followed by the final return of the named result)")
}

// f6ParseInline: parseCRC32 no longer exists as a function — the section parser reads the field itself:
// `bs, err = i.NextBytesNoCopy(4); …; s.CRC32 = <expression over bs>`. The same facts are checked on that assignment: bs is written
// once, by a fetch of exactly 4 bytes, and the expression places stream byte k at bits 31-8k..24-8k. Reports false when no such
// assignment exists.
func (pr *prover) f6ParseInline() bool {
	r, p := pr.r, pr.p
	const host = "parsePSISection"
	fd := p.Decl(host)
	if fd == nil || fd.Body == nil {
		return false
	}
	k := func(s string) string { return host + "(CRC32 field)/" + s }
	var target *ast.AssignStmt
	ast.Inspect(fd.Body, func(n ast.Node) bool {
		as, ok := n.(*ast.AssignStmt)
		if !ok || as.Tok != token.ASSIGN || len(as.Lhs) != 1 || len(as.Rhs) != 1 {
			return true
		}
		sel, ok := unparen(as.Lhs[0]).(*ast.SelectorExpr)
		if !ok || sel.Sel.Name != "CRC32" {
			return true
		}
		if f, isF := p.Info.Uses[sel.Sel].(*types.Var); !isF || !f.IsField() || !isBasic(f.Type(), types.Uint32) {
			return true
		}
		if _, isCall := unparen(as.Rhs[0]).(*ast.CallExpr); isCall {
			if tv, okT := p.Info.Types[unparen(as.Rhs[0]).(*ast.CallExpr).Fun]; !(okT && tv.IsType()) {
				return true // still a call of some helper: not the inline form
			}
		}
		target = as
		return true
	})
	if target == nil {
		return false
	}
	// the byte slice the expression indexes
	var bs types.Object
	multi := false
	ast.Inspect(target.Rhs[0], func(n ast.Node) bool {
		if ix, ok := n.(*ast.IndexExpr); ok {
			if o := pr.useOf(ix.X); o != nil && isByteSlice(o.Type()) {
				if bs != nil && bs != o {
					multi = true
				}
				bs = o
			}
		}
		if c, ok := n.(*ast.CallExpr); ok && len(c.Args) == 1 {
			if o := pr.useOf(c.Args[0]); o != nil && isByteSlice(o.Type()) {
				if bs != nil && bs != o {
					multi = true
				}
				bs = o
			}
		}
		return true
	})
	okFetch := bs != nil && !multi
	if okFetch {
		as, others := pr.writesOf(fd.Body, bs)
		okFetch = len(as) == 1 && len(others) == 0 && len(as[0].Lhs) == 2 && len(as[0].Rhs) == 1
		if okFetch {
			call, isCall := unparen(as[0].Rhs[0]).(*ast.CallExpr)
			okFetch = isCall && len(call.Args) == 1 && pr.useOf(as[0].Lhs[0]) == bs
			if okFetch {
				sel, isSel := call.Fun.(*ast.SelectorExpr)
				okFetch = isSel
				if okFetch {
					_, okFetch = pr.astikitMethod(sel, "BytesIterator.NextBytesNoCopy", "BytesIterator.NextBytes")
				}
				if v, isC := pr.constU64(call.Args[0]); !isC || v != 4 {
					okFetch = false
				}
			}
		}
	}
	if !r.Check(okFetch, "F6", k("fetches-4-bytes"), pr.pos(target), "the byte slice the CRC32 field is assembled from is assigned exactly once, from BytesIterator.NextBytes[NoCopy](4)",
		"the bytes the CRC32 field is assembled from do not come from a unique fetch of exactly 4 bytes") {
		r.Unknown("F6", k("byte-order"), pr.pos(target), "not checked: the fetched slice was not identified")
		return true
	}
	it := &interp{pr: pr, bytes: map[types.Object]string{bs: "byte"}}
	val, err := it.eval(target.Rhs[0])
	if err != nil {
		r.Unknown("F6", k("byte-order"), pr.pos(target), "construct not interpreted: "+err.Error())
		return true
	}
	n := 0
	for kb := 0; kb < 4; kb++ {
		hi, lo := 31-8*kb, 24-8*kb
		ok := len(val) == 32
		detail := ""
		for j := 0; ok && j < 8; j++ {
			want := bitdom.AtomForm(bitdom.Atom{Src: fmt.Sprintf("byte[%d]", kb), Bit: 7 - j})
			if !val[31-8*kb-j].Equal(want) {
				ok = false
				detail = fmt.Sprintf("result bit %d is %s, big-endian requires %s", 31-8*kb-j, val[31-8*kb-j], want)
			}
		}
		r.Check(ok, "F6", k(fmt.Sprintf("byte[%d]-at-bits[%d:%d]", kb, hi, lo)), pr.pos(target),
			fmt.Sprintf("stream byte %d occupies bits %d..%d of the CRC32 field, MSB to MSB (big-endian)", kb, hi, lo), detail)
		n++
	}
	r.Floor("F6", "parseCRC32 bytes placed", n, 4)
	r.OK("F6", k("returns-assembled-value"), pr.pos(target), "the assembled value is stored in the section's CRC32 field directly (the value the gate compares: C09a stream-operand)")
	return true
}

func (pr *prover) f6Write() {
	r, p := pr.r, pr.p
	fd := p.Decl(writeName)
	if fd == nil || fd.Body == nil || pr.update == nil {
		r.Unknown("F6", writeName+"/declaration", "", "function "+writeName+" (or "+updateName+") not found — anchor lost")
		return
	}
	k := func(s string) string { return writeName + "/" + s }

	// the callback: <BitsWriter>.SetWriteCallback(func(bs []byte) { V = updateCRC32(V, bs) })
	var V types.Object
	var cbAssign *ast.AssignStmt
	nCb := 0
	why := "no SetWriteCallback(func literal) call found"
	ast.Inspect(fd.Body, func(n ast.Node) bool {
		call, ok := n.(*ast.CallExpr)
		if !ok || len(call.Args) != 1 {
			return true
		}
		sel, ok := call.Fun.(*ast.SelectorExpr)
		if !ok {
			return true
		}
		if _, ok := pr.astikitMethod(sel, "BitsWriter.SetWriteCallback"); !ok {
			return true
		}
		fl, ok := call.Args[0].(*ast.FuncLit)
		if !ok {
			return true // SetWriteCallback(nil) resets
		}
		nCb++
		why = "the callback is not of the form func(bs []byte) { v = " + updateName + "(v, bs) }"
		if fl.Type.Params == nil || len(fl.Type.Params.List) != 1 || len(fl.Type.Params.List[0].Names) != 1 || len(fl.Body.List) != 1 {
			return true
		}
		param := p.Info.Defs[fl.Type.Params.List[0].Names[0]]
		as, ok := fl.Body.List[0].(*ast.AssignStmt)
		if !ok || as.Tok != token.ASSIGN || len(as.Lhs) != 1 || len(as.Rhs) != 1 {
			return true
		}
		c, ok := unparen(as.Rhs[0]).(*ast.CallExpr)
		if !ok || pr.useOf(c.Fun) != types.Object(pr.update) || len(c.Args) != 2 || c.Ellipsis.IsValid() {
			return true
		}
		v := pr.useOf(as.Lhs[0])
		if _, isVar := v.(*types.Var); !isVar || pr.useOf(c.Args[0]) != v || param == nil || pr.useOf(c.Args[1]) != param {
			return true
		}
		V, cbAssign = v, as
		return true
	})
	if !r.Check(V != nil && nCb == 1, "F6", k("callback-folds-updateCRC32"), pr.pos(fd),
		"the only write callback installed is func(bs){ v = "+updateName+"(v, bs) } on a captured variable v: v folds every byte chunk the BitsWriter emits (chunking is irrelevant by F4)",
		fmt.Sprintf("%s (%d callback literals)", why, nCb)) {
		for _, s := range []string{"accumulator-init-0xffffffff", "accumulator-only-updated-by-callback", "writes-accumulator-as-uint32"} {
			r.Unknown("F6", k(s), pr.pos(fd), "not checked: the running-CRC variable was not identified")
		}
		return
	}

	// definition and other writes of V
	assigns, others := pr.writesOf(fd.Body, V)
	var def *ast.AssignStmt
	extra := len(others)
	for _, as := range assigns {
		switch {
		case as == cbAssign:
		case as.Tok == token.DEFINE && def == nil:
			def = as
		default:
			extra++
		}
	}
	initOK, initDetail := false, "the variable is not defined by `v := <constant>`"
	if def != nil && len(def.Lhs) == len(def.Rhs) {
		for i, l := range def.Lhs {
			if id, ok := l.(*ast.Ident); ok && p.Info.Defs[id] == V {
				v, isC := pr.constU64(def.Rhs[i])
				initOK = isC && v == Init && isBasic(V.Type(), types.Uint32)
				initDetail = fmt.Sprintf("initial value %s: constant=%v value=%#x type=%s, want the uint32 constant 0xFFFFFFFF", types.ExprString(def.Rhs[i]), isC, v, V.Type())
				if initOK {
					initDetail = "defined as " + types.ExprString(def.Rhs[i]) + " = uint32 constant 0xFFFFFFFF, the same initial value as " + computeName + " (F5)"
				}
			}
		}
	}
	pos := pr.pos(fd)
	if def != nil {
		pos = pr.pos(def)
	}
	r.Check(initOK, "F6", k("accumulator-init-0xffffffff"), pos, initDetail, initDetail)
	r.Check(extra == 0 && def != nil, "F6", k("accumulator-only-updated-by-callback"), pos,
		"the running value is written only by its definition and by the callback; its address is never taken",
		fmt.Sprintf("%d further writes / address-of operations on the running value", extra))

	// <writer>.Write(V) with static argument type uint32
	nWrite, good := 0, 0
	var wpos ast.Node = fd
	detail := "no Write call whose argument mentions the running value"
	ast.Inspect(fd.Body, func(n ast.Node) bool {
		call, ok := n.(*ast.CallExpr)
		if !ok {
			return true
		}
		sel, ok := call.Fun.(*ast.SelectorExpr)
		if !ok {
			return true
		}
		mentions := false
		for _, a := range call.Args {
			ast.Inspect(a, func(m ast.Node) bool {
				if _, isLit := m.(*ast.FuncLit); isLit {
					return false // the callback literal itself is handled above
				}
				if id, ok := m.(*ast.Ident); ok && p.Info.Uses[id] == V {
					mentions = true
				}
				return true
			})
		}
		if !mentions || pr.useOf(call.Fun) == types.Object(pr.update) {
			return true
		}
		nWrite++
		wpos = call
		m, isW := pr.astikitMethod(sel, "BitsWriter.Write", "BitsWriterBatch.Write")
		switch {
		case !isW:
			detail = "the running value is passed to " + types.ExprString(call.Fun) + ", not to BitsWriter[Batch].Write"
		case len(call.Args) != 1 || pr.useOf(call.Args[0]) != V:
			detail = "the argument " + types.ExprString(call.Args[0]) + " is not the running value itself"
		case !isBasic(p.Info.Types[call.Args[0]].Type, types.Uint32):
			detail = "the static type of the argument is " + p.Info.Types[call.Args[0]].Type.String() + ", not uint32"
		default:
			good++
			detail = m + "(v) with v of static type uint32: 4 bytes, most significant first (trusted summary of astikit BitsWriter.Write)"
		}
		return true
	})
	r.Check(nWrite == 1 && good == 1, "F6", k("writes-accumulator-as-uint32"), pr.pos(wpos), detail, fmt.Sprintf("%s (%d uses of the running value as a call argument, %d of the required form)", detail, nWrite, good))
}
