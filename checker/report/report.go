// Package report holds the obligation model, verdict policy, evidence writer and known-findings matching.
package report

import (
	"encoding/json"
	"fmt"
	"os"
	"path/filepath"
	"sort"
	"strconv"
	"strings"
	"sync"
	"time"
)

// Status of an obligation.
type Status string

const (
	Discharged Status = "discharged"
	Violated   Status = "violated"
	Undecided  Status = "undecided"
)

// Obligation is one rule instance.
type Obligation struct {
	Rule       string `json:"rule"`
	Key        string `json:"key"` // stable: rule/function/construct (never a line number)
	Pos        string `json:"pos,omitempty"`
	Status     Status `json:"status"`
	Detail     string `json:"detail,omitempty"`
	Nontrivial bool   `json:"nontrivial,omitempty"`
}

// Report accumulates the obligations of one property check.
type Report struct {
	Property    string
	Tier        string
	Level       string
	Seed        int64
	Start       time.Time
	Obls        []Obligation
	Explanation string
	RuleText    string
	Trusted     []string
	Assumptions []string
	Counters    map[string]int
	Extra       map[string]interface{}
	Floors      []string // vacuity guards that were evaluated
	keys        map[string]bool
	mu          sync.Mutex
}

// Home is the /verif directory.
func Home() string {
	if h := os.Getenv("VERIF_HOME"); h != "" {
		return h
	}
	return "/verif"
}

// New starts a report.
func New(prop, tier, level string) *Report {
	seed := int64(0)
	if s := os.Getenv("VERIF_SEED"); s != "" {
		if v, err := strconv.ParseInt(s, 10, 64); err == nil {
			seed = v
		}
	}
	return &Report{Property: prop, Tier: tier, Level: level, Seed: seed, Start: time.Now(),
		Counters: map[string]int{}, Extra: map[string]interface{}{}, keys: map[string]bool{}}
}

// Undischarged returns a copy of the obligations recorded so far that are not discharged (safe to call while another
// goroutine is still adding obligations).
func (r *Report) Undischarged() []Obligation {
	r.mu.Lock()
	defer r.mu.Unlock()
	var out []Obligation
	for _, o := range r.Obls {
		if o.Status != Discharged {
			out = append(out, o)
		}
	}
	return out
}

func (r *Report) add(o Obligation) {
	r.mu.Lock()
	defer r.mu.Unlock()
	k := o.Key
	for i := 2; r.keys[k]; i++ {
		k = fmt.Sprintf("%s#%d", o.Key, i)
	}
	o.Key = k
	r.keys[k] = true
	r.Obls = append(r.Obls, o)
}

// OK records a discharged obligation.
func (r *Report) OK(rule, key, pos, detail string) {
	r.add(Obligation{Rule: rule, Key: rule + "/" + key, Pos: pos, Status: Discharged, Detail: detail, Nontrivial: true})
}

// Trivial records a discharged obligation that needed no argument (counted, but not as non-trivial).
func (r *Report) Trivial(rule, key, pos, detail string) {
	r.add(Obligation{Rule: rule, Key: rule + "/" + key, Pos: pos, Status: Discharged, Detail: detail})
}

// Bad records a violated obligation.
func (r *Report) Bad(rule, key, pos, detail string) {
	r.add(Obligation{Rule: rule, Key: rule + "/" + key, Pos: pos, Status: Violated, Detail: detail, Nontrivial: true})
}

// Unknown records an undecided obligation (reported like a violation, kind undecided).
func (r *Report) Unknown(rule, key, pos, detail string) {
	r.add(Obligation{Rule: rule, Key: rule + "/" + key, Pos: pos, Status: Undecided, Detail: detail, Nontrivial: true})
}

// Check records discharged/violated depending on ok.
func (r *Report) Check(ok bool, rule, key, pos, okDetail, badDetail string) bool {
	if ok {
		r.OK(rule, key, pos, okDetail)
	} else {
		r.Bad(rule, key, pos, badDetail)
	}
	return ok
}

// Floor is a vacuity guard: have must be >= min, otherwise the anchor is lost (undecided).
func (r *Report) Floor(rule, what string, have, min int) bool {
	r.Floors = append(r.Floors, fmt.Sprintf("%s: %s = %d (floor %d)", rule, what, have, min))
	if have < min {
		r.Unknown(rule, "floor/"+what, "", fmt.Sprintf("vacuity guard: %s = %d, expected at least %d — the rule's anchor no longer matches the code", what, have, min))
		return false
	}
	return true
}

// Count adds to a named counter.
func (r *Report) Count(name string, n int) { r.Counters[name] += n }

// Keys lists the obligation keys recorded so far.
func (r *Report) Keys() []string {
	out := make([]string, 0, len(r.Obls))
	for _, o := range r.Obls {
		out = append(out, o.Key)
	}
	return out
}

// Assume records an assumption under which obligations were discharged (once).
func (r *Report) Assume(a string) {
	for _, x := range r.Assumptions {
		if x == a {
			return
		}
	}
	r.Assumptions = append(r.Assumptions, a)
}

// KnownFinding is one entry of known_findings.json.
type KnownFinding struct {
	Property  string `json:"property"`
	Key       string `json:"key"`
	WhatFails string `json:"what_fails"`
	Status    string `json:"status"` // open | fixed
	Commit    string `json:"commit,omitempty"`
	Note      string `json:"note,omitempty"`
}

func loadKnown() ([]KnownFinding, error) {
	b, err := os.ReadFile(filepath.Join(Home(), "known_findings.json"))
	if err != nil {
		if os.IsNotExist(err) {
			return nil, nil
		}
		return nil, err
	}
	var f struct {
		Findings []KnownFinding `json:"findings"`
	}
	if err := json.Unmarshal(b, &f); err != nil {
		return nil, fmt.Errorf("known_findings.json: %w", err)
	}
	return f.Findings, nil
}

// Finish writes the evidence, prints VIOLATION / KNOWN-FINDING lines and returns the exit code.
func (r *Report) Finish() int {
	known, err := loadKnown()
	if err != nil {
		fmt.Fprintln(os.Stderr, "astverif:", err)
		return 2
	}
	open := map[string]KnownFinding{}
	for _, k := range known {
		if k.Property == r.Property && k.Status == "open" {
			open[k.Key] = k
		}
	}
	home := Home()
	evdir := filepath.Join(home, "evidence")
	vdir := filepath.Join(evdir, "violations")
	_ = os.MkdirAll(evdir, 0o755)
	// remove stale violation files of this property
	if old, _ := filepath.Glob(filepath.Join(vdir, r.Property+"-*.json")); len(old) > 0 {
		for _, f := range old {
			_ = os.Remove(f)
		}
	}
	sort.SliceStable(r.Obls, func(i, j int) bool { return r.Obls[i].Key < r.Obls[j].Key })
	nViol, nKnown, nDis, nNontriv := 0, 0, 0, 0
	var knownMatched []string
	var lines []string
	printedKnown := map[string]bool{}
	distinct := map[string]bool{}
	for _, o := range r.Obls {
		if o.Nontrivial {
			distinct[o.Key] = true
		}
		switch o.Status {
		case Discharged:
			nDis++
		default:
			// the same construct failing under the second (GOARCH=386) configuration is the same finding
			if k, ok := open[strings.Replace(o.Key, "/386:", "/", 1)]; ok && o.Status == Violated {
				nKnown++
				knownMatched = append(knownMatched, o.Key)
				if printedKnown[k.Key] {
					continue
				}
				printedKnown[k.Key] = true
				lines = append(lines, fmt.Sprintf("KNOWN-FINDING: property=%s %s [%s at %s]", r.Property, k.WhatFails, o.Key, o.Pos))
				continue
			}
			nViol++
			_ = os.MkdirAll(vdir, 0o755)
			path := filepath.Join(vdir, fmt.Sprintf("%s-%d.json", r.Property, nViol))
			vb, _ := json.MarshalIndent(map[string]interface{}{
				"property": r.Property, "kind": string(o.Status), "obligation": o,
				"replay": fmt.Sprintf("%s/bin/astverif check -prop %s -only %q", home, r.Property, o.Key),
			}, "", " ")
			_ = os.WriteFile(path, vb, 0o644)
			fmt.Fprintf(os.Stderr, "%s %s %s: %s\n", strings.ToUpper(string(o.Status)), o.Key, o.Pos, o.Detail)
			lines = append(lines, fmt.Sprintf("VIOLATION property=%s replay=%s", r.Property, path))
		}
	}
	nNontriv = len(distinct)
	// samples: up to 8 obligations, preferring non-trivial ones and any that failed
	var samples []Obligation
	for _, o := range r.Obls {
		if o.Status != Discharged && len(samples) < 8 {
			samples = append(samples, o)
		}
	}
	step := 1
	if len(r.Obls) > 8 {
		step = len(r.Obls) / 8
	}
	for i := 0; i < len(r.Obls) && len(samples) < 8; i += step {
		if r.Obls[i].Status == Discharged {
			samples = append(samples, r.Obls[i])
		}
	}
	cov := map[string]interface{}{
		"obligations":            len(r.Obls),
		"discharged":             nDis,
		"evaluations":            len(r.Obls),
		"distinct_nontrivial":    nNontriv,
		"rule":                   r.RuleText,
		"explanation":            r.Explanation,
		"samples":                samples,
		"checker_cmd":            fmt.Sprintf("bin/astverif check -prop %s -tier %s", r.Property, r.Tier),
		"trusted_base":           r.Trusted,
		"known_findings_matched": knownMatched,
		"vacuity_floors":         r.Floors,
		"counters":               r.Counters,
		"exhaustive":             false,
	}
	for k, v := range r.Extra {
		cov[k] = v
	}
	all := make([]map[string]string, 0, len(r.Obls))
	for _, o := range r.Obls {
		all = append(all, map[string]string{"key": o.Key, "status": string(o.Status), "pos": o.Pos})
	}
	cov["obligation_index"] = all
	if r.Assumptions == nil {
		r.Assumptions = append([]string{}, r.Trusted...)
	}
	if r.Trusted == nil {
		r.Trusted = []string{}
	}
	if knownMatched == nil {
		knownMatched = []string{}
	}
	cov["trusted_base"] = r.Trusted
	cov["known_findings_matched"] = knownMatched
	ev := map[string]interface{}{
		"property_id": r.Property,
		"tier":        r.Tier,
		"seed":        r.Seed,
		"level":       r.Level,
		"coverage":    cov,
		"assumptions": r.Assumptions,
		"wall_s":      float64(time.Since(r.Start).Milliseconds()) / 1000.0,
		"violations":  nViol,
	}
	b, _ := json.MarshalIndent(ev, "", " ")
	if err := os.WriteFile(filepath.Join(evdir, r.Property+".json"), append(b, '\n'), 0o644); err != nil {
		fmt.Fprintln(os.Stderr, "astverif: writing evidence:", err)
		return 2
	}
	for _, l := range lines {
		fmt.Println(l)
	}
	fmt.Printf("%s tier=%s obligations=%d discharged=%d known=%d violations=%d wall=%.1fs\n",
		r.Property, r.Tier, len(r.Obls), nDis, nKnown, nViol, time.Since(r.Start).Seconds())
	if len(r.Obls) == 0 {
		fmt.Fprintln(os.Stderr, "astverif: no obligations generated — check is vacuous")
		return 2
	}
	if nViol > 0 {
		return 1
	}
	return 0
}
