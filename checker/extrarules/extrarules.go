// Package extrarules holds small additional SSA rules added after independent reviewers' changes showed
// gaps in the per-property rule sets.
package extrarules

import (
	"fmt"
	"go/token"
	"go/types"
	"strings"

	"astverif/load"
	"astverif/report"
	"astverif/ssau"

	"golang.org/x/tools/go/ssa"
)

func loopHeaders(f *ssa.Function) map[*ssa.BasicBlock]bool {
	hs := map[*ssa.BasicBlock]bool{}
	for _, b := range f.Blocks {
		for _, s := range b.Succs {
			if s.Dominates(b) {
				hs[s] = true
			}
		}
	}
	return hs
}

// FirstMatchWins (C08): the packet size returned by the auto-detection is the position of the FIRST
// sync byte at or after offset 188: the value returned is the scan index of the iteration that found
// it (the function leaves the loop there), never a value carried over further iterations.
func FirstMatchWins(p *load.Program, r *report.Report, fnKey string) {
	const rule, key = "resync", "autoDetectPacketSize/first-match-wins"
	f := p.Func(fnKey)
	if f == nil {
		r.Unknown(rule, key, "", "anchor function not found")
		return
	}
	hs := loopHeaders(f)
	if len(hs) == 0 {
		r.Unknown(rule, key, p.Pos(f.Pos()), "no scan loop found")
		return
	}
	n, unit := 0, 0
	for _, ret := range ssau.Returns(f) {
		if len(ret.Results) == 0 {
			continue
		}
		if _, isConst := ret.Results[0].(*ssa.Const); isConst {
			continue
		}
		n++
		for _, phi := range phisOf(ret.Results[0]) {
			if !hs[phi.Block()] {
				continue
			}
			// a header phi is fine only if it is the scan index itself (incremented by one per iteration)
			isIndex := false
			for i, e := range phi.Edges {
				if !phi.Block().Dominates(phi.Block().Preds[i]) {
					continue
				}
				if b, ok := e.(*ssa.BinOp); ok && b.Op == token.ADD && b.X == ssa.Value(phi) {
					if k, ok := ssau.ConstInt(b.Y); ok && k == 1 {
						isIndex = true
					}
				}
			}
			if !isIndex {
				r.Bad(rule, key, p.Pos(ret.Pos()), "the returned packet size is a value carried across iterations of the scan loop (the last match, not the first): a 0x47 byte inside the second packet's first bytes changes the detected size")
				return
			}
		}
		// every offset is a candidate: the detected size is the position of a unit-step scan (the induction variable of a
		// loop, or its successor in the rotated form of `for i := range`), not an element of a list of expected sizes —
		// sizes 189, 190 and 191 are detected like 188 and 192
		for _, lf := range scanLeaves(ret.Results[0], hs) {
			if _, isConst := lf.(*ssa.Const); isConst {
				continue
			}
			if !isUnitStepIndex(lf, hs) {
				r.Bad(rule, "autoDetectPacketSize/every-offset-is-a-candidate", p.Pos(ret.Pos()), "the returned packet size ("+lf.String()+") is not the position of a unit-step scan over the peeked bytes: only some offsets between 188 and 192 can be detected")
				return
			}
			unit++
		}
	}
	if n > 0 {
		if unit > 0 {
			r.OK(rule, "autoDetectPacketSize/every-offset-is-a-candidate", p.Pos(f.Pos()), fmt.Sprintf("%d detected-size values, each the induction variable of a unit-step scan", unit))
		} else {
			r.Unknown(rule, "autoDetectPacketSize/every-offset-is-a-candidate", p.Pos(f.Pos()), "no non-constant detected size found")
		}
	}
	if n == 0 {
		r.Unknown(rule, key, p.Pos(f.Pos()), "no return of a detected packet size found")
		return
	}
	r.OK(rule, key, p.Pos(f.Pos()), fmt.Sprintf("%d returns of a detected size, each the scan index of the iteration that matched", n))
}

// scanLeaves resolves v through spill slots and phis that are not loop headers.
func scanLeaves(v ssa.Value, hs map[*ssa.BasicBlock]bool) []ssa.Value {
	var out []ssa.Value
	seen := map[ssa.Value]bool{}
	var rec func(v ssa.Value)
	rec = func(v ssa.Value) {
		if v == nil || seen[v] {
			return
		}
		seen[v] = true
		switch x := v.(type) {
		case *ssa.Phi:
			if hs[x.Block()] {
				out = append(out, x)
				return
			}
			for _, e := range x.Edges {
				rec(e)
			}
			return
		case *ssa.UnOp:
			if x.Op == token.MUL {
				if a, ok := x.X.(*ssa.Alloc); ok && ssau.SpillSlot(a) {
					vals, zero := ssau.ReachingStores(a, x)
					for _, s := range vals {
						rec(s)
					}
					if zero && len(vals) == 0 {
						out = append(out, ssa.NewConst(nil, x.Type()))
					}
					return
				}
			}
		case *ssa.Convert:
			rec(x.X)
			return
		case *ssa.ChangeType:
			rec(x.X)
			return
		}
		out = append(out, v)
	}
	rec(v)
	return out
}

// isUnitStepIndex: v is a loop-header phi whose back edge brings v+1, or that v+1 itself.
func isUnitStepIndex(v ssa.Value, hs map[*ssa.BasicBlock]bool) bool {
	isIdx := func(phi *ssa.Phi) bool {
		if !hs[phi.Block()] {
			return false
		}
		for i, e := range phi.Edges {
			if !phi.Block().Dominates(phi.Block().Preds[i]) {
				continue
			}
			if b, ok := e.(*ssa.BinOp); ok && b.Op == token.ADD && b.X == ssa.Value(phi) {
				if k, ok := ssau.ConstInt(b.Y); ok && k == 1 {
					return true
				}
			}
		}
		return false
	}
	switch x := v.(type) {
	case *ssa.Phi:
		return isIdx(x)
	case *ssa.BinOp:
		if x.Op == token.ADD {
			if k, ok := ssau.ConstInt(x.Y); ok && k == 1 {
				if phi, ok := x.X.(*ssa.Phi); ok {
					return isIdx(phi)
				}
			}
		}
	}
	return false
}

// phisOf lists the phi nodes a value is built from (through phis and spill slots).
func phisOf(v ssa.Value) []*ssa.Phi {
	var out []*ssa.Phi
	seen := map[ssa.Value]bool{}
	var rec func(v ssa.Value)
	rec = func(v ssa.Value) {
		if v == nil || seen[v] {
			return
		}
		seen[v] = true
		switch x := v.(type) {
		case *ssa.Phi:
			out = append(out, x)
			for _, e := range x.Edges {
				rec(e)
			}
		case *ssa.UnOp:
			if x.Op == token.MUL {
				if a, ok := x.X.(*ssa.Alloc); ok && ssau.SpillSlot(a) {
					vals, _ := ssau.ReachingStores(a, x)
					for _, s := range vals {
						rec(s)
					}
				}
			}
		}
	}
	rec(v)
	return out
}

// fieldStores lists the stores to field `field` of struct type `typ` inside f.
func fieldStores(f *ssa.Function, typ, field string) []*ssa.Store {
	var out []*ssa.Store
	for _, b := range f.Blocks {
		for _, in := range b.Instrs {
			st, ok := in.(*ssa.Store)
			if !ok {
				continue
			}
			fa, ok := st.Addr.(*ssa.FieldAddr)
			if !ok {
				continue
			}
			if n, _ := ssau.FieldName(fa); n != field {
				continue
			}
			if ssau.IsNamed(fa.X.Type(), load.RootPath, typ) {
				out = append(out, st)
			}
		}
	}
	return out
}

// SharedProgramMap (C20): the packet pool created by Rewind is built on the program map the Demuxer
// keeps using: a store to Demuxer.programMap in Rewind (allowed: resetting it as well) must precede the
// construction of the new pool, whose argument is loaded from the field after that store.
func SharedProgramMap(p *load.Program, r *report.Report) {
	const rule, key = "reset", "(*Demuxer).Rewind/new-pool-shares-current-program-map"
	f := p.Func("Demuxer.Rewind")
	if f == nil {
		r.Unknown(rule, key, "", "anchor function not found")
		return
	}
	var ctor *ssa.Call
	for _, ci := range ssau.Calls(f) {
		if c, ok := ci.(*ssa.Call); ok {
			if cal := c.Call.StaticCallee(); cal != nil && cal.Name() == "newPacketPool" {
				ctor = c
			}
		}
	}
	if ctor == nil {
		r.Unknown(rule, key, p.Pos(f.Pos()), "Rewind does not construct a packet pool with newPacketPool")
		return
	}
	// argument must be a load of dmx.programMap
	argOK := false
	if len(ctor.Call.Args) == 1 {
		if u, ok := ctor.Call.Args[0].(*ssa.UnOp); ok && u.Op == token.MUL {
			if fa, ok := u.X.(*ssa.FieldAddr); ok {
				if n, _ := ssau.FieldName(fa); n == "programMap" {
					argOK = true
					for _, st := range fieldStores(f, "Demuxer", "programMap") {
						if !ssau.InstrBefore(st, u) {
							r.Bad(rule, key, p.Pos(st.Pos()), "Demuxer.programMap is replaced after the new packet pool was built on the old map: the pool never learns the PMT PIDs of later PATs")
							return
						}
					}
				}
			}
		}
	}
	if !argOK {
		r.Bad(rule, key, p.Pos(ctor.Pos()), "the new packet pool is not built on dmx.programMap")
		return
	}
	// nobody else replaces the map
	for _, g := range p.SrcFuncs() {
		if g == f || g.Name() == "NewDemuxer" {
			continue
		}
		if sts := fieldStores(g, "Demuxer", "programMap"); len(sts) > 0 {
			r.Bad(rule, key, p.Pos(sts[0].Pos()), load.FuncName(g)+" replaces Demuxer.programMap while the packet pool keeps the old one")
			return
		}
	}
	r.OK(rule, key, p.Pos(ctor.Pos()), "newPacketPool(dmx.programMap) with the field's final value; no other function replaces the map")
}

// SkipperAlwaysInstalled (C19): every packetBuffer is created by newPacketBuffer, which stores its skipper
// parameter, and the Demuxer passes its configured skipper: no way to obtain a buffer that ignores it.
func SkipperAlwaysInstalled(p *load.Program, r *report.Report) {
	const rule = "S5"
	ctor := p.Func("newPacketBuffer")
	if ctor == nil {
		r.Unknown(rule, "packetBuffer/constructed-with-skipper", "", "anchor function newPacketBuffer not found")
		return
	}
	// (1) allocations of packetBuffer only inside the constructor
	var bad []string
	for _, g := range p.SrcFuncs() {
		for _, b := range g.Blocks {
			for _, in := range b.Instrs {
				if a, ok := in.(*ssa.Alloc); ok && ssau.IsNamed(a.Type().(*types.Pointer).Elem(), load.RootPath, "packetBuffer") && g != ctor {
					bad = append(bad, load.FuncName(g)+" at "+p.Pos(a.Pos()))
				}
			}
		}
	}
	if len(bad) > 0 {
		r.Bad(rule, "packetBuffer/constructed-with-skipper", "", "a packetBuffer is built outside newPacketBuffer ("+strings.Join(bad, ", ")+"): nothing guarantees that it carries the configured PacketSkipper")
	} else {
		r.OK(rule, "packetBuffer/constructed-with-skipper", p.Pos(ctor.Pos()), "packetBuffer values are only allocated by newPacketBuffer")
	}
	// (2) the constructor stores its PacketSkipper parameter into field s
	stored := false
	for _, st := range fieldStores(ctor, "packetBuffer", "s") {
		if prm, ok := st.Val.(*ssa.Parameter); ok && ssau.IsNamed(prm.Type(), load.RootPath, "PacketSkipper") {
			stored = true
		}
	}
	r.Check(stored, rule, "newPacketBuffer/stores-skipper-parameter", p.Pos(ctor.Pos()), "field s receives the PacketSkipper parameter", "newPacketBuffer does not store its PacketSkipper parameter into the buffer")
	// (3) every call of the constructor from Demuxer code passes dmx.optPacketSkipper
	n := 0
	for _, g := range p.SrcFuncs() {
		for _, ci := range ssau.Calls(g) {
			if ci.Common().StaticCallee() != ctor {
				continue
			}
			n++
			ok := false
			for _, a := range ci.Common().Args {
				if u, isU := a.(*ssa.UnOp); isU && u.Op == token.MUL {
					if fa, isFA := u.X.(*ssa.FieldAddr); isFA {
						if nm, _ := ssau.FieldName(fa); nm == "optPacketSkipper" {
							ok = true
						}
					}
				}
			}
			r.Check(ok, rule, load.FuncName(g)+"/passes-configured-skipper", p.Pos(ci.Pos()), "newPacketBuffer receives dmx.optPacketSkipper", "the packet buffer is created without the Demuxer's configured PacketSkipper")
		}
	}
	r.Floor(rule, "newPacketBuffer call sites", n, 1)
}
