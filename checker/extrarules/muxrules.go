package extrarules

import (
	"fmt"
	"go/token"
	"go/types"

	"astverif/load"
	"astverif/muxstate"
	"astverif/report"
	"astverif/ssau"

	"golang.org/x/tools/go/ssa"
)

// structFieldStores collects the stores into field `field` of values of the named struct type in f.
func structFieldStores(f *ssa.Function, typeName, field string) []*ssa.Store {
	var out []*ssa.Store
	for _, b := range f.Blocks {
		for _, in := range b.Instrs {
			st, ok := in.(*ssa.Store)
			if !ok {
				continue
			}
			fa, ok := st.Addr.(*ssa.FieldAddr)
			if !ok {
				continue
			}
			n, _ := ssau.FieldName(fa)
			if n != field {
				continue
			}
			pt, ok := fa.X.Type().Underlying().(*types.Pointer)
			if !ok || !ssau.IsNamed(pt.Elem(), load.RootPath, typeName) {
				continue
			}
			out = append(out, st)
		}
	}
	return out
}

// dominatedByTrueEdge: block b is only reachable through the true edge of an If whose condition satisfies pred.
func dominatedByEdge(b *ssa.BasicBlock, want bool, pred func(cond ssa.Value) bool) bool {
	for cur := b; cur != nil; cur = cur.Idom() {
		d := cur.Idom()
		if d == nil {
			return false
		}
		iff, ok := d.Instrs[len(d.Instrs)-1].(*ssa.If)
		if !ok {
			continue
		}
		// `!c` taken on its false edge is c taken on its true edge (switch { case !c: … default: … })
		cond, w := iff.Cond, want
		for {
			u, isNot := cond.(*ssa.UnOp)
			if !isNot || u.Op != token.NOT {
				break
			}
			cond, w = u.X, !w
		}
		idx := 1
		if w {
			idx = 0
		}
		s := d.Succs[idx]
		other := d.Succs[1-idx]
		via := (s == cur || s.Dominates(cur)) && len(s.Preds) == 1 && other != s
		if via && (pred(cond) || (cond != iff.Cond && w == want && pred(iff.Cond))) {
			return true
		}
	}
	return false
}

// PUSIOnlyWithPESHeader (C04): in (*Muxer).WriteData payload_unit_start_indicator is set to true only on the branch on
// which the PES header is written — the branch guarded by the same `payloadStart` value that is handed to writePESData
// as isPayloadStart — and is otherwise the constant false. A packet flagged PUSI without a PES start code, or a PES
// header in a packet not flagged, breaks every demuxer.
func PUSIOnlyWithPESHeader(p *load.Program, r *report.Report) {
	f := p.Func("Muxer.WriteData")
	if f == nil {
		r.Unknown("S5", "(*Muxer).WriteData/pusi/anchor", "", "function not found")
		return
	}
	// the value passed as isPayloadStart
	var startVal ssa.Value
	for _, b := range f.Blocks {
		for _, in := range b.Instrs {
			if c, ok := in.(*ssa.Call); ok {
				if cal := c.Call.StaticCallee(); cal != nil && cal.Name() == "writePESData" && len(c.Call.Args) >= 4 {
					startVal = c.Call.Args[3]
				}
			}
		}
	}
	key := "(*Muxer).WriteData/pusi-only-with-pes-header"
	if startVal == nil {
		r.Unknown("S5", key, p.Pos(f.Pos()), "the writePESData call (isPayloadStart argument) was not found")
		return
	}
	stores := structFieldStores(f, "PacketHeader", "PayloadUnitStartIndicator")
	n := 0
	for _, st := range stores {
		c, isC := st.Val.(*ssa.Const)
		if isC && c.Value != nil && c.Value.String() == "false" {
			continue
		}
		n++
		if !isC {
			r.Bad("S5", key, p.Pos(st.Pos()), "payload_unit_start_indicator is computed ("+st.Val.String()+") instead of being set on the branch that writes the PES header: it can be set on a packet that carries no PES header")
			return
		}
		ok := dominatedByEdge(st.Block(), true, func(cond ssa.Value) bool { return cond == startVal })
		if !ok {
			r.Bad("S5", key, p.Pos(st.Pos()), "payload_unit_start_indicator is set outside the branch guarded by the value passed to writePESData as isPayloadStart")
			return
		}
	}
	if n == 0 {
		r.Bad("S5", key, p.Pos(f.Pos()), "payload_unit_start_indicator is never set")
		return
	}
	r.OK("S5", key, p.Pos(f.Pos()), fmt.Sprintf("%d store(s) of true, each under the true edge of the isPayloadStart value; every other store is the constant false", n))
}

// IncOnlyForPayloadPackets (C05): the elementary stream continuity counter is incremented only for packets that carry a
// payload (ISO 13818-1 2.4.3.3: it shall not be incremented when adaptation_field_control is '10'): the inc() call sits
// under the true edge of a test of pkt.Header.HasPayload.
func IncOnlyForPayloadPackets(p *load.Program, r *report.Report) {
	f := p.Func("Muxer.WriteData")
	key := "(*Muxer).WriteData/cc.inc-only-for-payload-packets"
	if f == nil {
		r.Unknown("CC-sites", key, "", "function not found")
		return
	}
	n := 0
	for _, b := range f.Blocks {
		for _, in := range b.Instrs {
			c, ok := in.(*ssa.Call)
			if !ok {
				continue
			}
			cal := c.Call.StaticCallee()
			if cal == nil || cal.Name() != "inc" || cal.Signature.Recv() == nil {
				continue
			}
			n++
			isHasPayload := func(cond ssa.Value) bool {
				vals := append([]ssa.Value{cond}, ssau.Leaves(cond)...)
				for _, l := range vals {
					u, ok := l.(*ssa.UnOp)
					if !ok {
						continue
					}
					if fa, ok := u.X.(*ssa.FieldAddr); ok {
						if nm, _ := ssau.FieldName(fa); nm == "HasPayload" {
							return true
						}
					}
				}
				return false
			}
			if dominatedByEdge(b, true, isHasPayload) {
				r.OK("CC-sites", key, p.Pos(c.Pos()), "the increment is under the true edge of a test of pkt.Header.HasPayload")
			} else {
				r.Bad("CC-sites", key, p.Pos(c.Pos()), "the continuity counter is incremented on a path that is not restricted to packets with a payload: an adaptation-field-only packet would consume a counter value")
			}
		}
	}
	if n == 0 {
		r.Unknown("CC-sites", key, p.Pos(f.Pos()), "no counter increment found in WriteData")
	}
}

// SkipperSeesEveryPacket (C19): in parsePacket every return that hands out a packet without an error is reached
// through the skipper test (the `s != nil` branch): no kind of packet bypasses the predicate.
func SkipperSeesEveryPacket(p *load.Program, r *report.Report) {
	f := p.Func("parsePacket")
	key := "parsePacket/skipper-dominates-success-returns"
	if f == nil {
		r.Unknown("S5", key, "", "function not found")
		return
	}
	// the test `s != nil` on the PacketSkipper parameter
	var test *ssa.BasicBlock
	for _, b := range f.Blocks {
		if len(b.Instrs) == 0 {
			continue
		}
		iff, ok := b.Instrs[len(b.Instrs)-1].(*ssa.If)
		if !ok {
			continue
		}
		bo, ok := iff.Cond.(*ssa.BinOp)
		if !ok {
			continue
		}
		for _, v := range []ssa.Value{bo.X, bo.Y} {
			if prm, ok := v.(*ssa.Parameter); ok {
				if n, ok := prm.Type().(*types.Named); ok && n.Obj().Name() == "PacketSkipper" {
					test = b
				}
			}
		}
	}
	if test == nil {
		// the consultation may live in a helper that is handed the skipper parameter (its shape is rule S5/skipper-called-once)
		for _, b := range f.Blocks {
			for _, in := range b.Instrs {
				c, ok := in.(*ssa.Call)
				if !ok || c.Call.StaticCallee() == nil || c.Call.StaticCallee().Pkg != f.Pkg {
					continue
				}
				for _, arg := range c.Call.Args {
					if prm, ok := arg.(*ssa.Parameter); ok {
						if n, ok := prm.Type().(*types.Named); ok && n.Obj().Name() == "PacketSkipper" {
							test = b
						}
					}
				}
			}
		}
	}
	if test == nil {
		r.Unknown("S5", key, p.Pos(f.Pos()), "the test of the PacketSkipper parameter was not found")
		return
	}
	ei := ssau.ErrorResultIndex(f.Signature)
	n, bad := 0, ""
	for _, b := range f.Blocks {
		for _, in := range b.Instrs {
			ret, ok := in.(*ssa.Return)
			if !ok || ei < 0 || ei >= len(ret.Results) {
				continue
			}
			// success returns: every return whose error is not provably non-nil
			if muxstate.ExemptReturn(ret) {
				continue
			}
			n++
			if !test.Dominates(b) {
				bad = p.Pos(ret.Pos())
			}
		}
	}
	switch {
	case n == 0:
		r.Unknown("S5", key, p.Pos(f.Pos()), "no success return found")
	case bad != "":
		r.Bad("S5", key, bad, "a packet can be returned without the PacketSkipper having been consulted (the skipper test does not dominate this success return): some packets bypass the predicate")
	default:
		r.OK("S5", key, p.Pos(f.Pos()), fmt.Sprintf("the skipper test dominates all %d success returns", n))
	}
}
