package extrarules

import (
	"fmt"
	"go/types"
	"sort"
	"strings"

	"astverif/load"
	"astverif/report"
	"astverif/ssau"

	"golang.org/x/tools/go/ssa"
)

// allFunctions lists every function of the analysed package with a body, closures included (named Parent$N).
func allFunctions(p *load.Program) []*ssa.Function {
	var out []*ssa.Function
	seen := map[*ssa.Function]bool{}
	var add func(f *ssa.Function)
	add = func(f *ssa.Function) {
		if f == nil || seen[f] || len(f.Blocks) == 0 {
			return
		}
		seen[f] = true
		out = append(out, f)
		for _, a := range f.AnonFuncs {
			add(a)
		}
	}
	for _, m := range p.SSAPkg.Members {
		switch x := m.(type) {
		case *ssa.Function:
			add(x)
		case *ssa.Type:
			for _, t := range []types.Type{x.Type(), types.NewPointer(x.Type())} {
				ms := p.SSA.MethodSets.MethodSet(t)
				for i := 0; i < ms.Len(); i++ {
					add(p.SSA.MethodValue(ms.At(i)))
				}
			}
		}
	}
	sort.Slice(out, func(i, j int) bool { return out[i].String() < out[j].String() })
	return out
}

// FuncKey is the short name used in rule tables: "(*T).m", "f", "f$1".
func FuncKey(f *ssa.Function) string {
	s := f.String()
	s = strings.ReplaceAll(s, load.RootPath+".", "")
	return s
}

// allowedFn: f is one of the functions named in ok, or runs only as part of one: a function literal of an allowed function, or an
// unexported function whose every use in the package is a plain call from a function for which the same holds (a helper carved
// out of it).
func allowedFn(p *load.Program, f *ssa.Function, ok map[string]bool, depth int) bool {
	if ok[FuncKey(f)] {
		return true
	}
	if depth > 3 {
		return false
	}
	if par := f.Parent(); par != nil {
		return allowedFn(p, par, ok, depth+1)
	}
	if f.Object() != nil && f.Object().Exported() {
		return false
	}
	n := 0
	for _, g := range allFunctions(p) {
		if inTest(p, g) {
			continue
		}
		for _, b := range g.Blocks {
			for _, in := range b.Instrs {
				for _, op := range in.Operands(nil) {
					if op == nil || *op != ssa.Value(f) {
						continue
					}
					c, isCall := in.(*ssa.Call)
					if !isCall || c.Call.Value != ssa.Value(f) {
						return false // deferred, spawned or used as a value
					}
					n++
					if g == f || !allowedFn(p, g, ok, depth+1) {
						return false
					}
				}
			}
		}
	}
	return n > 0
}

func inTest(p *load.Program, f *ssa.Function) bool {
	return strings.HasSuffix(p.Fset.Position(f.Pos()).Filename, "_test.go")
}

// WhoMayCall: every static call site of callee (a function key such as "newPacketBuffer" or "(*programMap).unsetUnlocked")
// lies in one of the allowed functions. min is the vacuity floor on the number of sites (0 = the callee may be unused).
func WhoMayCall(p *load.Program, r *report.Report, rule, key, callee string, allowed []string, min int, why string) {
	target := p.Func(callee)
	if target == nil {
		if min == 0 {
			r.OK(rule, key, "", "function "+callee+" does not exist (nothing to call)")
			return
		}
		r.Unknown(rule, key, "", "anchor function "+callee+" not found")
		return
	}
	ok := map[string]bool{}
	for _, a := range allowed {
		ok[a] = true
	}
	var sites, bad []string
	for _, f := range allFunctions(p) {
		if inTest(p, f) {
			continue
		}
		for _, b := range f.Blocks {
			for _, in := range b.Instrs {
				uses := false
				if ci, isCall := in.(ssa.CallInstruction); isCall && ci.Common().StaticCallee() == target {
					uses = true
				}
				// the function taken as a value (stored, passed on) counts as a call that could happen anywhere
				for _, op := range in.Operands(nil) {
					if op != nil && *op == ssa.Value(target) {
						if ci, isCall := in.(ssa.CallInstruction); !isCall || ci.Common().Value != ssa.Value(target) {
							uses = true
						}
					}
				}
				if !uses {
					continue
				}
				site := FuncKey(f) + " at " + p.Pos(in.Pos())
				sites = append(sites, site)
				if !allowedFn(p, f, ok, 0) {
					bad = append(bad, site)
				}
			}
		}
	}
	if len(sites) < min {
		r.Unknown(rule, key, p.Pos(target.Pos()), fmt.Sprintf("vacuity guard: %d call sites of %s, expected at least %d", len(sites), callee, min))
		return
	}
	if len(bad) > 0 {
		r.Bad(rule, key, p.Pos(target.Pos()), fmt.Sprintf("%s is called outside %v: %s — %s", callee, allowed, strings.Join(bad, "; "), why))
		return
	}
	r.OK(rule, key, p.Pos(target.Pos()), fmt.Sprintf("%s is called only from %v (%d sites: %s)", callee, allowed, len(sites), strings.Join(sites, "; ")))
}

// fieldOf reports whether addr is the address of field `field` of struct type `typ` (any receiver).
func fieldOf(addr ssa.Value, typ, field string) bool {
	fa, ok := addr.(*ssa.FieldAddr)
	if !ok {
		return false
	}
	n, okn := ssau.FieldName(fa)
	if !okn || n != field {
		return false
	}
	pt, okp := fa.X.Type().Underlying().(*types.Pointer)
	if !okp {
		return false
	}
	named, okn2 := pt.Elem().(*types.Named)
	return okn2 && named.Obj().Name() == typ
}

// loadsField: v is (a value derived by phi from) a load of typ.field.
func loadsField(v ssa.Value, typ, field string, depth int) bool {
	if depth > 6 || v == nil {
		return false
	}
	switch x := v.(type) {
	case *ssa.UnOp:
		return fieldOf(x.X, typ, field)
	case *ssa.Phi:
		for _, e := range x.Edges {
			if loadsField(e, typ, field, depth+1) {
				return true
			}
		}
	case *ssa.Field:
		n, ok := ssau.FieldName(x)
		return ok && n == field
	}
	return false
}

// WhoMayStoreField: stores to typ.field occur only in the allowed functions; pred (optional) restricts the stored values
// that count (e.g. only nil stores).
func WhoMayStoreField(p *load.Program, r *report.Report, rule, key, typ, field string, allowed []string, min int, pred func(v ssa.Value) bool, what, why string) {
	ok := map[string]bool{}
	for _, a := range allowed {
		ok[a] = true
	}
	var sites, bad []string
	for _, f := range allFunctions(p) {
		if inTest(p, f) {
			continue
		}
		for _, b := range f.Blocks {
			for _, in := range b.Instrs {
				st, isSt := in.(*ssa.Store)
				if !isSt || !fieldOf(st.Addr, typ, field) {
					continue
				}
				if pred != nil && !pred(st.Val) {
					continue
				}
				site := FuncKey(f) + " at " + p.Pos(st.Pos())
				sites = append(sites, site)
				if !allowedFn(p, f, ok, 0) {
					bad = append(bad, site)
				}
			}
		}
	}
	if len(sites) < min {
		r.Unknown(rule, key, "", fmt.Sprintf("vacuity guard: %d %s of %s.%s, expected at least %d", len(sites), what, typ, field, min))
		return
	}
	if len(bad) > 0 {
		r.Bad(rule, key, "", fmt.Sprintf("%s of %s.%s outside %v: %s — %s", what, typ, field, allowed, strings.Join(bad, "; "), why))
		return
	}
	r.OK(rule, key, "", fmt.Sprintf("%s of %s.%s occur only in %v (%d sites)", what, typ, field, allowed, len(sites)))
}

// IsNilConst reports whether v is the nil constant.
func IsNilConst(v ssa.Value) bool {
	c, ok := v.(*ssa.Const)
	return ok && c.Value == nil
}

// WhoMayMutateMapField: insertions into (MapUpdate) and deletions from (builtin delete) the map typ.field occur only in
// the functions listed for each kind.
func WhoMayMutateMapField(p *load.Program, r *report.Report, rule, key, typ, field string, mayInsert, mayDelete []string, minIns, minDel int, why string) {
	okI, okD := map[string]bool{}, map[string]bool{}
	for _, a := range mayInsert {
		okI[a] = true
	}
	for _, a := range mayDelete {
		okD[a] = true
	}
	var ins, del, bad []string
	for _, f := range allFunctions(p) {
		if inTest(p, f) {
			continue
		}
		for _, b := range f.Blocks {
			for _, in := range b.Instrs {
				switch x := in.(type) {
				case *ssa.MapUpdate:
					if !loadsField(x.Map, typ, field, 0) {
						continue
					}
					site := FuncKey(f) + " at " + p.Pos(x.Pos())
					ins = append(ins, site)
					if !allowedFn(p, f, okI, 0) {
						bad = append(bad, "insert in "+site)
					}
				case ssa.CallInstruction:
					bi, isB := x.Common().Value.(*ssa.Builtin)
					if !isB || (bi.Name() != "delete" && bi.Name() != "clear") || len(x.Common().Args) < 1 || !loadsField(x.Common().Args[0], typ, field, 0) {
						continue
					}
					site := FuncKey(f) + " at " + p.Pos(x.Pos())
					del = append(del, site)
					if !allowedFn(p, f, okD, 0) {
						bad = append(bad, bi.Name()+" in "+site)
					}
				}
			}
		}
	}
	if len(ins) < minIns || len(del) < minDel {
		r.Unknown(rule, key, "", fmt.Sprintf("vacuity guard: %d insertions / %d deletions on %s.%s, expected at least %d / %d", len(ins), len(del), typ, field, minIns, minDel))
		return
	}
	if len(bad) > 0 {
		r.Bad(rule, key, "", fmt.Sprintf("%s.%s is mutated outside its owners (insert: %v, delete: %v): %s — %s", typ, field, mayInsert, mayDelete, strings.Join(bad, "; "), why))
		return
	}
	r.OK(rule, key, "", fmt.Sprintf("%s.%s: %d insertion site(s) in %v, %d deletion site(s) in %v", typ, field, len(ins), mayInsert, len(del), mayDelete))
}

// DiscardEqualsPeeked (C08): a failed packet size detection consumes the same bytes whatever the reader kind. Readers that
// are not peeked have consumed the whole detection window (io.ReadFull of the buffer handed to peek); for a bufio.Reader
// the window is only peeked and discardPeeked(r, shouldRewind, n) discards n bytes afterwards: n must be the length of
// that very window at every call site, and the Discard inside must receive that parameter unchanged.
func DiscardEqualsPeeked(p *load.Program, r *report.Report) {
	const rule = "resync"
	ad := p.Func("autoDetectPacketSize")
	dp := p.Func("discardPeeked")
	pk := p.Func("peek")
	if ad == nil || pk == nil {
		r.Unknown(rule, "discard/anchors", "", "autoDetectPacketSize or peek not found")
		return
	}
	if dp == nil {
		r.Unknown(rule, "discard/anchors", "", "discardPeeked not found: how a failed detection on a bufio.Reader consumes the window it inspected cannot be decided")
		return
	}
	// the window: the []byte handed to peek, a make([]byte, L) with constant L
	var window int64 = -1
	for _, b := range ad.Blocks {
		for _, in := range b.Instrs {
			c, ok := in.(*ssa.Call)
			if !ok || c.Call.StaticCallee() != pk || len(c.Call.Args) != 2 {
				continue
			}
			if ms, ok := c.Call.Args[1].(*ssa.MakeSlice); ok {
				if n, ok := ssau.ConstInt(ms.Len); ok {
					window = n
				}
			} else if sl, ok := c.Call.Args[1].(*ssa.Slice); ok {
				if al, ok := sl.X.(*ssa.Alloc); ok {
					if arr, ok := al.Type().Underlying().(*types.Pointer).Elem().Underlying().(*types.Array); ok && sl.Low == nil {
						if sl.High == nil {
							window = arr.Len()
						} else if n, ok := ssau.ConstInt(sl.High); ok {
							window = n
						}
					}
				}
			}
		}
	}
	if window < 0 {
		r.Unknown(rule, "discard/window", p.Pos(ad.Pos()), "the length of the detection window handed to peek is not a constant")
		return
	}
	n := 0
	for _, f := range allFunctions(p) {
		if inTest(p, f) {
			continue
		}
		for _, b := range f.Blocks {
			for _, in := range b.Instrs {
				c, ok := in.(*ssa.Call)
				if !ok || c.Call.StaticCallee() != dp || len(c.Call.Args) != 3 {
					continue
				}
				n++
				key := fmt.Sprintf("discard/%s/discardPeeked#%d/count-is-window", FuncKey(f), n)
				v, isC := ssau.ConstInt(c.Call.Args[2])
				switch {
				case !isC:
					r.Unknown(rule, key, p.Pos(c.Pos()), "the number of bytes to discard is not a constant")
				case v != window:
					r.Bad(rule, key, p.Pos(c.Pos()), fmt.Sprintf("a failed detection discards %d bytes of a bufio.Reader although the window it inspected (and that every other reader kind has consumed) is %d bytes: what the next call sees depends on the reader kind", v, window))
				default:
					r.OK(rule, key, p.Pos(c.Pos()), fmt.Sprintf("discards the %d bytes of the detection window", window))
				}
				// only after a successful peek: when peek failed nothing was looked at (a failed bufio Peek consumes nothing),
				// discarding then throws away bytes nobody has seen
				key2 := fmt.Sprintf("discard/%s/discardPeeked#%d/after-successful-peek", FuncKey(f), n)
				okPeek := false
				for _, pb := range f.Blocks {
					for _, pin := range pb.Instrs {
						pc, isC := pin.(*ssa.Call)
						if !isC || pc.Call.StaticCallee() != pk {
							continue
						}
						var ev ssa.Value
						for _, ref := range *pc.Referrers() {
							if e, isE := ref.(*ssa.Extract); isE && e.Index == 1 {
								ev = e
							}
						}
						if ev != nil && ssau.NilAt(ev, c.Block()) {
							okPeek = true
						}
					}
				}
				if okPeek {
					r.OK(rule, key2, p.Pos(c.Pos()), "the call is dominated by the nil edge of peek's error")
				} else {
					r.Bad(rule, key2, p.Pos(c.Pos()), "discardPeeked can run although peek failed: on a bufio.Reader a failed Peek has consumed nothing, the discard then drops bytes that were never examined (a retry after a transient read error is misaligned)")
				}
			}
		}
	}
	r.Floor(rule, "discardPeeked call sites", n, 2)
	// inside discardPeeked: Discard receives the parameter itself
	okIn := false
	for _, b := range dp.Blocks {
		for _, in := range b.Instrs {
			c, ok := in.(*ssa.Call)
			if !ok {
				continue
			}
			if cal := c.Call.StaticCallee(); cal != nil && cal.Name() == "Discard" && len(c.Call.Args) == 2 {
				if prm, ok := c.Call.Args[1].(*ssa.Parameter); ok && len(dp.Params) == 3 && prm == dp.Params[2] {
					okIn = true
				} else {
					r.Bad(rule, "discard/discardPeeked/passes-count-on", p.Pos(c.Pos()), "bufio.Reader.Discard does not receive discardPeeked's count parameter unchanged")
					return
				}
			}
		}
	}
	if okIn {
		r.OK(rule, "discard/discardPeeked/passes-count-on", p.Pos(dp.Pos()), "bufio.Reader.Discard receives discardPeeked's count parameter unchanged")
	} else {
		r.Unknown(rule, "discard/discardPeeked/passes-count-on", p.Pos(dp.Pos()), "no bufio.Reader.Discard call found in discardPeeked")
	}
}

// NoEffectBeforeError: a call that is refused leaves the object as it was. In each listed method no path leads from an
// instruction that changes state reachable from the receiver (a store through a field address rooted at the receiver, an
// insertion into / deletion from a map loaded from it, a call of a pointer-receiver method on one of its fields) to a
// return whose error result is not provably nil... precisely: to a return that can carry a non-nil error.
func NoEffectBeforeError(p *load.Program, r *report.Report, rule string, fnKeys []string, why string) {
	for _, k := range fnKeys {
		f := p.Func(k)
		key := k + "/refused-call-changes-nothing"
		if f == nil || len(f.Params) == 0 {
			r.Unknown(rule, key, "", "method "+k+" not found")
			continue
		}
		ei := ssau.ErrorResultIndex(f.Signature)
		if ei < 0 {
			r.OK(rule, key, p.Pos(f.Pos()), "the method has no error result: it cannot refuse a call")
			continue
		}
		recv := f.Params[0]
		rooted := func(v ssa.Value) bool {
			for i := 0; i < 12 && v != nil; i++ {
				switch x := v.(type) {
				case *ssa.Parameter:
					return x == recv
				case *ssa.FieldAddr:
					v = x.X
				case *ssa.IndexAddr:
					v = x.X
				case *ssa.UnOp:
					v = x.X
				case *ssa.Phi:
					return false
				default:
					return false
				}
			}
			return false
		}
		// error returns
		var errRets []*ssa.Return
		for _, ret := range ssau.Returns(f) {
			if len(ret.Results) > ei && !ssau.IsNilConst(ret.Results[ei]) {
				errRets = append(errRets, ret)
			}
		}
		var bad []string
		neff := 0
		for _, b := range f.Blocks {
			for _, in := range b.Instrs {
				what := ""
				switch x := in.(type) {
				case *ssa.Store:
					if rooted(x.Addr) {
						what = "store to " + x.Addr.String()
					}
				case *ssa.MapUpdate:
					if rooted(x.Map) {
						what = "map insertion"
					}
				case ssa.CallInstruction:
					cc := x.Common()
					if bi, ok := cc.Value.(*ssa.Builtin); ok && (bi.Name() == "delete" || bi.Name() == "clear") && len(cc.Args) > 0 && rooted(cc.Args[0]) {
						what = bi.Name() + " on a map"
					} else if cal := cc.StaticCallee(); cal != nil && cal.Signature.Recv() != nil && len(cc.Args) > 0 {
						if _, isPtr := cal.Signature.Recv().Type().Underlying().(*types.Pointer); isPtr && rooted(cc.Args[0]) && cc.Args[0] != ssa.Value(recv) {
							what = "call of " + cal.Name() + " on a field"
						}
					}
				}
				if what == "" {
					continue
				}
				neff++
				for _, ret := range errRets {
					if (ret.Block() == b && ssau.InstrBefore(in, ret)) || (ret.Block() != b && ssau.Reaches(b, ret.Block())) {
						bad = append(bad, fmt.Sprintf("%s at %s can be followed by the error return at %s", what, p.Pos(in.Pos()), p.Pos(ret.Pos())))
						break
					}
				}
			}
		}
		switch {
		case len(bad) > 0:
			r.Bad(rule, key, p.Pos(f.Pos()), strings.Join(bad, "; ")+" — "+why)
		case len(errRets) == 0:
			r.OK(rule, key, p.Pos(f.Pos()), "no return carries an error")
		default:
			r.OK(rule, key, p.Pos(f.Pos()), fmt.Sprintf("%d state changes, none of them can be followed by one of the %d error returns", neff, len(errRets)))
		}
	}
}
