// Package realdom is a small numeric abstract domain for code that mixes integer and float64 arithmetic with
// truncations (the DVB date / BCD conversions): values are affine forms with exact rational coefficients over
// integer-valued atoms; an atom is a bounded integer symbol or trunc(<affine form>). On this domain the checker
// decides (a) structural equality of a computed value with a reference formula, for all values of the symbols,
// (b) sound bounds of a form (relational: trunc(x) is bounded through x, so that x - c·trunc(x/c) stays small),
// (c) robustness of a float64 truncation: the exact value of the operand is never closer to an integer than the
// accumulated rounding error can bridge (congruence argument on the numerator, interval argument on its range).
package realdom

import (
	"fmt"
	"math/big"
	"sort"
	"strings"
)

// Atom is an integer-valued unknown.
type Atom struct {
	Key string
	// symbol
	Sym    bool
	Lo, Hi *big.Rat
	// truncation of Arg (toward zero; Arg is shown non-negative before it is used as a floor)
	Arg *Aff
	// Float: Arg is computed in float64 (FloatOps lists every intermediate float64 result that feeds it)
	Float    bool
	FloatOps []*Aff
	// Summary: the truncation is exact by a trusted summary of a library routine (text)
	Summary string
}

// Space owns the atoms of one analysis.
type Space struct {
	Atoms  map[string]*Atom
	combos []combo
}

// combo: the symbols Keys occur in the analysed code only through Σ Coefs[i]·Keys[i], a quantity with its own range
// (e.g. MJD = 256·byte0 + byte1 restricted to the property's range).
type combo struct {
	keys  []string
	coefs []*big.Rat
	sym   string
}

// Combine declares that Σ coefs[i]·keys[i] is the bounded integer quantity sym in [lo, hi]. Bounds use it wherever a form
// contains the keys in exactly that proportion.
func (s *Space) Combine(keys []string, coefs []int64, sym string, lo, hi int64) *Aff {
	c := combo{keys: keys, sym: sym}
	for _, v := range coefs {
		c.coefs = append(c.coefs, rat(v, 1))
	}
	s.combos = append(s.combos, c)
	return s.Sym(sym, lo, hi)
}

// applyCombos rewrites the symbol part of a form through the declared combinations.
func (s *Space) applyCombos(a *Aff) *Aff {
	for _, c := range s.combos {
		c0, ok := a.T[c.keys[0]]
		if !ok {
			continue
		}
		f := new(big.Rat).Quo(c0, c.coefs[0])
		match := true
		for i, k := range c.keys {
			v, ok := a.T[k]
			if !ok || new(big.Rat).Mul(f, c.coefs[i]).Cmp(v) != 0 {
				match = false
			}
		}
		if !match {
			continue
		}
		a = a.clone()
		for _, k := range c.keys {
			delete(a.T, k)
		}
		a = Add(a, Scale(&Aff{C: new(big.Rat), T: map[string]*big.Rat{c.sym: rat(1, 1)}}, f))
	}
	return a
}

func NewSpace() *Space { return &Space{Atoms: map[string]*Atom{}} }

// Aff is C + Σ T[k]·atom(k).
type Aff struct {
	C *big.Rat
	T map[string]*big.Rat
}

func rat(n, d int64) *big.Rat { return big.NewRat(n, d) }

// Const makes a constant form.
func Const(r *big.Rat) *Aff { return &Aff{C: new(big.Rat).Set(r), T: map[string]*big.Rat{}} }

// ConstInt makes an integer constant form.
func ConstInt(v int64) *Aff { return Const(rat(v, 1)) }

// Sym declares (or returns) a bounded integer symbol.
func (s *Space) Sym(name string, lo, hi int64) *Aff {
	k := name
	if _, ok := s.Atoms[k]; !ok {
		s.Atoms[k] = &Atom{Key: k, Sym: true, Lo: rat(lo, 1), Hi: rat(hi, 1)}
	}
	return &Aff{C: new(big.Rat), T: map[string]*big.Rat{k: rat(1, 1)}}
}

// SetRange narrows a symbol's range.
func (s *Space) SetRange(name string, lo, hi int64) {
	if a, ok := s.Atoms[name]; ok && a.Sym {
		a.Lo, a.Hi = rat(lo, 1), rat(hi, 1)
	}
}

func (a *Aff) clone() *Aff {
	o := &Aff{C: new(big.Rat).Set(a.C), T: map[string]*big.Rat{}}
	for k, v := range a.T {
		o.T[k] = new(big.Rat).Set(v)
	}
	return o
}

// Add returns a+b.
func Add(a, b *Aff) *Aff {
	o := a.clone()
	o.C.Add(o.C, b.C)
	for k, v := range b.T {
		if w, ok := o.T[k]; ok {
			w.Add(w, v)
			if w.Sign() == 0 {
				delete(o.T, k)
			}
		} else {
			o.T[k] = new(big.Rat).Set(v)
		}
	}
	return o
}

// Scale returns r·a.
func Scale(a *Aff, r *big.Rat) *Aff {
	o := &Aff{C: new(big.Rat).Mul(a.C, r), T: map[string]*big.Rat{}}
	if r.Sign() == 0 {
		return o
	}
	for k, v := range a.T {
		o.T[k] = new(big.Rat).Mul(v, r)
	}
	return o
}

// Sub returns a-b.
func Sub(a, b *Aff) *Aff { return Add(a, Scale(b, rat(-1, 1))) }

// IsConst reports whether the form has no atoms.
func (a *Aff) IsConst() bool { return len(a.T) == 0 }

// Key is the canonical text of the form (structural identity).
func (a *Aff) Key() string {
	ks := make([]string, 0, len(a.T))
	for k := range a.T {
		ks = append(ks, k)
	}
	sort.Strings(ks)
	var sb strings.Builder
	sb.WriteString(a.C.RatString())
	for _, k := range ks {
		sb.WriteString(" + ")
		sb.WriteString(a.T[k].RatString())
		sb.WriteString("·")
		sb.WriteString(k)
	}
	return sb.String()
}

func (a *Aff) String() string { return a.Key() }

// Equal is structural equality of normal forms.
func Equal(a, b *Aff) bool { return a.Key() == b.Key() }

// IntegerValued: every coefficient and the constant are integers (atoms are integer-valued by construction).
func (a *Aff) IntegerValued() bool {
	if !a.C.IsInt() {
		return false
	}
	for _, v := range a.T {
		if !v.IsInt() {
			return false
		}
	}
	return true
}

// Trunc returns trunc(arg) as a form: arg itself when it is integer-valued, a constant when arg is constant, else
// an atom. float/ops describe a float64 operand.
func (s *Space) Trunc(arg *Aff, float bool, ops []*Aff, summary string) *Aff {
	if arg.IsConst() {
		// truncate toward zero
		n := new(big.Int).Quo(arg.C.Num(), arg.C.Denom())
		return Const(new(big.Rat).SetInt(n))
	}
	key := "trunc(" + arg.Key() + ")"
	if arg.IntegerValued() {
		if float {
			// still remember the float computation so that its exactness is checked
			k2 := "exact(" + arg.Key() + ")"
			if _, ok := s.Atoms[k2]; !ok {
				s.Atoms[k2] = &Atom{Key: k2, Arg: arg.clone(), Float: true, FloatOps: ops, Summary: summary}
			}
		}
		return arg.clone()
	}
	if at, ok := s.Atoms[key]; ok {
		if float && !at.Float {
			at.Float, at.FloatOps = true, ops
		}
	} else {
		s.Atoms[key] = &Atom{Key: key, Arg: arg.clone(), Float: float, FloatOps: ops, Summary: summary}
	}
	return &Aff{C: new(big.Rat), T: map[string]*big.Rat{key: rat(1, 1)}}
}

// Quo is integer division by a positive constant: trunc(a/k).
func (s *Space) Quo(a *Aff, k int64) *Aff {
	return s.Trunc(Scale(a, rat(1, k)), false, nil, "")
}

// Rem is the remainder of integer division by a positive constant: a - k·trunc(a/k).
func (s *Space) Rem(a *Aff, k int64) *Aff {
	return Sub(a, Scale(s.Quo(a, k), rat(k, 1)))
}

// ---------------------------------------------------------------------------------------------------------------------
// bounds

// Bounds returns sound lower and upper bounds of the form over all valuations of the symbols. A trunc atom is bounded
// either through the interval of its operand (floor of the bounds) or relationally (arg-1 <= trunc(arg) <= arg for
// arg >= 0), whichever is tighter; the relational substitution lets dependent terms cancel symbolically.
func (s *Space) Bounds(a *Aff) (lo, hi *big.Rat, ok bool) {
	hi, sh, ok1 := s.bound(a, true, 0)
	lo, sl, ok2 := s.bound(a, false, 0)
	if !ok1 || !ok2 {
		return nil, nil, false
	}
	if a.IntegerValued() {
		// an integer-valued form: round the bounds inward; a bound that rests on a strict inequality is not attained
		if hi.IsInt() && sh {
			hi = new(big.Rat).Sub(hi, rat(1, 1))
		} else {
			hi = floorRat(hi)
		}
		if lo.IsInt() && sl {
			lo = new(big.Rat).Add(lo, rat(1, 1))
		} else {
			lo = new(big.Rat).SetInt(ceilInt(lo))
		}
	}
	return lo, hi, true
}

func floorRat(r *big.Rat) *big.Rat {
	n := new(big.Int).Div(r.Num(), r.Denom()) // Euclidean: floor for positive denominators
	return new(big.Rat).SetInt(n)
}

// bound returns a sound bound and whether it is strict (cannot be attained).
func (s *Space) bound(a *Aff, upper bool, depth int) (*big.Rat, bool, bool) {
	if depth > 12 {
		return nil, false, false
	}
	// pick the outermost trunc atom (the longest key contains the others), so that nested occurrences cancel
	var tk string
	for k := range a.T {
		if at := s.Atoms[k]; at != nil && !at.Sym {
			if tk == "" || len(k) > len(tk) || (len(k) == len(tk) && k < tk) {
				tk = k
			}
		}
	}
	if tk == "" {
		a = s.applyCombos(a)
		r := new(big.Rat).Set(a.C)
		for k, c := range a.T {
			at := s.Atoms[k]
			if at == nil {
				return nil, false, false
			}
			pickHi := (c.Sign() > 0) == upper
			v := at.Lo
			if pickHi {
				v = at.Hi
			}
			r.Add(r, new(big.Rat).Mul(c, v))
		}
		return r, false, true
	}
	at := s.Atoms[tk]
	c := a.T[tk]
	rest := a.clone()
	delete(rest.T, tk)
	var best *big.Rat
	bestStrict := false
	consider := func(v *big.Rat, strict, ok bool) {
		if !ok {
			return
		}
		cmp := 0
		if best != nil {
			cmp = v.Cmp(best)
		}
		if best == nil || (upper && cmp < 0) || (!upper && cmp > 0) || (cmp == 0 && strict && !bestStrict) {
			best, bestStrict = v, strict
		}
	}
	// the operand must be non-negative for trunc = floor
	alo, _, okl := s.bound(at.Arg, false, depth+1)
	ahi, _, okh := s.bound(at.Arg, true, depth+1)
	if !okl || !okh || alo.Sign() < 0 {
		return nil, false, false
	}
	// (1) interval: trunc(arg) in [floor(lo), floor(hi)]
	{
		wantHi := (c.Sign() > 0) == upper
		v := floorRat(alo)
		if wantHi {
			v = floorRat(ahi)
		}
		r2 := rest.clone()
		r2.C.Add(r2.C, new(big.Rat).Mul(c, v))
		v2, st2, ok2 := s.bound(r2, upper, depth+1)
		consider(v2, st2, ok2)
	}
	// (2) relational: arg-1 <= trunc(arg) <= arg
	{
		wantHi := (c.Sign() > 0) == upper
		sub := at.Arg.clone()
		if !wantHi {
			sub.C.Sub(sub.C, rat(1, 1))
		}
		r2 := Add(rest, Scale(sub, c))
		v2, st2, ok2 := s.bound(r2, upper, depth+1)
		// trunc(arg) > arg - 1 is strict; trunc(arg) <= arg is not
		consider(v2, st2 || !wantHi, ok2)
	}
	if best == nil {
		return nil, false, false
	}
	return best, bestStrict, true
}

// ---------------------------------------------------------------------------------------------------------------------
// robustness of float64 truncations

// Robust decides, for one float truncation atom, that evaluating its operand in float64 and truncating gives the same
// integer as exact arithmetic, for every valuation. Returns a text describing the argument, or an error text.
func (s *Space) Robust(at *Atom) (string, bool) {
	if at.Summary != "" {
		return "exact by summary: " + at.Summary, true
	}
	arg := at.Arg
	lo, hi, ok := s.Bounds(arg)
	if !ok {
		return "operand could not be bounded", false
	}
	if lo.Sign() < 0 {
		return fmt.Sprintf("operand may be negative (lower bound %s)", lo.FloatString(6)), false
	}
	// route 1: everything is computed exactly (dyadic rationals of small magnitude at every step)
	exact := true
	for _, op := range append([]*Aff{arg}, at.FloatOps...) {
		if !s.dyadicExact(op) {
			exact = false
			break
		}
	}
	if exact {
		return "every intermediate float64 value is a dyadic rational below 2^40 with at most 12 fractional bits: computed exactly", true
	}
	// route 2: distance from the integers. arg = (Σ a_i·X_i + b)/q with integers a_i, b, q > 0.
	q := new(big.Int).Set(arg.C.Denom())
	for _, c := range arg.T {
		q = lcm(q, c.Denom())
	}
	qr := new(big.Rat).SetInt(q)
	b := new(big.Rat).Mul(arg.C, qr)
	if !b.IsInt() {
		return "internal: scaling failed", false
	}
	bi := new(big.Int).Set(b.Num())
	num := &Aff{C: new(big.Rat), T: map[string]*big.Rat{}}
	ga := new(big.Int)
	for k, c := range arg.T {
		v := new(big.Rat).Mul(c, qr)
		num.T[k] = v
		ga.GCD(nil, nil, ga, new(big.Int).Abs(v.Num()))
	}
	if ga.Sign() == 0 {
		return "constant operand", true
	}
	// W = ga·S + b must never be ≡ 0 (mod q), S integer in [L, U]
	g2 := new(big.Int).GCD(nil, nil, ga, q)
	margin := "" // distance of the numerator from a multiple of q is at least 1
	if new(big.Int).Mod(bi, g2).Sign() != 0 {
		margin = fmt.Sprintf("numerator ≡ %s (mod %s) never vanishes (gcd argument)", new(big.Int).Mod(bi, g2), g2)
	} else {
		nlo, nhi, ok := s.Bounds(num)
		if !ok {
			return "numerator could not be bounded", false
		}
		gar := new(big.Rat).SetInt(ga)
		L := ceilInt(new(big.Rat).Quo(nlo, gar))
		U := floorRat(new(big.Rat).Quo(nhi, gar)).Num()
		// solve ga·S ≡ -b (mod q):  (ga/g2)·S ≡ (-b/g2) (mod q/g2)
		m := new(big.Int).Quo(q, g2)
		a1 := new(big.Int).Mod(new(big.Int).Quo(ga, g2), m)
		rhs := new(big.Int).Mod(new(big.Int).Neg(new(big.Int).Quo(bi, g2)), m)
		var s0 *big.Int
		if m.Cmp(big.NewInt(1)) == 0 {
			s0 = big.NewInt(0)
		} else {
			inv := new(big.Int).ModInverse(a1, m)
			if inv == nil {
				return "internal: no modular inverse", false
			}
			s0 = new(big.Int).Mod(new(big.Int).Mul(inv, rhs), m)
		}
		// smallest solution >= L
		d := new(big.Int).Mod(new(big.Int).Sub(s0, L), m)
		first := new(big.Int).Add(L, d)
		if first.Cmp(U) <= 0 {
			return fmt.Sprintf("the exact operand is an integer for S = %s (S ranges over [%s, %s]): float64 rounding may decide the truncation", first, L, U), false
		}
		margin = fmt.Sprintf("numerator ≡ 0 (mod %s) only for S ≡ %s (mod %s), S ranges over [%s, %s]: never", q, s0, m, L, U)
	}
	// error bound: each float64 operation contributes at most 2^-52 relative to the largest intermediate magnitude
	maxAbs := new(big.Rat).Set(absMax(lo, hi))
	for _, op := range at.FloatOps {
		l, h, ok := s.Bounds(op)
		if !ok {
			return "an intermediate float64 value could not be bounded", false
		}
		if m := absMax(l, h); m.Cmp(maxAbs) > 0 {
			maxAbs = m
		}
	}
	nops := int64(len(at.FloatOps) + 2)
	errb := new(big.Rat).Mul(new(big.Rat).Mul(rat(nops, 1), maxAbs), new(big.Rat).SetFrac(big.NewInt(1), new(big.Int).Lsh(big.NewInt(1), 50)))
	dist := new(big.Rat).SetFrac(big.NewInt(1), q)
	if errb.Cmp(dist) >= 0 {
		return fmt.Sprintf("rounding error bound %s is not below the distance 1/%s from the integers", errb.FloatString(12), q), false
	}
	return fmt.Sprintf("exact operand stays at distance >= 1/%s from every integer (%s); float64 error <= %s", q, margin, errb.FloatString(14)), true
}

func absMax(lo, hi *big.Rat) *big.Rat {
	a := new(big.Rat).Abs(lo)
	b := new(big.Rat).Abs(hi)
	if a.Cmp(b) > 0 {
		return a
	}
	return b
}

func ceilInt(r *big.Rat) *big.Int {
	f := floorRat(r)
	if f.Cmp(r) == 0 {
		return new(big.Int).Set(f.Num())
	}
	return new(big.Int).Add(f.Num(), big.NewInt(1))
}

func lcm(a, b *big.Int) *big.Int {
	g := new(big.Int).GCD(nil, nil, a, b)
	return new(big.Int).Mul(new(big.Int).Quo(a, g), b)
}

// dyadicExact: all coefficients and the constant have power-of-two denominators <= 2^12 and the magnitude stays below 2^40.
func (s *Space) dyadicExact(a *Aff) bool {
	okDen := func(r *big.Rat) bool {
		d := r.Denom()
		if d.BitLen() > 13 {
			return false
		}
		// power of two?
		return new(big.Int).And(d, new(big.Int).Sub(d, big.NewInt(1))).Sign() == 0
	}
	if !okDen(a.C) {
		return false
	}
	for _, c := range a.T {
		if !okDen(c) {
			return false
		}
	}
	lo, hi, ok := s.Bounds(a)
	if !ok {
		return false
	}
	lim := new(big.Rat).SetInt(new(big.Int).Lsh(big.NewInt(1), 40))
	return absMax(lo, hi).Cmp(lim) < 0
}

// FloatTruncs lists the float truncation atoms (sorted by key).
func (s *Space) FloatTruncs() []*Atom {
	var out []*Atom
	for _, a := range s.Atoms {
		if !a.Sym && a.Float {
			out = append(out, a)
		}
	}
	sort.Slice(out, func(i, j int) bool { return out[i].Key < out[j].Key })
	return out
}
