package realdom

import (
	"fmt"
	"go/constant"
	"go/token"
	"go/types"
	"math/big"
	"strconv"

	"golang.org/x/tools/go/ssa"
)

// Val is an abstract value of the executor.
type Val struct {
	K VKind
	// VNum
	A     *Aff
	Float bool   // float64-typed
	Ops   []*Aff // intermediate float64 results that feed this value (for the rounding-error bound)
	Sum   string // value produced by a summarised library routine (text of the summary)
	// VBytes / VBytePtr
	Fetch, Idx, N int
	// VPtr: a local cell
	Cell *Val
	// VTime
	T *TimeVal
	// VTuple
	Tup []Val
	// VBool
	Cond *Cond
	B    bool
	// VOpaque
	What string
}

type VKind int

const (
	VNum VKind = iota
	VBytes
	VBytePtr
	VErrNil
	VIter
	VWriter
	VBatch
	VPtr
	VTime
	VTuple
	VBool
	VBoolConst
	VLoc
	VOpaque
)

// TimeVal describes a time.Time value symbolically.
type TimeVal struct {
	Param bool // the function's time parameter
	// Date(y, m, d, h, mi, s, ns, loc)
	Date                  bool
	Y, M, D, H, Mi, S, Ns *Aff
	Loc                   string
	Plus                  *Aff // + duration (ns)
	TruncOf               *TimeVal
	TruncK                *Aff
}

// Cond is an atomic comparison  A op C  (C constant) on an integer form.
type Cond struct {
	A  *Aff
	Op token.Token
	C  *big.Rat
}

func (c *Cond) String() string { return fmt.Sprintf("%s %s %s", c.A.Key(), c.Op, c.C.RatString()) }

// Event is an observable step of a path.
type Event struct {
	Kind  string // "fetch" | "emit" | "date" | "overflow-check"
	N     int    // fetch: bytes; emit: bits
	A     *Aff   // emit: value
	Where string
}

// Outcome is one success path of a function.
type Outcome struct {
	Conds  []*Cond
	Events []Event
	Ret    []Val
	Notes  []string // obligations met on the way that could not be discharged locally
}

// Exec is the symbolic executor.
type Exec struct {
	S        *Space
	Pkg      *types.Package
	Problems []string // constructs outside the accepted idioms (make the result undecided)
	// NarrowOK is called for conversions to a narrower unsigned type and for narrow arithmetic: the value must fit.
	// YearLo/YearHi: range of year(t) (default 1900..2038)
	YearLo, YearHi int64
	// Bind gives the abstract value of a parameter of the root function
	depth int
}

type state struct {
	conds  []*Cond
	events []Event
}

func (st *state) clone() *state {
	return &state{conds: append([]*Cond{}, st.conds...), events: append([]Event{}, st.events...)}
}

type frame struct {
	fn  *ssa.Function
	env map[ssa.Value]Val
}

func (f *frame) clone() *frame {
	o := &frame{fn: f.fn, env: make(map[ssa.Value]Val, len(f.env))}
	for k, v := range f.env {
		o.env[k] = v
	}
	return o
}

func (ex *Exec) problem(format string, a ...interface{}) {
	ex.Problems = append(ex.Problems, fmt.Sprintf(format, a...))
}

// Run executes fn on the given arguments and returns its success outcomes.
func (ex *Exec) Run(fn *ssa.Function, args []Val) []Outcome {
	return ex.call(fn, args, &state{})
}

func (ex *Exec) call(fn *ssa.Function, args []Val, st *state) []Outcome {
	if ex.depth > 6 {
		ex.problem("call depth exceeded at %s", fn.Name())
		return nil
	}
	if len(fn.Blocks) == 0 {
		ex.problem("function %s has no body", fn.Name())
		return nil
	}
	ex.depth++
	defer func() { ex.depth-- }()
	fr := &frame{fn: fn, env: map[ssa.Value]Val{}}
	for i, p := range fn.Params {
		if i < len(args) {
			fr.env[p] = args[i]
		}
	}
	return ex.block(fr, fn.Blocks[0], nil, st, 0)
}

func (ex *Exec) block(fr *frame, b *ssa.BasicBlock, pred *ssa.BasicBlock, st *state, steps int) []Outcome {
	if steps > 64 {
		ex.problem("%s: too many blocks on one path (loop?)", fr.fn.Name())
		return nil
	}
	// phis first
	idx := 0
	for ; idx < len(b.Instrs); idx++ {
		phi, ok := b.Instrs[idx].(*ssa.Phi)
		if !ok {
			break
		}
		var v Val
		found := false
		for i, p := range b.Preds {
			if p == pred {
				v = ex.val(fr, phi.Edges[i])
				found = true
			}
		}
		if !found {
			ex.problem("%s: phi without matching predecessor", fr.fn.Name())
			return nil
		}
		fr.env[phi] = v
	}
	return ex.instrs(fr, b, idx, st, steps)
}

func (ex *Exec) instrs(fr *frame, b *ssa.BasicBlock, idx int, st *state, steps int) []Outcome {
	for ; idx < len(b.Instrs); idx++ {
		switch in := b.Instrs[idx].(type) {
		case *ssa.DebugRef:
		case *ssa.Call:
			callee := in.Call.StaticCallee()
			if callee != nil && callee.Pkg != nil && callee.Pkg.Pkg == ex.Pkg && !in.Call.IsInvoke() {
				var args []Val
				for _, a := range in.Call.Args {
					args = append(args, ex.val(fr, a))
				}
				outs := ex.call(callee, args, st)
				var res []Outcome
				for _, o := range outs {
					f2 := fr.clone()
					if len(o.Ret) == 1 {
						f2.env[in] = o.Ret[0]
					} else {
						f2.env[in] = Val{K: VTuple, Tup: o.Ret}
					}
					st2 := &state{conds: o.Conds, events: o.Events}
					res = append(res, ex.instrs(f2, b, idx+1, st2, steps)...)
				}
				return res
			}
			fr.env[in] = ex.libcall(fr, in, st)
		case *ssa.If:
			c := ex.val(fr, in.Cond)
			switch c.K {
			case VBoolConst:
				if c.B {
					return ex.block(fr, b.Succs[0], b, st, steps+1)
				}
				return ex.block(fr, b.Succs[1], b, st, steps+1)
			case VBool:
				var res []Outcome
				for side := 0; side < 2; side++ {
					cc := c.Cond
					if side == 1 {
						cc = negate(cc)
					}
					if ex.infeasible(st.conds, cc) {
						continue
					}
					st2 := st.clone()
					st2.conds = append(st2.conds, cc)
					res = append(res, ex.block(fr.clone(), b.Succs[side], b, st2, steps+1)...)
				}
				return res
			default:
				ex.problem("%s: branch on a value that is not a comparison with a constant", fr.fn.Name())
				return nil
			}
		case *ssa.Jump:
			return ex.block(fr, b.Succs[0], b, st, steps+1)
		case *ssa.Return:
			o := Outcome{Conds: st.conds, Events: st.events}
			for _, r := range in.Results {
				o.Ret = append(o.Ret, ex.val(fr, r))
			}
			return []Outcome{o}
		case *ssa.Store:
			addr := ex.val(fr, in.Addr)
			if addr.K == VPtr && addr.Cell != nil {
				*addr.Cell = ex.val(fr, in.Val)
			} else {
				ex.problem("%s: store through an address that is not a local cell", fr.fn.Name())
			}
		case ssa.Value:
			fr.env[in] = ex.value(fr, in, st)
		default:
			ex.problem("%s: unsupported instruction %T", fr.fn.Name(), in)
		}
	}
	return nil
}

func negate(c *Cond) *Cond {
	n := &Cond{A: c.A, C: c.C}
	switch c.Op {
	case token.EQL:
		n.Op = token.NEQ
	case token.NEQ:
		n.Op = token.EQL
	case token.LSS:
		n.Op = token.GEQ
	case token.GEQ:
		n.Op = token.LSS
	case token.GTR:
		n.Op = token.LEQ
	case token.LEQ:
		n.Op = token.GTR
	}
	return n
}

// Region is the set of integers a list of conditions on one form allows, as [lo, hi] minus excluded points.
type Region struct {
	Lo, Hi *big.Rat
	Not    []*big.Rat
	Empty  bool
}

// RegionOf intersects the conditions on form key with [lo, hi].
func RegionOf(conds []*Cond, key string, lo, hi *big.Rat) Region {
	r := Region{Lo: new(big.Rat).Set(lo), Hi: new(big.Rat).Set(hi)}
	one := rat(1, 1)
	for _, c := range conds {
		if c.A.Key() != key {
			continue
		}
		switch c.Op {
		case token.EQL:
			if c.C.Cmp(r.Lo) > 0 {
				r.Lo = c.C
			}
			if c.C.Cmp(r.Hi) < 0 {
				r.Hi = c.C
			}
		case token.NEQ:
			r.Not = append(r.Not, c.C)
		case token.LSS:
			if v := new(big.Rat).Sub(c.C, one); v.Cmp(r.Hi) < 0 {
				r.Hi = v
			}
		case token.LEQ:
			if c.C.Cmp(r.Hi) < 0 {
				r.Hi = c.C
			}
		case token.GTR:
			if v := new(big.Rat).Add(c.C, one); v.Cmp(r.Lo) > 0 {
				r.Lo = v
			}
		case token.GEQ:
			if c.C.Cmp(r.Lo) > 0 {
				r.Lo = c.C
			}
		}
	}
	// shrink over excluded end points
	for changed := true; changed; {
		changed = false
		for _, n := range r.Not {
			if n.Cmp(r.Lo) == 0 {
				r.Lo = new(big.Rat).Add(r.Lo, one)
				changed = true
			}
			if n.Cmp(r.Hi) == 0 {
				r.Hi = new(big.Rat).Sub(r.Hi, one)
				changed = true
			}
		}
	}
	if r.Lo.Cmp(r.Hi) > 0 {
		r.Empty = true
	}
	return r
}

// Contains reports whether the integer v lies in the region.
func (r Region) Contains(v int64) bool {
	if r.Empty {
		return false
	}
	x := rat(v, 1)
	if x.Cmp(r.Lo) < 0 || x.Cmp(r.Hi) > 0 {
		return false
	}
	for _, n := range r.Not {
		if n.Cmp(x) == 0 {
			return false
		}
	}
	return true
}

func (ex *Exec) infeasible(conds []*Cond, c *Cond) bool {
	lo, hi, ok := ex.S.Bounds(c.A)
	if !ok {
		return false
	}
	r := RegionOf(append(append([]*Cond{}, conds...), c), c.A.Key(), floorRat(lo), floorRat(hi))
	return r.Empty
}

func (ex *Exec) val(fr *frame, v ssa.Value) Val {
	if x, ok := fr.env[v]; ok {
		return x
	}
	switch c := v.(type) {
	case *ssa.Const:
		return ex.constVal(c)
	case *ssa.Global:
		return Val{K: VLoc, What: c.Pkg.Pkg.Path() + "." + c.Name()}
	case *ssa.Function:
		return Val{K: VOpaque, What: "func " + c.Name()}
	}
	ex.problem("%s: value %s (%T) is not defined on this path", fr.fn.Name(), v.Name(), v)
	return Val{K: VOpaque, What: "undefined"}
}

func isFloat(t types.Type) bool {
	b, ok := t.Underlying().(*types.Basic)
	return ok && b.Info()&types.IsFloat != 0
}

func intWidth(t types.Type) (bits int, unsigned bool, ok bool) {
	b, ok2 := t.Underlying().(*types.Basic)
	if !ok2 || b.Info()&types.IsInteger == 0 {
		return 0, false, false
	}
	switch b.Kind() {
	case types.Uint8:
		return 8, true, true
	case types.Uint16:
		return 16, true, true
	case types.Uint32:
		return 32, true, true
	case types.Uint64, types.Uint, types.Uintptr:
		return 64, true, true
	case types.Int8:
		return 8, false, true
	case types.Int16:
		return 16, false, true
	case types.Int32:
		return 32, false, true
	default:
		return 64, false, true
	}
}

// nominal gives the rational a float64 constant stands for: the shortest decimal that rounds to it.
func nominal(f float64) *big.Rat {
	s := strconv.FormatFloat(f, 'g', -1, 64)
	r, ok := new(big.Rat).SetString(s)
	if !ok {
		return new(big.Rat).SetFloat64(f)
	}
	return r
}

func (ex *Exec) constVal(c *ssa.Const) Val {
	if c.Value == nil {
		if _, ok := c.Type().Underlying().(*types.Interface); ok {
			return Val{K: VErrNil}
		}
		return Val{K: VOpaque, What: "zero " + c.Type().String()}
	}
	switch c.Value.Kind() {
	case constant.Bool:
		return Val{K: VBoolConst, B: constant.BoolVal(c.Value)}
	case constant.Int:
		r, ok := new(big.Rat).SetString(c.Value.ExactString())
		if !ok {
			break
		}
		return Val{K: VNum, A: Const(r), Float: isFloat(c.Type())}
	case constant.Float:
		f, _ := constant.Float64Val(c.Value)
		return Val{K: VNum, A: Const(nominal(f)), Float: true}
	}
	return Val{K: VOpaque, What: "const " + c.Value.String()}
}

func (ex *Exec) num(fr *frame, v ssa.Value) (Val, bool) {
	x := ex.val(fr, v)
	if x.K != VNum {
		return x, false
	}
	return x, true
}

// fits records the obligation that a value of a narrow unsigned type does not wrap.
func (ex *Exec) fits(fr *frame, a *Aff, t types.Type, what string, st *state) {
	bits, uns, ok := intWidth(t)
	if !ok || bits >= 63 {
		return
	}
	lo, hi, okb := ex.S.Bounds(a)
	lim := new(big.Rat).SetInt(new(big.Int).Lsh(big.NewInt(1), uint(bits)))
	if !uns {
		lim = new(big.Rat).SetInt(new(big.Int).Lsh(big.NewInt(1), uint(bits-1)))
	}
	if !okb || hi.Cmp(lim) >= 0 || (uns && lo.Sign() < 0) {
		detail := "unbounded"
		if okb {
			detail = fmt.Sprintf("[%s, %s]", lo.FloatString(2), hi.FloatString(2))
		}
		st.events = append(st.events, Event{Kind: "overflow-check", N: bits, A: a, Where: fmt.Sprintf("%s: %s in %s may not fit (%s)", fr.fn.Name(), what, t.String(), detail)})
	}
}

func (ex *Exec) value(fr *frame, in ssa.Value, st *state) Val {
	switch x := in.(type) {
	case *ssa.Alloc:
		cell := &Val{K: VOpaque, What: "uninitialised"}
		return Val{K: VPtr, Cell: cell}
	case *ssa.Extract:
		t := ex.val(fr, x.Tuple)
		if t.K == VTuple && x.Index < len(t.Tup) {
			return t.Tup[x.Index]
		}
		ex.problem("%s: extract from a non-tuple", fr.fn.Name())
	case *ssa.IndexAddr:
		base := ex.val(fr, x.X)
		if base.K == VBytes {
			if c, ok := x.Index.(*ssa.Const); ok && c.Value != nil {
				if k, ok := constant.Int64Val(c.Value); ok && int(k) < base.N && k >= 0 {
					return Val{K: VBytePtr, Fetch: base.Fetch, Idx: base.Idx + int(k)}
				}
			}
			ex.problem("%s: index into fetched bytes is not a constant below the fetched length", fr.fn.Name())
		} else {
			ex.problem("%s: index address on %v", fr.fn.Name(), base.K)
		}
	case *ssa.UnOp:
		switch x.Op {
		case token.MUL:
			p := ex.val(fr, x.X)
			switch p.K {
			case VBytePtr:
				return Val{K: VNum, A: ex.S.Sym(fmt.Sprintf("byte[%d.%d]", p.Fetch, p.Idx), 0, 255)}
			case VPtr:
				return *p.Cell
			case VLoc:
				return Val{K: VLoc, What: "*" + p.What}
			}
			ex.problem("%s: load through %v", fr.fn.Name(), p.K)
		case token.SUB:
			if n, ok := ex.num(fr, x.X); ok {
				return Val{K: VNum, A: Scale(n.A, rat(-1, 1)), Float: n.Float, Ops: n.Ops}
			}
		default:
			ex.problem("%s: unary %s", fr.fn.Name(), x.Op)
		}
	case *ssa.ChangeType:
		return ex.val(fr, x.X)
	case *ssa.MakeInterface:
		v := ex.val(fr, x.X)
		return v
	case *ssa.ChangeInterface:
		return ex.val(fr, x.X)
	case *ssa.Convert:
		n, ok := ex.num(fr, x.X)
		if !ok {
			ex.problem("%s: conversion of a non-numeric value", fr.fn.Name())
			break
		}
		from, to := x.X.Type(), x.Type()
		switch {
		case isFloat(to):
			return Val{K: VNum, A: n.A, Float: true, Ops: n.Ops, Sum: n.Sum}
		case isFloat(from):
			// float64 -> integer: truncation toward zero
			a := ex.S.Trunc(n.A, true, append([]*Aff{}, n.Ops...), n.Sum)
			ex.fits(fr, a, to, "converted value", st)
			return Val{K: VNum, A: a}
		default:
			fb, _, _ := intWidth(from)
			tb, tu, _ := intWidth(to)
			_, fu, _ := intWidth(from)
			if tb < fb || (tb == fb && tu != fu) {
				ex.fits(fr, n.A, to, "converted value", st)
			}
			return Val{K: VNum, A: n.A}
		}
	case *ssa.BinOp:
		return ex.binop(fr, x, st)
	case *ssa.Slice:
		// a constant sub-slice of fetched bytes
		base := ex.val(fr, x.X)
		if base.K == VBytes {
			lo, hi := 0, base.N
			okc := true
			if x.Low != nil {
				if c, ok := x.Low.(*ssa.Const); ok && c.Value != nil {
					k, _ := constant.Int64Val(c.Value)
					lo = int(k)
				} else {
					okc = false
				}
			}
			if x.High != nil {
				if c, ok := x.High.(*ssa.Const); ok && c.Value != nil {
					k, _ := constant.Int64Val(c.Value)
					hi = int(k)
				} else {
					okc = false
				}
			}
			if okc && 0 <= lo && lo <= hi && hi <= base.N {
				return Val{K: VBytes, Fetch: base.Fetch, Idx: base.Idx + lo, N: hi - lo}
			}
		}
		ex.problem("%s: slice expression that is not a constant sub-slice of fetched bytes", fr.fn.Name())
	case *ssa.MakeSlice, *ssa.FieldAddr, *ssa.Field, *ssa.Lookup, *ssa.TypeAssert, *ssa.MakeMap, *ssa.MakeClosure:
		ex.problem("%s: unsupported construct %T", fr.fn.Name(), in)
	default:
		ex.problem("%s: unsupported value %T", fr.fn.Name(), in)
	}
	return Val{K: VOpaque, What: fmt.Sprintf("%T", in)}
}

func constOf(a *Aff) (*big.Rat, bool) {
	if a.IsConst() {
		return a.C, true
	}
	return nil, false
}

func (ex *Exec) binop(fr *frame, x *ssa.BinOp, st *state) Val {
	l, ok1 := ex.num(fr, x.X)
	r, ok2 := ex.num(fr, x.Y)
	if !ok1 || !ok2 {
		// error comparisons: err != nil where err is known nil
		lv, rv := ex.val(fr, x.X), ex.val(fr, x.Y)
		if lv.K == VErrNil && rv.K == VErrNil {
			switch x.Op {
			case token.NEQ:
				return Val{K: VBoolConst, B: false}
			case token.EQL:
				return Val{K: VBoolConst, B: true}
			}
		}
		ex.problem("%s: binary %s on non-numeric operands", fr.fn.Name(), x.Op)
		return Val{K: VOpaque}
	}
	fl := isFloat(x.Type()) || (isFloat(x.X.Type()) && isCompare(x.Op))
	mk := func(a *Aff) Val {
		v := Val{K: VNum, A: a, Float: fl}
		if fl {
			v.Ops = append(append(append([]*Aff{}, l.Ops...), r.Ops...), a)
		} else {
			ex.fits(fr, a, x.Type(), "result of "+x.Op.String(), st)
		}
		return v
	}
	lc, lIsC := constOf(l.A)
	rc, rIsC := constOf(r.A)
	switch x.Op {
	case token.ADD:
		return mk(Add(l.A, r.A))
	case token.SUB:
		return mk(Sub(l.A, r.A))
	case token.MUL:
		switch {
		case rIsC:
			return mk(Scale(l.A, rc))
		case lIsC:
			return mk(Scale(r.A, lc))
		}
		ex.problem("%s: product of two non-constant values", fr.fn.Name())
	case token.QUO:
		if !rIsC || rc.Sign() <= 0 {
			ex.problem("%s: division by a value that is not a positive constant", fr.fn.Name())
			break
		}
		if fl {
			return mk(Scale(l.A, new(big.Rat).Inv(rc)))
		}
		if !rc.IsInt() {
			break
		}
		ex.nonneg(fr, l.A, "dividend", st)
		return mk(ex.S.Trunc(Scale(l.A, new(big.Rat).Inv(rc)), false, nil, ""))
	case token.REM:
		if !rIsC || rc.Sign() <= 0 || !rc.IsInt() || fl {
			ex.problem("%s: remainder by a value that is not a positive integer constant", fr.fn.Name())
			break
		}
		ex.nonneg(fr, l.A, "dividend", st)
		q := ex.S.Trunc(Scale(l.A, new(big.Rat).Inv(rc)), false, nil, "")
		return mk(Sub(l.A, Scale(q, rc)))
	case token.SHL:
		if !rIsC || !rc.IsInt() || rc.Sign() < 0 || rc.Num().Int64() > 62 {
			break
		}
		p := new(big.Rat).SetInt(new(big.Int).Lsh(big.NewInt(1), uint(rc.Num().Int64())))
		return mk(Scale(l.A, p))
	case token.SHR:
		if !rIsC || !rc.IsInt() || rc.Sign() < 0 || rc.Num().Int64() > 62 {
			break
		}
		ex.nonneg(fr, l.A, "shifted value", st)
		p := new(big.Rat).SetInt(new(big.Int).Lsh(big.NewInt(1), uint(rc.Num().Int64())))
		return mk(ex.S.Trunc(Scale(l.A, new(big.Rat).Inv(p)), false, nil, ""))
	case token.AND:
		// x & (2^k - 1)
		c, o := rc, l.A
		if !rIsC && lIsC {
			c, o = lc, r.A
		} else if !rIsC {
			break
		}
		if c.IsInt() {
			m := new(big.Int).Add(c.Num(), big.NewInt(1))
			if m.Sign() > 0 && new(big.Int).And(m, c.Num()).Sign() == 0 {
				ex.nonneg(fr, o, "masked value", st)
				mr := new(big.Rat).SetInt(m)
				q := ex.S.Trunc(Scale(o, new(big.Rat).Inv(mr)), false, nil, "")
				return mk(Sub(o, Scale(q, mr)))
			}
		}
		ex.problem("%s: mask that is not of the form 2^k-1", fr.fn.Name())
	case token.OR:
		// disjoint or: one side is a multiple of 2^k, the other lies in [0, 2^k)
		for pass := 0; pass < 2; pass++ {
			hiA, loA := l.A, r.A
			if pass == 1 {
				hiA, loA = r.A, l.A
			}
			lo, hi, ok := ex.S.Bounds(loA)
			if !ok || lo.Sign() < 0 {
				continue
			}
			for k := uint(1); k < 40; k++ {
				p := new(big.Rat).SetInt(new(big.Int).Lsh(big.NewInt(1), k))
				if hi.Cmp(p) >= 0 {
					continue
				}
				if Scale(hiA, new(big.Rat).Inv(p)).IntegerValued() {
					return mk(Add(hiA, loA))
				}
				break
			}
		}
		ex.problem("%s: '|' whose operands are not provably disjoint", fr.fn.Name())
	case token.EQL, token.NEQ, token.LSS, token.LEQ, token.GTR, token.GEQ:
		op := x.Op
		a, c := l.A, rc
		if !rIsC {
			if !lIsC {
				d := Sub(l.A, r.A)
				return Val{K: VBool, Cond: &Cond{A: d, Op: op, C: new(big.Rat)}}
			}
			a, c = r.A, lc
			switch op {
			case token.LSS:
				op = token.GTR
			case token.LEQ:
				op = token.GEQ
			case token.GTR:
				op = token.LSS
			case token.GEQ:
				op = token.LEQ
			}
		}
		if lIsC && rIsC {
			cmp := lc.Cmp(rc)
			res := map[token.Token]bool{token.EQL: cmp == 0, token.NEQ: cmp != 0, token.LSS: cmp < 0, token.LEQ: cmp <= 0, token.GTR: cmp > 0, token.GEQ: cmp >= 0}[x.Op]
			return Val{K: VBoolConst, B: res}
		}
		if !a.IntegerValued() {
			ex.problem("%s: comparison of a non-integer value", fr.fn.Name())
			break
		}
		return Val{K: VBool, Cond: &Cond{A: a, Op: op, C: c}}
	default:
		ex.problem("%s: binary operator %s", fr.fn.Name(), x.Op)
	}
	return Val{K: VOpaque, What: "binop " + x.Op.String()}
}

func countFetches(st *state) int {
	n := 0
	for _, e := range st.events {
		if e.Kind == "fetch" {
			n++
		}
	}
	return n
}

func isCompare(op token.Token) bool {
	switch op {
	case token.EQL, token.NEQ, token.LSS, token.LEQ, token.GTR, token.GEQ:
		return true
	}
	return false
}

func (ex *Exec) nonneg(fr *frame, a *Aff, what string, st *state) {
	lo, _, ok := ex.S.Bounds(a)
	if !ok || lo.Sign() < 0 {
		st.events = append(st.events, Event{Kind: "overflow-check", A: a, Where: fmt.Sprintf("%s: %s may be negative (truncation is not a floor)", fr.fn.Name(), what)})
	}
}

// libcall summarises the library routines the DVB conversions use.
func (ex *Exec) libcall(fr *frame, in *ssa.Call, st *state) Val {
	callee := in.Call.StaticCallee()
	if callee == nil {
		ex.problem("%s: dynamic call", fr.fn.Name())
		return Val{K: VOpaque}
	}
	name := callee.String()
	arg := func(i int) Val { return ex.val(fr, in.Call.Args[i]) }
	hour := rat(3600000000000, 1)
	switch name {
	case "(*github.com/asticode/go-astikit.BytesIterator).NextBytesNoCopy", "(*github.com/asticode/go-astikit.BytesIterator).NextBytes":
		n := arg(1)
		if c, ok := constOf(n.A); n.K == VNum && ok && c.IsInt() {
			k := int(c.Num().Int64())
			id := countFetches(st)
			st.events = append(st.events, Event{Kind: "fetch", N: k})
			return Val{K: VTuple, Tup: []Val{{K: VBytes, Fetch: id, N: k}, {K: VErrNil}}}
		}
		ex.problem("%s: fetch of a non-constant number of bytes", fr.fn.Name())
	case "(*github.com/asticode/go-astikit.BytesIterator).NextByte":
		id := countFetches(st)
		st.events = append(st.events, Event{Kind: "fetch", N: 1})
		return Val{K: VTuple, Tup: []Val{{K: VNum, A: ex.S.Sym(fmt.Sprintf("byte[%d.0]", id), 0, 255)}, {K: VErrNil}}}
	case "(encoding/binary.bigEndian).Uint16", "(encoding/binary.bigEndian).Uint32", "(encoding/binary.bigEndian).Uint64":
		n := map[string]int{"(encoding/binary.bigEndian).Uint16": 2, "(encoding/binary.bigEndian).Uint32": 4, "(encoding/binary.bigEndian).Uint64": 8}[name]
		bs := arg(1)
		if bs.K == VBytes && bs.N >= n && n < 8 {
			sum := ConstInt(0)
			for k := 0; k < n; k++ {
				b := ex.S.Sym(fmt.Sprintf("byte[%d.%d]", bs.Fetch, bs.Idx+k), 0, 255)
				sum = Add(sum, Scale(b, rat(int64(1)<<uint(8*(n-1-k)), 1)))
			}
			return Val{K: VNum, A: sum}
		}
	case "github.com/asticode/go-astikit.NewBitsWriterBatch":
		return Val{K: VBatch}
	case "(*github.com/asticode/go-astikit.BitsWriterBatch).Write":
		v := arg(1)
		if v.K != VNum {
			ex.problem("%s: Write of a non-numeric value", fr.fn.Name())
			return Val{K: VOpaque}
		}
		var t types.Type
		if mi, ok := in.Call.Args[1].(*ssa.MakeInterface); ok {
			t = mi.X.Type()
		}
		bits, uns, ok := 0, false, false
		if t != nil {
			bits, uns, ok = intWidth(t)
		}
		if !ok || !uns {
			ex.problem("%s: Write of a value whose static type is not an unsigned integer", fr.fn.Name())
			return Val{K: VOpaque}
		}
		st.events = append(st.events, Event{Kind: "emit", N: bits, A: v.A})
		return Val{K: VOpaque, What: "void"}
	case "(*github.com/asticode/go-astikit.BitsWriterBatch).WriteN":
		v, n := arg(1), arg(2)
		c, okc := constOf(n.A)
		if v.K != VNum || n.K != VNum || !okc {
			ex.problem("%s: WriteN with non-constant width", fr.fn.Name())
			return Val{K: VOpaque}
		}
		st.events = append(st.events, Event{Kind: "emit", N: int(c.Num().Int64()), A: v.A})
		return Val{K: VOpaque, What: "void"}
	case "(*github.com/asticode/go-astikit.BitsWriterBatch).Err":
		return Val{K: VErrNil}
	case "(time.Duration).Hours", "(time.Duration).Minutes", "(time.Duration).Seconds":
		d := arg(0)
		if d.K != VNum {
			break
		}
		unit := map[string]*big.Rat{"(time.Duration).Hours": hour, "(time.Duration).Minutes": rat(60000000000, 1), "(time.Duration).Seconds": rat(1000000000, 1)}[name]
		lo, hi, ok := ex.S.Bounds(d.A)
		if !ok || lo.Sign() < 0 || hi.Cmp(new(big.Rat).Mul(hour, rat(100, 1))) >= 0 {
			ex.problem("%s: %s on a duration not shown to lie in [0, 100h): the float64 summary does not apply", fr.fn.Name(), name)
		}
		a := Scale(d.A, new(big.Rat).Inv(unit))
		return Val{K: VNum, A: a, Float: true, Sum: "time.Duration." + callee.Name() + "() = float64(d/unit) + float64(d%unit)/unit: its integer part is d/unit for 0 <= d < 100h (the fraction is at most 1 - 1/unit, far above the float64 spacing at these magnitudes)"}
	case "(time.Time).Year", "(time.Time).Month", "(time.Time).Day":
		t := arg(0)
		if t.K != VTime || !t.T.Param {
			break
		}
		switch callee.Name() {
		case "Year":
			lo, hi := ex.YearLo, ex.YearHi
			if lo == 0 {
				lo, hi = 1900, 2038
			}
			return Val{K: VNum, A: ex.S.Sym("year(t)", lo, hi)}
		case "Month":
			return Val{K: VNum, A: ex.S.Sym("month(t)", 1, 12)}
		default:
			return Val{K: VNum, A: ex.S.Sym("day(t)", 1, 31)}
		}
	case "(time.Time).Truncate":
		t, k := arg(0), arg(1)
		if t.K == VTime && k.K == VNum {
			return Val{K: VTime, T: &TimeVal{TruncOf: t.T, TruncK: k.A}}
		}
	case "(time.Time).Sub":
		a, b := arg(0), arg(1)
		if a.K == VTime && b.K == VTime && b.T.TruncOf == a.T && b.T.TruncK != nil {
			if c, ok := constOf(b.T.TruncK); ok && c.IsInt() && c.Sign() > 0 {
				// t - t.Truncate(K): the time elapsed since the last multiple of K (absolute time; for UTC and K = 24h the time of day)
				hiK := new(big.Int).Sub(c.Num(), big.NewInt(1))
				return Val{K: VNum, A: ex.S.Sym("sinceTruncate(t,"+c.RatString()+")", 0, hiK.Int64())}
			}
		}
	case "time.Date":
		var as []*Aff
		for i := 0; i < 7; i++ {
			v := arg(i)
			if v.K != VNum {
				ex.problem("%s: time.Date argument %d is not numeric", fr.fn.Name(), i)
				return Val{K: VOpaque}
			}
			as = append(as, v.A)
		}
		loc := arg(7)
		return Val{K: VTime, T: &TimeVal{Date: true, Y: as[0], M: as[1], D: as[2], H: as[3], Mi: as[4], S: as[5], Ns: as[6], Loc: loc.What}}
	case "(time.Time).Add":
		t, d := arg(0), arg(1)
		if t.K == VTime && d.K == VNum {
			nt := *t.T
			if nt.Plus != nil {
				nt.Plus = Add(nt.Plus, d.A)
			} else {
				nt.Plus = d.A
			}
			return Val{K: VTime, T: &nt}
		}
	}
	ex.problem("%s: call of %s is outside the summarised library routines", fr.fn.Name(), name)
	return Val{K: VOpaque, What: name}
}
