#!/bin/bash
# usage: tools/remake_mutant.sh <ID> <mk> <python-edit-script>
# Re-creates a mutant whose patch no longer applies to the current /repo HEAD: runs the python edit (cwd = scratch worktree,
# which is first moved to /repo's HEAD), checks build/suite/demo, and rewrites /tmp/wtout/<ID>/<mk>/patch.diff.
export GOFLAGS=-mod=mod GOPROXY=off GOSUMDB=off GOTOOLCHAIN=local; unset GOWORK
ID=$1; K=$2; PY=$3
WT=/tmp/wt/$ID; OUT=/tmp/wtout/$ID/$K
cd $WT && git checkout -q -- . && git clean -fdq && git checkout -q --detach $(git -C /repo rev-parse HEAD) || exit 1
cp $OUT/demo_test.go ./verif_demo_test.go
go test -vet=off -count=1 -run TestVerifDemo . > $OUT/clean_demo.log 2>&1; c1=$?
rm verif_demo_test.go
python3 $PY || { echo "edit failed"; exit 1; }
go build ./... > $OUT/build.log 2>&1; b=$?
go test -vet=off -count=1 . > $OUT/suite.log 2>&1; s=$?
git diff -- '*.go' > $OUT/patch.diff
cp $OUT/demo_test.go ./verif_demo_test.go
go test -vet=off -count=1 -run TestVerifDemo . > $OUT/mutant_demo.log 2>&1; c2=$?
rm verif_demo_test.go; git checkout -q -- . && git clean -fdq
echo "remade $ID/$K: clean_demo=$c1 build=$b suite=$s mutant_demo=$c2 (patch $(wc -l < $OUT/patch.diff) lines)"
