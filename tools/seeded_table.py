#!/usr/bin/env python3
"""Prints a markdown table of the seeded changes under /verif/seeded and the obligations that catch them."""
import json, os, glob
rows = []
for d in sorted(glob.glob('/verif/seeded/*/m*')):
    try:
        m = json.load(open(os.path.join(d, 'meta.json')))
    except Exception:
        continue
    pid = m.get('property', '?')
    det = m.get('detected_by', [])
    obs = []
    for x in det:
        obs += x.get('obligations', [])[:2]
    summ = m.get('summary', '').replace('|', '/').replace('\n', ' ')
    if len(summ) > 150:
        summ = summ[:147] + '…'
    rows.append((pid, os.path.basename(d), summ, ', '.join('`' + o + '`' for o in obs[:2]) or '—'))
print('| property | change | what was changed | caught by (first obligations) |')
print('|---|---|---|---|')
for r in rows:
    print('| %s | %s | %s | %s |' % r)
