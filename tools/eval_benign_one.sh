#!/bin/bash
# usage: [EVAL_WT=/tmp/wt/E01] [BENIGN_DIR=/tmp/benign2] tools/eval_benign_one.sh <AREA> <bK> <PROP>... — one benign change against some properties
A=$1; K=$2; shift; shift
WT=${EVAL_WT:-/tmp/wt/$A}; BD=${BENIGN_DIR:-/tmp/benign}
( cd $WT && git checkout -q -- . && git clean -fdq && git apply $BD/$A/$K/patch.diff ) || exit 2
for p in "$@"; do
  mkdir -p /tmp/evalhome_$p; cp /verif/known_findings.json /tmp/evalhome_$p/
  out=$(cd /verif && VERIF_HOME=/tmp/evalhome_$p VERIF_REPO=$WT ./bin/astverif check -prop $p 2>&1); rc=$?
  echo "$A/$K -> $p rc=$rc $(echo "$out" | grep -E '^(VIOLATED|UNDECIDED)' | cut -c1-400 | head -4)"
done
( cd $WT && git checkout -q -- . && git clean -fdq )
