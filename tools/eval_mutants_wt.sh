#!/bin/bash
# usage: tools/eval_mutants_wt.sh <ID> [checker binary]
# Like eval_mutants.sh but runs the check against the scratch worktree /tmp/wt/<ID> (VERIF_REPO), leaving /repo alone.
export GOFLAGS=-mod=mod GOPROXY=off GOSUMDB=off GOTOOLCHAIN=local; unset GOWORK
ID=$1; BIN=${2:-/verif/bin/astverif}
WT=/tmp/wt/$ID
for d in /tmp/wtout/$ID/m*/; do
  k=$(basename $d)
  [ -f $d/patch.diff ] || continue
  ( cd $WT && git checkout -q -- . && git clean -fdq
    cp $d/demo_test.go ./verif_demo_test.go
    go test -vet=off -count=1 -run TestVerifDemo . >$d/clean_demo.log 2>&1; c1=$?
    rm -f verif_demo_test.go
    git apply $d/patch.diff 2>$d/apply.log; a=$?
    go build ./... >$d/build.log 2>&1; b=$?
    go test -vet=off -count=1 . >$d/suite.log 2>&1; s=$?
    cp $d/demo_test.go ./verif_demo_test.go
    go test -vet=off -count=1 -run TestVerifDemo . >$d/mutant_demo.log 2>&1; c2=$?
    rm -f verif_demo_test.go
    echo "clean_demo=$c1 apply=$a build=$b suite=$s mutant_demo=$c2" ) > $d/confirm.txt
  out=$(cd /verif && VERIF_HOME=/tmp/evalhome VERIF_REPO=$WT $BIN check -prop $ID 2>&1); rc=$?
  keys=$(echo "$out" | grep -E "^(VIOLATED|UNDECIDED)" | awk '{print $2}' | head -4 | tr '\n' ' ')
  ( cd $WT && git checkout -q -- . && git clean -fdq )
  echo "$ID/$k: $(cat $d/confirm.txt) :: [$ID rc=$rc ${keys}]"
done
