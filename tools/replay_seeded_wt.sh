#!/bin/bash
# usage: tools/replay_seeded_wt.sh [ID...]   (default: every property under /verif/seeded)
# Like replay_seeded.sh but leaves /repo alone: every seeded change is applied in a scratch worktree of /repo's HEAD
# (/tmp/replay/<ID>, removed afterwards) and the property's check is pointed at it through VERIF_REPO. Properties run in
# parallel. Prints one line per change; exits 1 if any change is not detected.
export GOFLAGS=-mod=mod GOPROXY=off GOSUMDB=off GOTOOLCHAIN=local; unset GOWORK
cd /verif
ids="$*"; [ -n "$ids" ] || ids=$(ls seeded)
mkdir -p /tmp/replay
one() {
  id=$1; wt=/tmp/replay/$id; home=/tmp/replay/home_$id
  git -C /repo worktree remove --force $wt >/dev/null 2>&1; rm -rf $wt
  git -C /repo worktree add --detach $wt HEAD >/dev/null 2>&1 || { echo "$id: cannot create worktree"; return; }
  mkdir -p $home; cp /verif/known_findings.json $home/
  for d in $(ls -d /verif/seeded/$id/m*/ | sort -V); do
    [ -f $d/patch.diff ] || continue
    ( cd $wt && git checkout -q -- . && git clean -fdq )
    if ! ( cd $wt && git apply $d/patch.diff 2>/dev/null ); then echo "seeded/$id/$(basename $d): PATCH-DOES-NOT-APPLY"; continue; fi
    out=$(VERIF_HOME=$home VERIF_REPO=$wt /verif/bin/astverif check -prop $id 2>&1); rc=$?
    keys=$(echo "$out" | grep -E "^(VIOLATED|UNDECIDED)" | awk '{print $2}' | head -3 | tr '\n' ' ')
    if [ $rc -eq 1 ]; then echo "seeded/$id/$(basename $d): DETECTED $keys"; else echo "seeded/$id/$(basename $d): MISSED rc=$rc"; fi
  done
  git -C /repo worktree remove --force $wt >/dev/null 2>&1; rm -rf $home
}
export -f one
echo $ids | tr ' ' '\n' | xargs -P 6 -I{} bash -c 'one {}' | tee /tmp/replay/result.txt
! grep -qE "MISSED|DOES-NOT-APPLY" /tmp/replay/result.txt
