#!/usr/bin/env python3
"""usage: tools/install_round.py <round> <first-evaluation-file>
Copies every confirmed change from /tmp/wtout/<ID>/m<k>/ into /verif/seeded/<ID>/m<k>/ (patch.diff, demo_test.go, meta.json,
confirm.txt). <first-evaluation-file>: lines "<ID>/<mk>: ... [<ID> rc=<n> keys ]" from the first evaluation of the round
(before any rule was added), used to record whether the change was caught at once."""
import json, os, re, shutil, subprocess, sys, glob
rnd = int(sys.argv[1])
first = {}
for l in open(sys.argv[2]):
    m = re.match(r'(C\d+)/(m\d+): .*\[(C\d+) rc=(\d+) ?(.*?)\]', l)
    if m:
        first[(m.group(1), m.group(2))] = (int(m.group(4)), m.group(5).split())
base = subprocess.check_output(['git', '-C', '/repo', 'rev-parse', '--short', 'HEAD']).decode().strip()
n = 0
for d in sorted(glob.glob('/tmp/wtout/C*/m*/')):
    pid, mk = d.rstrip('/').split('/')[-2:]
    ev = None
    for l in open(f'/tmp/wtout/{pid}/eval2.txt'):
        if l.startswith(f'{pid}/{mk}:'):
            ev = l.strip()
    if not ev:
        print("no evaluation for", pid, mk); continue
    m = re.match(r'.*: (clean_demo=0 apply=0 build=0 suite=0 mutant_demo=1) :: \[(C\d+) rc=(\d+) ?(.*?)\]', ev)
    if not m:
        print("NOT CONFIRMED", ev); continue
    conf, rc, keys = m.group(1), int(m.group(3)), m.group(4).split()
    dst = f'/verif/seeded/{pid}/{mk}'
    os.makedirs(dst, exist_ok=True)
    shutil.copy(d + 'patch.diff', dst)
    shutil.copy(d + 'demo_test.go', dst)
    open(dst + '/confirm.txt', 'w').write(conf + '\n')
    a = json.load(open(d + 'meta.json'))
    f0 = first.get((pid, mk))
    meta = {"property": pid, "summary": a.get("summary", ""), "needs": a.get("needs", ""), "why_tests_pass": a.get("why_tests_pass", ""),
            "kind": a.get("kind", ""), "files": a.get("files", []), "base_commit": base, "round": rnd,
            "confirmed": {"how": "scratch worktree of /repo at base_commit (tools/eval_mutants_wt.sh): demo on clean tree, git apply patch.diff, go build ./..., go test -vet=off -count=1 . (full pinned suite), demo with patch",
                          "result": conf},
            "detected_by": [{"check": f"./check {pid} quick", "exit": rc, "obligations": keys[:4]}],
            "first_evaluation": ("caught at once by: " + " ".join(f0[1][:3])) if f0 and f0[0] == 1 else "missed by the checks as they were before this round; rules added (see DESIGN.md 9.6, round %d)" % rnd,
            "ran": f"VERIF_REPO=<scratch worktree with patch.diff applied> bin/astverif check -prop {pid}; replay on /repo: tools/replay_seeded.sh {pid}"}
    json.dump(meta, open(dst + '/meta.json', 'w'), indent=2)
    n += 1
print("installed", n)
