#!/bin/bash
# usage: tools/eval_one_wt.sh <ID> <mK> [property to check, default ID] — applies the change in the scratch worktree, runs one check against it (VERIF_REPO), undoes it
export GOFLAGS=-mod=mod GOPROXY=off GOSUMDB=off GOTOOLCHAIN=local; unset GOWORK
ID=$1; K=$2; P=${3:-$1}; BIN=/verif/bin/astverif
WT=/tmp/wt/$ID
( cd $WT && git checkout -q -- . && git clean -fdq && git apply /tmp/wtout/$ID/$K/patch.diff ) || { echo "$ID/$K: patch does not apply"; exit 2; }
mkdir -p /tmp/evalhome_$P; cp /verif/known_findings.json /tmp/evalhome_$P/
out=$(cd /verif && VERIF_HOME=/tmp/evalhome_$P VERIF_REPO=$WT $BIN check -prop $P 2>&1); rc=$?
keys=$(echo "$out" | grep -E "^(VIOLATED|UNDECIDED)" | awk '{print $2}' | head -4 | tr '\n' ' ')
( cd $WT && git checkout -q -- . && git clean -fdq )
echo "$ID/$K -> $P rc=$rc $keys"
