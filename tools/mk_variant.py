#!/usr/bin/env python3
"""usage: mk_variant.py <selftest-json> <name> <property> <file> <modified-file-path> <expect|''> [benign] [note]
Builds an overlay variant from a modified copy of /repo/<file>: old/new are the differing middle region (whole lines) between
the base file and the modified copy. Replaces a variant of the same name."""
import json, sys
js, name, prop, fil, mod, expect = sys.argv[1:7]
benign = len(sys.argv) > 7 and sys.argv[7] == 'benign'
note = sys.argv[8] if len(sys.argv) > 8 else ''
a = open('/repo/' + fil).read().split('\n')
b = open(mod).read().split('\n')
i = 0
while i < len(a) and i < len(b) and a[i] == b[i]:
    i += 1
j = 0
while j < len(a) - i and j < len(b) - i and a[len(a) - 1 - j] == b[len(b) - 1 - j]:
    j += 1
# keep one line of context on each side so that old is never empty and is unique enough
i = max(0, i - 2)
j = max(0, j - 2)
old = '\n'.join(a[i:len(a) - j])
new = '\n'.join(b[i:len(b) - j])
assert open('/repo/' + fil).read().count(old) == 1, 'old text not unique'
v = json.load(open(js))
v = [x for x in v if x['name'] != name]
e = {"name": name, "property": prop, "file": fil, "old": old, "new": new, "expect": expect}
if benign:
    e["benign"] = True
if note:
    e["note"] = note
v.append(e)
json.dump(v, open(js, 'w'), indent=1)
print(name, len(old), len(new))
