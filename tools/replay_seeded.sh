#!/bin/bash
# usage: tools/replay_seeded.sh [ID...]   (default: every property under /verif/seeded)
# Applies each seeded change to /repo, runs the property's quick check, and undoes the change straight afterwards.
# Prints one line per change; exits 1 if any change is not detected. /repo must be clean.
export GOFLAGS=-mod=mod GOPROXY=off GOSUMDB=off GOTOOLCHAIN=local; unset GOWORK
cd /verif
[ -z "$(git -C /repo status --porcelain)" ] || { echo "/repo is not clean"; exit 2; }
ids="$*"; [ -n "$ids" ] || ids=$(ls seeded)
missed=0
for id in $ids; do
  for d in seeded/$id/m*/; do
    [ -f $d/patch.diff ] || continue
    if ! git -C /repo apply $PWD/$d/patch.diff 2>/dev/null; then echo "$d: PATCH-DOES-NOT-APPLY"; missed=1; continue; fi
    out=$(./check $id quick 2>&1); rc=$?
    git -C /repo checkout -- .
    keys=$(echo "$out" | grep -E "^(VIOLATED|UNDECIDED)" | awk '{print $2}' | head -3 | tr '\n' ' ')
    if [ $rc -eq 1 ]; then echo "$d: DETECTED $keys"; else echo "$d: MISSED rc=$rc"; missed=1; fi
  done
done
exit $missed
