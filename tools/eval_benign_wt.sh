#!/bin/bash
# usage: tools/eval_benign_wt.sh <AREA>...  — behaviour-preserving changes under /tmp/benign/<AREA>/b*/patch.diff: applies each in the
# scratch worktree /tmp/wt/<AREA>, builds, runs the pinned suite (and the agent's equivalence test when there is one), then runs EVERY
# property's quick check against the changed tree (VERIF_REPO). Any check that does not exit 0 is a FALSE ALARM candidate.
export GOFLAGS=-mod=mod GOPROXY=off GOSUMDB=off GOTOOLCHAIN=local; unset GOWORK
BIN=/verif/bin/astverif
for A in "$@"; do
  WT=${EVAL_WT:-/tmp/wt/$A}; BD=${BENIGN_DIR:-/tmp/benign}
  for d in $BD/$A/b*/; do
    k=$(basename $d); [ -f $d/patch.diff ] || continue
    ( cd $WT && git checkout -q -- . && git clean -fdq && git apply $d/patch.diff ) 2>/dev/null || { echo "$A/$k: PATCH-DOES-NOT-APPLY"; continue; }
    ( cd $WT && go build ./... >/dev/null 2>&1 ); b=$?
    ( cd $WT && go test -vet=off -count=1 . >/dev/null 2>&1 ); s=$?
    e="-"
    if [ -f $d/equiv_test.go ]; then ( cd $WT && cp $d/equiv_test.go ./verif_equiv_test.go && go test -vet=off -count=1 -run TestVerifEquiv . >/dev/null 2>&1 ); e=$?; rm -f $WT/verif_equiv_test.go; fi
    res=""
    for p in C01 C02 C03 C04 C05 C06 C07 C08 C09 C10 C11 C12 C13 C14 C15 C16 C17 C18 C19 C20; do
      ( mkdir -p /tmp/evalhome_$p; cp /verif/known_findings.json /tmp/evalhome_$p/ 2>/dev/null
        out=$(cd /verif && VERIF_HOME=/tmp/evalhome_$p VERIF_REPO=$WT $BIN check -prop $p 2>&1); rc=$?
        if [ $rc -ne 0 ]; then keys=$(echo "$out" | grep -E "^(VIOLATED|UNDECIDED)" | awk '{print $2}' | head -3 | tr '\n' ' '); echo "    ALARM $A/$k -> $p rc=$rc $keys"; fi ) &
      while [ $(jobs -r | wc -l) -ge 10 ]; do sleep 0.3; done
    done
    wait
    echo "$A/$k: build=$b suite=$s equiv=$e"
    ( cd $WT && git checkout -q -- . && git clean -fdq )
  done
done
