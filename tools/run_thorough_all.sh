#!/bin/bash
# runs every claimed check in the thorough tier and prints one line per property
export GOFLAGS=-mod=mod GOPROXY=off GOSUMDB=off GOTOOLCHAIN=local; unset GOWORK
cd "$(dirname "$0")/.."
for id in $(python3 -c "import json;print(' '.join(c['property_id'] for c in json.load(open('MANIFEST.json'))['checks']))"); do
  s=$(date +%s)
  out=$(./check $id thorough 2>&1); rc=$?
  e=$(date +%s)
  echo "$id rc=$rc $((e-s))s $(echo "$out" | tail -1)"
  echo "$out" | grep -E "^(VIOLATED|UNDECIDED|MISSED|FALSE)" | head -5
done
