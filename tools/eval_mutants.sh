#!/bin/bash
# usage: tools/eval_mutants.sh <ID> [extra property ids to also run]
# For every /tmp/wtout/<ID>/m*/patch.diff: (1) confirm in the scratch worktree /tmp/wt/<ID> that the demo passes on the
# clean tree, the mutant builds, the full suite passes and the demo fails; (2) apply the patch to /repo, run the checks,
# undo it straight afterwards. Prints one line per mutant.
export GOFLAGS=-mod=mod GOPROXY=off GOSUMDB=off GOTOOLCHAIN=local; unset GOWORK
ID=$1; shift
PROPS="$ID $*"
WT=/tmp/wt/$ID
for d in /tmp/wtout/$ID/m*/; do
  k=$(basename $d)
  [ -f $d/patch.diff ] || continue
  conf="?"
  if [ -d $WT ]; then
    ( cd $WT && git checkout -q -- . && git clean -fdq
      cp $d/demo_test.go ./verif_demo_test.go
      go test -vet=off -count=1 -run TestVerifDemo . >/tmp/wtout/$ID/$k/clean_demo.log 2>&1; c1=$?
      rm -f verif_demo_test.go
      git apply $d/patch.diff 2>/tmp/wtout/$ID/$k/apply.log; a=$?
      go build ./... >/tmp/wtout/$ID/$k/build.log 2>&1; b=$?
      go test -vet=off -count=1 . >/tmp/wtout/$ID/$k/suite.log 2>&1; s=$?
      cp $d/demo_test.go ./verif_demo_test.go
      go test -vet=off -count=1 -run TestVerifDemo . >/tmp/wtout/$ID/$k/mutant_demo.log 2>&1; c2=$?
      rm -f verif_demo_test.go; git checkout -q -- . && git clean -fdq
      echo "clean_demo=$c1 apply=$a build=$b suite=$s mutant_demo=$c2" ) > /tmp/wtout/$ID/$k/confirm.txt
    conf=$(cat /tmp/wtout/$ID/$k/confirm.txt)
  fi
  res=""
  if git -C /repo apply $d/patch.diff 2>/dev/null; then
    for p in $PROPS; do
      out=$(cd /verif && ./check $p quick 2>&1); rc=$?
      keys=$(echo "$out" | grep -E "^(VIOLATED|UNDECIDED)" | awk '{print $2}' | head -4 | tr '\n' ' ')
      res="$res [$p rc=$rc ${keys}]"
    done
    git -C /repo checkout -- .
  else
    res="PATCH-DOES-NOT-APPLY-TO-REPO"
  fi
  echo "$ID/$k: $conf ::$res"
done
