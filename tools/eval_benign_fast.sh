#!/bin/bash
# usage: EVAL_WT=/tmp/wt/E01 BENIGN_DIR=/tmp/benign2 [BIN=/path/astverif] tools/eval_benign_fast.sh <AREA>...
# Like eval_benign_wt.sh, but the four expensive properties are only run when the patch touches a file they analyse
# (C09, C13: PSI/table/descriptor/CRC/muxer/demuxer files; C12: PES and packet files; C14: descriptor and table files), and each
# stream keeps its own VERIF_HOME. Build, suite and equivalence test are not repeated (the slow script did them).
export GOFLAGS=-mod=mod GOPROXY=off GOSUMDB=off GOTOOLCHAIN=local; unset GOWORK
BIN=${BIN:-/verif/bin/astverif}
WT=${EVAL_WT:?}; BD=${BENIGN_DIR:-/tmp/benign}; TAG=$(basename $WT)
for A in "$@"; do
  for d in $BD/$A/b*/; do
    k=$(basename $d); [ -f $d/patch.diff ] || continue
    ( cd $WT && git checkout -q -- . && git clean -fdq && git apply $d/patch.diff ) 2>/dev/null || { echo "$A/$k: PATCH-DOES-NOT-APPLY"; continue; }
    files=$(grep '^+++ b/' $d/patch.diff | sed 's#^+++ b/##' | tr '\n' ' ')
    props="C01 C02 C03 C04 C05 C06 C07 C08 C10 C11 C15 C16 C17 C18 C19 C20"
    case " $files" in *data_psi.go*|*data_pat.go*|*data_pmt.go*|*data_sdt.go*|*data_nit.go*|*data_eit.go*|*data_tot.go*|*descriptor.go*|*dvb.go*|*crc32.go*|*" data.go"*|*muxer.go*|*demuxer.go*|*packet_pool.go*|*program_map.go*) props="$props C09 C13";; esac
    case " $files" in *data_pes.go*|*packet.go*|*clock_reference.go*|*muxer.go*) props="$props C12";; esac
    case " $files" in *descriptor.go*|*dvb.go*|*data_pmt.go*|*data_sdt.go*|*data_nit.go*|*data_eit.go*|*data_tot.go*|*data_psi.go*) props="$props C14";; esac
    for p in $props; do
      ( H=/tmp/evalhome_${TAG}_$p; mkdir -p $H; cp /verif/known_findings.json $H/ 2>/dev/null
        out=$(cd /verif && VERIF_HOME=$H VERIF_REPO=$WT $BIN check -prop $p 2>&1); rc=$?
        if [ $rc -ne 0 ]; then keys=$(echo "$out" | grep -E "^(VIOLATED|UNDECIDED)" | awk '{print $2}' | head -3 | tr '\n' ' '); echo "    ALARM $A/$k -> $p rc=$rc $keys"; fi ) &
      while [ $(jobs -r | wc -l) -ge 4 ]; do sleep 0.2; done
    done
    wait
    echo "$A/$k: checked [$props]"
    ( cd $WT && git checkout -q -- . && git clean -fdq )
  done
done
