#!/usr/bin/env python3
"""Regenerates /verif/MANIFEST.json from the table below. Usage: tools/gen_manifest.py"""
import json, os
HERE = os.path.dirname(os.path.dirname(os.path.abspath(__file__)))
props = [json.loads(l) for l in open(os.path.join(HERE, 'properties.jsonl'))]

# id -> (category, text, note, technique, design_ref); only ids whose check exists and is quiet on the current tree
CLAIMS = {
 "C03": ("other",
   "Path-sensitive abstract interpretation (linear forms over symbols + guard facts, loops cut at headers with checked invariants, callee summaries) of every function reachable from NextPacket/NextData/Rewind: every fetch/seek/skip/make length and every index/slice bound is shown non-negative and in range on all paths (P1/P2), no definite nil dereference (P3), every loop advances its cursor, consumes from the reader or shrinks the drained map (P4), and nothing half-constructed is stored in the Demuxer (P7). Decides the no-panic / termination clauses for all inputs at once; does not decide panics inside user callbacks or the exact call bound.",
   "Trusted: go/types, go/ssa, astikit BytesIterator summary (fetch fails iff len < offset+n, panics iff n < 0 or offset < 0), documented input domain packet size 0 or >= 188.",
   "static analysis: path-sensitive abstract interpretation over go/ssa (linear forms, guard facts, function summaries)", "DESIGN.md §3.C, §5 C03"),
 "C10": ("proof",
   "Proof from the source: the 256 table constants equal the polynomial-division reference, the update step is interpreted in a GF(2)-affine bit-vector domain and equals 8 bit-serial reference steps as 32 affine forms over 40 atoms (all 2^40 state/byte pairs), the function is a left fold over its input (chunking invariance), init 0xFFFFFFFF, no final XOR, big-endian parse/emit.",
   "Trusted: go/types constant evaluation, go/ast, bit-vector semantics of Go's unsigned operators (package bitdom, unit-tested), astikit BitsWriter.Write(uint32) summary.",
   "static analysis: abstract interpretation in a GF(2)-affine bit-vector domain + structural AST rules", "DESIGN.md §3.F, §5 C10"),
 "C18": ("other",
   "Static error-discipline analysis over go/ssa: every BitsWriterBatch latch consulted, every error-returning call site propagates, reader/writer errors wrapped with %w, EOF sentinel only under an io.EOF comparison, API byte counts are sums of callee counts. Decides the propagation links for every fault position at once; does not decide the 'prefix of fault-free output' clause.",
   "Trusted: go/types, go/ssa, astikit BitsWriter/BitsWriterBatch summaries (Err() returns the first latched error).",
   "static analysis: SSA dataflow (must-pass-through, def-use derivation, dominance)", "DESIGN.md §3.B, §5 C18"),
}
NA = {
 "C15": "float64/calendar arithmetic over 50 457 MJD values and BCD digit arithmetic: only enumeration decides it; no sound static clause beyond field widths (covered under C13/C14). See DESIGN.md §5 C15.",
}
extra = os.path.join(HERE, 'tools', 'claims_extra.json')
if os.path.exists(extra):
    for k, v in json.load(open(extra)).items():
        CLAIMS[k] = tuple(v)

def chk(pid):
    cat, text, note, tech, ref = CLAIMS[pid]
    return {"property_id": pid, "quick_cmd": f"./check {pid} quick", "thorough_cmd": f"./check {pid} thorough",
            "evidence_file": f"/verif/evidence/{pid}.json", "replay_cmd_template": "./bin/astverif explain {path}",
            "engine": "astverif", "level_claimed": {"category": cat, "text": text, "design_ref": ref},
            "level_note": note, "technique": tech}
checks = [chk(p['id']) for p in props if p['id'] in CLAIMS]
na = []
for p in props:
    if p['id'] in CLAIMS:
        continue
    na.append({"property_id": p['id'], "reason": NA.get(p['id'], "check not built yet in this revision (see DESIGN.md §8 build order)")})
m = {"version": 1,
     "setup_cmd": "cd /verif/checker && GOFLAGS=-mod=mod GOPROXY=off GOSUMDB=off GOTOOLCHAIN=local go build -o /verif/bin/astverif ./cmd/astverif",
     "hooks": {"guard": "verif", "enable": "none needed: the checks read /repo's source (go/packages + go/ssa); no instrumentation is compiled in",
               "baseline_off_cmd": "cd /repo && go test -vet=off -count=1 ./...", "source_commits": [], "add_only": True},
     "engines": [{"name": "astverif", "path": "/verif/checker", "serves_properties": sorted(CLAIMS),
                  "kind_free_text": "repository-specific static analyser (go/packages, go/ssa, go/ast): error-discipline, iterator-safety (path-sensitive abstract interpretation), state/ownership, bit-layout, truth-table and CRC engines"}],
     "checks": checks, "not_applicable": na,
     "notes": "All checks are static: they type-check /repo's working tree on every run and never execute go-astits code."}
json.dump(m, open(os.path.join(HERE, 'MANIFEST.json'), 'w'), indent=1)
print("claimed:", sorted(CLAIMS))
