#!/usr/bin/env python3
"""usage: tools/mk_agent_prompt.py <ID> [n_changes] [extra-instruction-file]
Prints the brief handed to a fresh sub-agent for one round of seeded changes against property <ID>.
The brief contains only the property's text, the path of the agent's own scratch worktree and the
one-line summaries of the ideas already used in earlier rounds (so that it looks elsewhere) - nothing
about /verif's checks."""
import json, os, sys, glob

pid = sys.argv[1]
n = int(sys.argv[2]) if len(sys.argv) > 2 else 3
extra = open(sys.argv[3]).read() if len(sys.argv) > 3 else ""
root = os.path.dirname(os.path.dirname(os.path.abspath(__file__)))
prop = None
for l in open(os.path.join(root, "properties.jsonl")):
    p = json.loads(l)
    if p["id"] == pid:
        prop = p
assert prop, pid
used = []
ks = []
for m in sorted(glob.glob(os.path.join(root, "seeded", pid, "m*", "meta.json"))):
    j = json.load(open(m))
    used.append("- " + j.get("summary", "").strip())
    ks.append(int(os.path.basename(os.path.dirname(m))[1:]))
first = (max(ks) if ks else 0) + 1
names = ", ".join("m%d" % (first + i) for i in range(n))
mech = "\n".join("  - %s (%s)" % (m["name"], m["where"]) for m in prop["anchors"].get("mechanism", []))
print(f"""You are helping to evaluate a verification framework for the Go library github.com/asticode/go-astits (MPEG transport
stream demuxer/muxer). Your job is to act as the adversary: produce {n} independent, realistic code changes ("seeded defects")
to the library, each of which BREAKS the property below while the library still compiles and its whole existing test suite
still passes. You work ONLY in your own scratch git worktree: {'/tmp/wt/' + pid}   (a checkout of the library; module root).
Do not read or touch /repo, /verif or any other directory's files; do not look for any verification tooling. There is no network.

Every shell command needs:  export GOFLAGS=-mod=mod GOPROXY=off GOSUMDB=off GOTOOLCHAIN=local; unset GOWORK
Full suite:  cd /tmp/wt/{pid} && go test -vet=off -count=1 .

THE PROPERTY ({pid}: {prop['title']})
{prop['statement']}

It is meant to hold over: {prop['quantifier']['text']}

Mechanisms in the code that it rests on:
{mech}

WHAT A GOOD CHANGE LOOKS LIKE
* It is the kind of change a maintainer could plausibly make and a reviewer could plausibly accept: a refactoring, an
  "optimisation", a "simplification", a tidy-up, a well-meant robustness tweak, a copy/paste slip, an off-by-one, a wrong
  variable of the right type, a condition that is almost equivalent, a step moved a few lines, state that is no longer
  reset / restored / consumed on one path. Small diffs (1-25 lines). No sabotage comments, no dead giveaways, no new
  exported API, do not edit or delete existing tests, do not touch go.mod/go.sum.
* It must need something SPECIFIC to manifest - do not produce a change that ordinary use would expose at once. Prefer:
  a particular interleaving or order of calls; a fault (reader/writer error, short read, truncated or corrupted input)
  at a particular point; a multi-step sequence of operations (second call, after a failure, after a wrap-around,
  after Rewind/Remove/Add ...); an unusual but legal input (boundary lengths, rare flags, maximal values, empty loops);
  or TWO COOPERATING SITES that each look fine alone (e.g. a producer and a consumer that are changed consistently so
  that they agree with each other but no longer with the standard / the contract; or a guard moved to a place where a
  different caller no longer passes through it).
* The {n} changes must be different in kind from each other (different functions / mechanisms / failure modes) and different
  from the ideas already used in earlier rounds, listed here - do not repeat these, find other places and other mechanisms:
{chr(10).join(used) if used else '  (none yet)'}
{extra}
FOR EACH CHANGE, IN THIS ORDER
1. Start from a clean worktree (git -C /tmp/wt/{pid} checkout -- . && git -C /tmp/wt/{pid} clean -fdq).
2. Write a demonstration: a Go test file containing one test function whose name starts with TestVerifDemo (package astits,
   so it may use unexported identifiers; it must be self-contained in one file; use only the standard library, testify
   (already a dependency) and the package itself). It must PASS on the unchanged library and FAIL with your change, and its
   failure must show the property being broken (wrong/missing/extra data, wrong bytes, a panic, a hang guarded by a timeout,
   an error not surfaced, a counter jump ...), not merely that some internal function returns something different.
   Run it as: cp demo_test.go /tmp/wt/{pid}/verif_demo_test.go && go test -vet=off -count=1 -run TestVerifDemo .
3. Make the change, check: go build ./... ; the FULL suite passes (go test -vet=off -count=1 .  run WITHOUT your demo file in
   the tree); then with the demo file in the tree the demo fails.
4. Save into /tmp/wtout/{pid}/<name>/ (names for this round: {names}):
     patch.diff     = output of `git -C /tmp/wt/{pid} diff` with ONLY the library change (no demo file in it)
     demo_test.go   = the demonstration file
     meta.json      = {{"summary": "<one or two sentences: what was changed, where>", "needs": "<what it needs in order to
                       manifest>", "why_tests_pass": "<why the existing suite does not notice>", "files": ["..."],
                       "kind": "<interleaving|fault|multi-step|unusual-input|two-sites|other>"}}
5. Restore the worktree to clean (checkout + clean, remove verif_demo_test.go).
Never use `git stash` (the stash is shared between all worktrees of the repository and other agents work in theirs); to get back to the unchanged library use `git diff > /tmp/wtout/<ID>/wip.diff` and `git checkout -- .`.
Verify at the end that each patch applies to a clean worktree with `git apply --check`.

If an idea turns out not to break the property, or cannot pass the suite, drop it and try another; report honestly. Your final
message: for each saved change one line (name, files, one-sentence summary, what it needs), plus any idea you tried and dropped.
""")
