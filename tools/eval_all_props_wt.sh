#!/bin/bash
# usage: tools/eval_all_props_wt.sh <ID> <mK> [binary] — applies /tmp/wtout/<ID>/<mK>/patch.diff in /tmp/wt/<ID>, runs every property's quick check against it
export GOFLAGS=-mod=mod GOPROXY=off GOSUMDB=off GOTOOLCHAIN=local; unset GOWORK
ID=$1; K=$2; BIN=${3:-/verif/bin/astverif}
WT=/tmp/wt/$ID
( cd $WT && git checkout -q -- . && git clean -fdq && git apply /tmp/wtout/$ID/$K/patch.diff ) || exit 2
for p in C01 C02 C03 C04 C05 C06 C07 C08 C09 C10 C11 C12 C13 C14 C15 C16 C17 C18 C19 C20; do
  ( out=$(cd /verif && VERIF_HOME=/tmp/evalhome_$p VERIF_REPO=$WT $BIN check -prop $p 2>&1); rc=$?
    keys=$(echo "$out" | grep -E "^(VIOLATED|UNDECIDED)" | awk '{print $2}' | head -3 | tr '\n' ' ')
    [ $rc -ne 0 ] && echo "  $ID/$K -> $p rc=$rc $keys" ) &
done
wait
( cd $WT && git checkout -q -- . && git clean -fdq )
